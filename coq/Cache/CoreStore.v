(* C01 (transparency), C07 (nothing lost on eviction), C02 (compute once) on the model M3. *)
From Klepto Require Import OMap OMapFacts CacheDict CacheDictFacts CacheCore LruFacts LfuFacts CoreInv CoreStep CoreSize CoreExn.
From Coq Require Import Lia.

(* ================================================================ C01 *)
Section Transparency.
(* the deterministic user function, seen through an information-preserving keymap: all argument
   tuples with key k produce g k *)
Variable g : key -> fres.

Definition consistent_map (m : omap) : Prop := forall k v, get m k = Some v -> g k = Ret v.
Definition consistent_arch (a : archive) : Prop := consistent_map (a_contents a).
Definition Consistent (s : state) : Prop :=
  consistent_map (smem s) /\ consistent_arch (arch (cs s)) /\ consistent_arch (swp (cs s)).

Definition op_consistent (o : op) : Prop :=
  match o with
  | Call (KOk k) fr _ => fr = g k
  | SetArchive a => consistent_arch a
  | ArchSet k v => g k = Ret v
  | _ => True
  end.

Lemma cm_nil : consistent_map [].
Proof. intros k v H; discriminate. Qed.

Lemma cm_set m k v : consistent_map m -> g k = Ret v -> consistent_map (set m k v).
Proof.
  intros H Hg k' v'. rewrite get_set. destruct (Z.eqb k' k) eqn:E; [|apply H].
  apply Z.eqb_eq in E; subst. intros E; inversion E; subst. exact Hg.
Qed.

Lemma cm_del m k : consistent_map m -> consistent_map (del m k).
Proof. intros H k' v'. rewrite get_del. destruct (Z.eqb k' k); [discriminate|apply H]. Qed.

Lemma cm_update m m2 : NoDup (keys m2) -> consistent_map m -> consistent_map m2 -> consistent_map (update m m2).
Proof.
  intros Hnd H1 H2 k v. rewrite get_update by exact Hnd.
  destruct (get m2 k) eqn:E; [intros E2; inversion E2; subst; now apply H2|apply H1].
Qed.

Lemma ca_update a m : NoDup (keys m) -> consistent_arch a -> consistent_map m -> consistent_arch (a_update a m).
Proof. destruct a; cbn; [intros; apply cm_nil|]. intros. now apply cm_update. Qed.

Lemma ca_null : consistent_arch ANull.
Proof. apply cm_nil. Qed.

Definition CC (c0 : cstate) : Prop :=
  consistent_map (mem c0) /\ consistent_arch (arch c0) /\ consistent_arch (swp c0).

Lemma CC_load1 c0 k : CC c0 -> CC (c_load1 c0 k).
Proof.
  intros (H1 & H2 & H3). unfold c_load1. destruct (a_get (arch c0) k) as [v|] eqn:E; [|repeat split; assumption].
  repeat split; cbn; try assumption. apply cm_set; [exact H1|]. now apply H2.
Qed.

Lemma CC_load c0 ks : wf_c c0 -> CC c0 -> CC (c_load c0 ks).
Proof.
  intros Hwf H. destruct ks as [|k0 r].
  - destruct H as (H1 & H2 & H3). repeat split; cbn; try assumption. apply cm_update; try assumption. apply Hwf.
  - unfold c_load. generalize (k0 :: r). intros l. clear Hwf. revert c0 H.
    induction l as [|x l IH]; intros c0 H; cbn [fold_left]; [exact H|]. apply IH. now apply CC_load1.
Qed.

Lemma CC_dump1 c0 k : CC c0 -> CC (c_dump1 c0 k).
Proof.
  intros (H1 & H2 & H3). unfold c_dump1. destruct (get (mem c0) k) as [v|] eqn:E; [|repeat split; assumption].
  repeat split; cbn; try assumption. apply ca_update; [repeat constructor; intros []|exact H2|].
  intros k' v'. cbn. destruct (Z.eqb k' k) eqn:E2; [|discriminate].
  apply Z.eqb_eq in E2; subst. intros E3; inversion E3; subst. now apply H1.
Qed.

Lemma CC_dump c0 ks : wf_c c0 -> CC c0 -> CC (c_dump c0 ks).
Proof.
  intros Hwf H. destruct ks as [|k0 r].
  - destruct H as (H1 & H2 & H3). repeat split; cbn; try assumption. apply ca_update; try assumption. apply Hwf.
  - unfold c_dump. generalize (k0 :: r). intros l. clear Hwf. revert c0 H.
    induction l as [|x l IH]; intros c0 H; cbn [fold_left]; [exact H|]. apply IH. now apply CC_dump1.
Qed.

Lemma Consistent_CC s : Consistent s <-> CC (cs s).
Proof. reflexivity. Qed.

Lemma Consistent_load c s ks : WF c s -> Consistent s -> Consistent (load_ c s ks).
Proof. intros [Hwf _] H. unfold load_. destruct (c_direct c); [exact H|]. apply (CC_load (cs s) ks Hwf H). Qed.

Lemma Consistent_dump c s ks : WF c s -> Consistent s -> Consistent (dump_ c s ks).
Proof. intros [Hwf _] H. unfold dump_. destruct (c_direct c); [exact H|]. apply (CC_dump (cs s) ks Hwf H). Qed.

Lemma Consistent_maybe_load c s ks (b : bool) : WF c s -> Consistent s -> Consistent (if b then load_ c s ks else s).
Proof. destruct b; [apply Consistent_load|auto]. Qed.
Lemma Consistent_maybe_dump c s ks (b : bool) : WF c s -> Consistent s -> Consistent (if b then dump_ c s ks else s).
Proof. destruct b; [apply Consistent_dump|auto]. Qed.

(* states that differ only in bookkeeping / statistics *)
Lemma Consistent_cs s s' : cs s' = cs s -> Consistent s -> Consistent s'.
Proof. unfold Consistent, smem. intros ->. tauto. Qed.

Lemma Consistent_w_mem s m : Consistent s -> consistent_map m -> Consistent (w_mem s m).
Proof. intros (H1 & H2 & H3) Hm. repeat split; assumption. Qed.

Lemma WFc_and_Consistent_lfu c vs s : c_alg c = LFU -> WF c s -> Consistent s -> Consistent (fold_left (lfu_evict1 c) vs s).
Proof.
  intros Ha. revert s. induction vs as [|v r IH]; intros s Hwf H; cbn [fold_left]; [exact H|].
  apply IH; [now apply WF_lfu_evict1|]. unfold lfu_evict1.
  pose proof (Consistent_maybe_dump c s [v] (archived_ c s) Hwf H) as H1.
  set (s1 := if archived_ c s then dump_ c s [v] else s) in *.
  apply (Consistent_cs (w_mem s1 (del (smem s1) v))); [reflexivity|].
  apply Consistent_w_mem; [exact H1|]. apply cm_del. apply (proj1 H1).
Qed.

Lemma Consistent_evict c s k orc : WF c s -> (c_alg c = LRU -> queue s <> []) -> Consistent s ->
  Consistent (fst (evict c s k orc)).
Proof.
  intros Hwf Hq H. unfold evict. destruct (c_alg c) eqn:Ha; cbn [fst]; try exact H.
  - now apply WFc_and_Consistent_lfu.
  - destruct (lru_evict (queue s) (refc s)) as [[[w|] q] rc]; cbn [fst].
    + set (s1 := w_refc (w_queue s q) rc).
      assert (Hw1 : WF c s1 \/ True) by (right; exact I).
      assert (H1 : Consistent s1) by (apply (Consistent_cs s); [reflexivity|exact H]).
      assert (H2 : Consistent (if archived_ c s1 then dump_ c s1 [w] else s1)).
      { destruct (archived_ c s1); [|exact H1]. unfold dump_. destruct (c_direct c); [exact H1|].
        apply (CC_dump (cs s) [w]); [apply Hwf|exact H]. }
      set (s2 := if archived_ c s1 then dump_ c s1 [w] else s1) in *.
      apply (Consistent_cs (w_mem s2 (del (smem s2) w))); [reflexivity|].
      apply Consistent_w_mem; [exact H2|]. apply cm_del. apply (proj1 H2).
    + apply (Consistent_cs s); [reflexivity|exact H].
  - assert (Hm : forall w q, Consistent (w_mem (if archived_ c (w_queue s q) then dump_ c (w_queue s q) [w] else w_queue s q)
                  (del (smem (if archived_ c (w_queue s q) then dump_ c (w_queue s q) [w] else w_queue s q)) w))).
    { intros w q. set (s1 := w_queue s q).
      assert (H2 : Consistent (if archived_ c s1 then dump_ c s1 [w] else s1)).
      { destruct (archived_ c s1); [|exact H]. unfold dump_. destruct (c_direct c); [exact H|].
        apply (CC_dump (cs s) [w]); [apply Hwf|exact H]. }
      apply Consistent_w_mem; [exact H2|]. apply cm_del. apply (proj1 H2). }
    destruct (pop_right (queue s)) as [[w q]|]; cbn [fst]; apply Hm.
  - pose proof (Consistent_maybe_dump c s [orc] (archived_ c s) Hwf H) as H1.
    set (s1 := if archived_ c s then dump_ c s [orc] else s) in *.
    apply Consistent_w_mem; [exact H1|]. apply cm_del. apply (proj1 H1).
Qed.

Lemma Consistent_purge_block c s k orc : WF c s -> (c_alg c = LRU -> queue s <> []) -> Consistent s ->
  Consistent (fst (purge_block c s k orc)).
Proof.
  intros Hwf Hq H. unfold purge_block. destruct (Z.gtb _ _); [|exact H].
  destruct (archived_ c s && c_purge c); [|now apply Consistent_evict].
  cbn [fst]. apply (Consistent_cs (w_mem (dump_ c s []) [])); [apply clear_book_cs|].
  apply Consistent_w_mem; [now apply Consistent_dump|apply cm_nil].
Qed.

Lemma Consistent_post c s k : Consistent s -> Consistent (post c s k).
Proof.
  intros H. apply (Consistent_cs s); [|exact H]. unfold post. destruct (c_alg c); try reflexivity.
  - unfold lru_compact. destruct (Z.gtb _ _); [|reflexivity]. destruct (compact (queue s)); reflexivity.
  - destruct (mem_key (smem s) k); reflexivity.
Qed.

Lemma Consistent_finish c s k orc v ev : WF c s -> (c_alg c = LRU -> queue s <> []) -> Consistent s ->
  Consistent (fst (finish c s k orc v ev)).
Proof.
  intros Hwf Hq H. unfold finish.
  pose proof (Consistent_purge_block c s k orc Hwf Hq H) as Hp.
  destruct (c_alg c); cbn [fst]; try exact H;
    destruct (purge_block c s k orc) as [s1 r]; destruct r; cbn [fst] in *; try exact Hp; now apply Consistent_post.
Qed.

Lemma Consistent_touch c s k : Consistent s -> Consistent (touch_new c s k) /\ Consistent (touch_hit c s k).
Proof.
  intros H. split; apply (Consistent_cs s); try exact H.
  - now destruct (touch_new_frame c s k) as (-> & _).
  - unfold touch_hit. destruct (c_alg c); reflexivity.
Qed.

Definition transparent_out (fr : fres) (o : out) : Prop :=
  match o with
  | ORet v _ => fr = Ret v
  | ORaise EUser _ => fr = Raise
  | ORaise _ _ => True
  | _ => False
  end.

Lemma finish_transparent c s k orc v ev fr : fr = Ret v -> transparent_out fr (snd (finish c s k orc v ev)).
Proof. intros ->. destruct (finish_out_shape c s k orc v ev) as [-> | ->]; cbn; auto. Qed.

(* one call: the value returned is the function's value; the invariant is kept *)
Lemma call_cached_transparent c s k fr orc : WF c s -> Consistent s -> fr = g k ->
  transparent_out fr (snd (call_cached c s k fr orc)) /\ Consistent (fst (call_cached c s k fr orc)).
Proof.
  intros Hwf H Hfr. unfold call_cached.
  destruct (get (smem s) k) as [v|] eqn:Hg.
  - cbn [fst snd transparent_out]. split.
    + rewrite Hfr. apply (proj1 H). exact Hg.
    + apply Consistent_post. apply (Consistent_cs (touch_hit c s k)); [reflexivity|]. now apply Consistent_touch.
  - set (s1 := if archived_ c s then load_ c s [k] else s).
    assert (Hw1 : WF c s1) by (subst s1; destruct (archived_ c s); [now apply WF_load|exact Hwf]).
    assert (H1 : Consistent s1) by (subst s1; now apply Consistent_maybe_load).
    destruct (get (smem s1) k) as [v|] eqn:Hg1.
    + assert (Hk : resident s1 k) by (eapply get_in_keys; eauto).
      split; [apply finish_transparent; rewrite Hfr; apply (proj1 H1); exact Hg1|].
      pose proof (WF_touch c s1 k Hw1 Hk) as Hw3.
      apply Consistent_finish.
      * apply (stat_frame_WF c _ Hw3).
      * intros Ha. cbn [queue load1]. now apply touch_new_frame.
      * apply (Consistent_cs (touch_new c s1 k)); [reflexivity|]. now apply Consistent_touch.
    + destruct fr as [v|]; [|cbn [fst snd transparent_out]; auto].
      split; [now apply finish_transparent|].
      destruct (WF_set_mem c s1 k v Hw1) as [Hw2 Hk2].
      pose proof (WF_touch c _ k Hw2 Hk2) as Hw3.
      apply Consistent_finish.
      * apply (stat_frame_WF c _ Hw3).
      * intros Ha. cbn [queue miss1]. now apply touch_new_frame.
      * apply (Consistent_cs (touch_new c (w_mem s1 (set (smem s1) k v)) k)); [reflexivity|].
        apply Consistent_touch. apply Consistent_w_mem; [exact H1|]. apply cm_set; [apply (proj1 H1)|now rewrite <- Hfr].
Qed.

Lemma Consistent_no_purge c s : WF c s -> Consistent s -> Consistent (no_purge c s).
Proof.
  intros Hwf H. unfold no_purge. destruct (Z.gtb _ _); [|exact H].
  apply Consistent_w_mem; [now apply Consistent_maybe_dump|apply cm_nil].
Qed.

Lemma call_no_transparent c s k fr : c_alg c = NO -> WF c s -> Consistent s -> fr = g k ->
  transparent_out fr (snd (call_no c s k fr)) /\ Consistent (fst (call_no c s k fr)).
Proof.
  intros Ha Hwf H Hfr. unfold call_no.
  set (s1 := if archived_ c s then load_ c s [k] else s).
  assert (Hw1 : WF c s1) by (subst s1; destruct (archived_ c s); [now apply WF_load|exact Hwf]).
  assert (H1 : Consistent s1) by (subst s1; now apply Consistent_maybe_load).
  destruct (get (smem s1) k) as [v|] eqn:Hg1.
  - cbn [fst snd transparent_out]. split; [rewrite Hfr; apply (proj1 H1); exact Hg1|].
    apply Consistent_no_purge.
    + split; [|unfold book_inv; now rewrite Ha]. apply wf_w_mem; [apply Hw1|constructor].
    + apply (Consistent_cs (w_mem s1 [])); [reflexivity|]. apply Consistent_w_mem; [exact H1|apply cm_nil].
  - destruct fr as [v|]; cbn [fst snd transparent_out]; [|auto]. split; [reflexivity|].
    apply Consistent_no_purge.
    + split; [|unfold book_inv; now rewrite Ha]. apply wf_w_mem; [apply Hw1|]. apply NoDup_keys_set. apply Hw1.
    + apply (Consistent_cs (w_mem s1 (set (smem s1) k v))); [reflexivity|].
      apply Consistent_w_mem; [exact H1|]. apply cm_set; [apply (proj1 H1)|now rewrite <- Hfr].
Qed.

Theorem call_transparent c s kr fr orc : WF c s -> Consistent s -> (forall k, kr = KOk k -> fr = g k) ->
  transparent_out fr (snd (call c s kr fr orc)) /\ Consistent (fst (call c s kr fr orc)).
Proof.
  intros Hwf H Hfr. unfold call. destruct kr as [k| |].
  - specialize (Hfr k eq_refl).
    destruct (c_alg c) eqn:Ha; try (now apply call_cached_transparent). now apply call_no_transparent.
  - destruct (c_safe c); [|cbn; auto]. destruct fr; cbn; split; auto; apply (Consistent_cs s); auto.
  - destruct (c_safe c); [|cbn; auto].
    destruct (c_alg c) eqn:Ha; destruct fr; cbn [fst snd fallback transparent_out]; split; auto;
      try (apply (Consistent_cs s); auto; fail).
    apply Consistent_no_purge; [|apply (Consistent_cs s); auto].
    destruct Hwf as [W1 W2]. split; [exact W1|exact W2].
Qed.

Lemma CC_set_archive c0 a : CC c0 -> consistent_arch a -> CC (c_set_archive c0 a).
Proof.
  intros (H1 & H2 & H3) Ha. rewrite c_set_archive_spec. destruct (is_null (swp c0)); repeat split; assumption.
Qed.

Lemma CC_swap c0 : CC c0 -> CC (c_swap c0).
Proof. intros (H1 & H2 & H3). unfold c_swap. apply CC_set_archive; [repeat split; assumption|exact H3]. Qed.

Theorem Consistent_step c s o : WF c s -> Consistent s -> op_consistent o -> Consistent (fst (step c s o)).
Proof.
  intros Hwf H Ho. destruct o; cbn [step].
  - apply call_transparent; try assumption. intros k ->. exact Ho.
  - destruct kr; try exact H. destruct (get (smem s) k); exact H.
  - destruct kr; exact H.
  - exact H.
  - now apply Consistent_load.
  - now apply Consistent_dump.
  - unfold do_clear.
    assert (H1 : Consistent (match c_alg c with NO => s | _ => clear_book c (w_mem s []) end)).
    { destruct (c_alg c); try exact H;
        (apply (Consistent_cs (w_mem s [])); [apply clear_book_cs|apply Consistent_w_mem; [exact H|apply cm_nil]]). }
    destruct keepstats; [exact H1|]. apply (Consistent_cs _ _ eq_refl H1).
  - destruct flag as [b|]; [|exact H]. destruct (c_direct c); [exact H|]. destruct b.
    + destruct (c_archived_on (cs s)) eqn:E; [|exact H]. cbn [fst]. apply Consistent_CC. cbn [cs w_cs].
      unfold c_archived_on in E. destruct (negb (is_null (swp (cs s)))).
      * inversion E; subst. now apply CC_swap.
      * destruct (is_null (arch (cs s))); inversion E; subst; exact H.
    + cbn [fst]. apply Consistent_CC. cbn [cs w_cs]. unfold c_archived_off.
      destruct (negb (is_null (arch (cs s)))); [now apply CC_swap|exact H].
  - destruct (c_direct c); [exact H|]. cbn [fst]. apply Consistent_CC. cbn [cs w_cs]. now apply CC_set_archive.
  - destruct (c_direct c); [exact H|]. cbn [fst]. apply Consistent_CC. cbn [cs w_cs].
    destruct H as (H1 & H2 & H3). repeat split; try assumption. cbn [arch c_with_arch].
    apply ca_update; [repeat constructor; intros []|exact H2|].
    intros k' v'. cbn. destruct (Z.eqb k' k) eqn:E2; [|discriminate].
    apply Z.eqb_eq in E2; subst. intros E3; inversion E3; subst. exact Ho.
  - cbn [fst]. apply Consistent_w_mem; [exact H|apply cm_nil].
Qed.

(* every call of every history returns the function's value: by induction over the history *)
Fixpoint all_transparent (c : cfg) (s : state) (ops : list op) : Prop :=
  match ops with
  | [] => True
  | o :: r =>
      match o with
      | Call kr fr orc => transparent_out fr (snd (call c s kr fr orc))
      | _ => True
      end /\ all_transparent c (fst (step c s o)) r
  end.

Theorem history_transparent c ops s : WF c s -> Consistent s ->
  Forall op_ok ops -> Forall op_consistent ops -> all_transparent c s ops.
Proof.
  revert s. induction ops as [|o r IH]; intros s Hwf H Hok Hoc; [exact I|].
  inversion Hok; subst. inversion Hoc; subst. cbn [all_transparent]. split.
  - destruct o; try exact I. apply call_transparent; try assumption.
    intros k ->. assumption.
  - apply IH; try assumption; [now apply WF_step|now apply Consistent_step].
Qed.

End Transparency.

(* ================================================================ C07 / C02 *)
(* retrievable: held in memory or by the attached archive *)
Definition R0 (c0 : cstate) (k : key) (v : val) : Prop := get (mem c0) k = Some v \/ a_get (arch c0) k = Some v.
(* memory and archive never disagree on a key they both hold *)
Definition A0 (c0 : cstate) : Prop := forall k v v', get (mem c0) k = Some v -> a_get (arch c0) k = Some v' -> v = v'.

Definition retr (s : state) (k : key) (v : val) : Prop := R0 (cs s) k v.
Definition agree (s : state) : Prop := A0 (cs s).

Lemma dump1_RA c0 w : is_null (arch c0) = false -> A0 c0 ->
  (forall k v, R0 c0 k v -> R0 (c_dump1 c0 w) k v) /\ A0 (c_dump1 c0 w) /\
  (forall v, get (mem c0) w = Some v -> a_get (arch (c_dump1 c0 w)) w = Some v) /\
  (forall k v, a_get (arch c0) k = Some v -> a_get (arch (c_dump1 c0 w)) k = Some v).
Proof.
  intros N HA.
  assert (Hget : forall k, a_get (arch (c_dump1 c0 w)) k =
                 if Z.eqb k w then match get (mem c0) w with Some v => Some v | None => a_get (arch c0) w end
                 else a_get (arch c0) k) by (intros k; rewrite c_dump1_get, N; reflexivity).
  destruct (c_dump1_mem c0 w) as (Hm & _ & _).
  assert (Harch : forall k v, a_get (arch c0) k = Some v -> a_get (arch (c_dump1 c0 w)) k = Some v).
  { intros k v Hk. rewrite Hget. destruct (Z.eqb k w) eqn:E; [|exact Hk].
    apply Z.eqb_eq in E; subst k. destruct (get (mem c0) w) as [v2|] eqn:E2; [|exact Hk].
    f_equal. eapply HA; eauto. }
  repeat split.
  - intros k v [H|H]; [left; now rewrite Hm|right; now apply Harch].
  - intros k v v'. rewrite Hm, Hget. destruct (Z.eqb k w) eqn:E.
    + apply Z.eqb_eq in E; subst k. intros H1. rewrite H1. congruence.
    + apply HA.
  - intros v Hv. rewrite Hget, Z.eqb_refl, Hv. reflexivity.
  - exact Harch.
Qed.

Lemma dump_all_RA c0 : NoDup (keys (mem c0)) -> is_null (arch c0) = false -> A0 c0 ->
  (forall k v, R0 c0 k v -> a_get (arch (c_dump c0 [])) k = Some v) /\ mem (c_dump c0 []) = mem c0.
Proof.
  intros Hnd N HA. split; [|reflexivity]. intros k v HR.
  rewrite c_dump_all_get by assumption. destruct HR as [H|H].
  - now rewrite H.
  - destruct (get (mem c0) k) as [v2|] eqn:E; [|exact H]. f_equal. eapply HA; eauto.
Qed.

Lemma load1_RA c0 w : A0 c0 ->
  (forall k v, R0 c0 k v -> R0 (c_load1 c0 w) k v) /\ A0 (c_load1 c0 w).
Proof.
  intros HA. unfold c_load1. destruct (a_get (arch c0) w) as [vw|] eqn:E; [|split; [tauto|exact HA]].
  split.
  - intros k v [H|H]; [|right; exact H]. unfold R0. cbn. rewrite get_set.
    destruct (Z.eqb k w) eqn:E2; [|left; exact H]. apply Z.eqb_eq in E2; subst k. right. rewrite E. f_equal.
    symmetry. eapply HA; eauto.
  - intros k v v'. cbn. rewrite get_set. destruct (Z.eqb k w) eqn:E2; [|apply HA].
    apply Z.eqb_eq in E2; subst k. congruence.
Qed.

(* drop an entry right after dumping it *)
Lemma drop_after_dump c0 w : is_null (arch c0) = false -> A0 c0 ->
  let c2 := c_with_mem (c_dump1 c0 w) (del (mem (c_dump1 c0 w)) w) in
  (forall k v, R0 c0 k v -> R0 c2 k v) /\ A0 c2.
Proof.
  intros N HA. destruct (dump1_RA c0 w N HA) as (H1 & H2 & H3 & H4).
  destruct (c_dump1_mem c0 w) as (Hm & _ & _). cbv zeta. split.
  - intros k v HR. unfold R0. cbn. rewrite Hm, get_del.
    destruct (Z.eqb k w) eqn:E.
    + apply Z.eqb_eq in E; subst k. right. destruct HR as [H|H]; [now apply H3|now apply H4].
    + destruct HR as [H|H]; [left; exact H|right; now apply H4].
  - intros k v v'. cbn. rewrite Hm, get_del. destruct (Z.eqb k w); [discriminate|].
    intros Hk. apply H2. now rewrite Hm.
Qed.

Lemma set_new_RA c0 k v : get (mem c0) k = None -> a_get (arch c0) k = None -> A0 c0 ->
  let c2 := c_with_mem c0 (set (mem c0) k v) in
  (forall k' v', R0 c0 k' v' -> R0 c2 k' v') /\ A0 c2 /\ R0 c2 k v.
Proof.
  intros Hm Ha HA. cbv zeta. repeat split.
  - intros k' v' [H|H]; [left|right; exact H]. cbn. rewrite get_set.
    destruct (Z.eqb k' k) eqn:E; [apply Z.eqb_eq in E; subst; congruence|exact H].
  - intros k' v1 v2. cbn. rewrite get_set. destruct (Z.eqb k' k) eqn:E; [|apply HA].
    apply Z.eqb_eq in E; subst. congruence.
  - left. cbn. apply get_set_same.
Qed.

(* ---- lifting to decorator states (archive attached, so not used directly) *)
Lemma archived_facts c s : archived_ c s = true -> c_direct c = false /\ is_null (arch (cs s)) = false.
Proof.
  unfold archived_, c_archived. destruct (c_direct c); [discriminate|]. intros H. split; [reflexivity|].
  destruct (is_null (arch (cs s))); [discriminate|reflexivity].
Qed.

(* from a state whose two sides agree: retrievability is kept, agreement is kept, and no archived
   entry is changed or removed *)
Definition RA_step (s s' : state) : Prop :=
  agree s ->
  (forall k v, retr s k v -> retr s' k v) /\ agree s' /\
  (forall k v, a_get (arch (cs s)) k = Some v -> a_get (arch (cs s')) k = Some v).

Lemma RA_refl s : RA_step s s.
Proof. intros H. auto. Qed.

Lemma RA_trans s1 s2 s3 : RA_step s1 s2 -> RA_step s2 s3 -> RA_step s1 s3.
Proof. intros A B H. destruct (A H) as (A1 & A2 & A3). destruct (B A2) as (B1 & B2 & B3). auto 6. Qed.

Lemma RA_cs s s' : cs s' = cs s -> RA_step s s'.
Proof. unfold RA_step, retr, agree. intros ->. auto. Qed.

Lemma RA_evict_one c s w : archived_ c s = true ->
  RA_step s (w_mem (dump_ c s [w]) (del (smem (dump_ c s [w])) w)).
Proof.
  intros Har Hag. destruct (archived_facts c s Har) as [Hd N].
  unfold dump_. rewrite Hd. unfold retr, agree, smem. cbn [cs w_cs w_mem c_dump fold_left].
  destruct (drop_after_dump (cs s) w N Hag) as [H1 H2]. split; [exact H1|split; [exact H2|]].
  cbn [arch c_with_mem]. apply (dump1_RA (cs s) w N Hag).
Qed.

Lemma archived_after_evict c s w : archived_ c s = true ->
  archived_ c (w_mem (dump_ c s [w]) (del (smem (dump_ c s [w])) w)) = true.
Proof.
  intros Har. destruct (archived_facts c s Har) as [Hd N]. unfold archived_, dump_ in *. rewrite Hd in *.
  cbn [cs w_cs w_mem c_dump fold_left]. unfold c_archived. cbn [arch c_with_mem].
  destruct (c_dump1_mem (cs s) w) as (_ & _ & ->). now rewrite N.
Qed.

Lemma archived_cs_eq c s s' : cs s' = cs s -> archived_ c s' = archived_ c s.
Proof. intros H. apply archived_arch. now rewrite H. Qed.

(* a step that keeps retrievability/agreement/archived entries and keeps the archive attached *)
Definition keeps (c : cfg) (s s' : state) : Prop := RA_step s s' /\ archived_ c s' = true.

Lemma keeps_trans c s1 s2 s3 : keeps c s1 s2 -> keeps c s2 s3 -> keeps c s1 s3.
Proof. intros [A1 A2] [B1 B2]. split; [eapply RA_trans; eauto|exact B2]. Qed.

Lemma keeps_cs c s s' : archived_ c s = true -> cs s' = cs s -> keeps c s s'.
Proof. intros Ha H. split; [now apply RA_cs|]. now rewrite (archived_cs_eq c s s' H). Qed.

Lemma keeps_refl c s : archived_ c s = true -> keeps c s s.
Proof. intros H. split; [apply RA_refl|exact H]. Qed.

Lemma keeps_evict_one c s w : archived_ c s = true ->
  keeps c s (w_mem (if archived_ c s then dump_ c s [w] else s)
                   (del (smem (if archived_ c s then dump_ c s [w] else s)) w)).
Proof.
  intros Har. rewrite Har. split; [now apply RA_evict_one|now apply archived_after_evict].
Qed.

Lemma keeps_lfu_fold c vs s : archived_ c s = true -> keeps c s (fold_left (lfu_evict1 c) vs s).
Proof.
  revert s. induction vs as [|w r IH]; intros s Har; cbn [fold_left]; [now apply keeps_refl|].
  assert (K : keeps c s (lfu_evict1 c s w)).
  { unfold lfu_evict1. eapply keeps_trans; [apply (keeps_evict_one c s w Har)|].
    apply keeps_cs; [apply (keeps_evict_one c s w Har)|reflexivity]. }
  eapply keeps_trans; [exact K|]. apply IH. apply K.
Qed.

Lemma keeps_evict c s k orc : archived_ c s = true -> keeps c s (fst (evict c s k orc)).
Proof.
  intros Har. unfold evict. destruct (c_alg c); cbn [fst]; try (now apply keeps_refl).
  - now apply keeps_lfu_fold.
  - destruct (lru_evict (queue s) (refc s)) as [[[w|] q] rc]; cbn [fst].
    + set (s1 := w_refc (w_queue s q) rc).
      assert (K1 : keeps c s s1) by (apply keeps_cs; [exact Har|reflexivity]).
      eapply keeps_trans; [exact K1|].
      eapply keeps_trans; [apply (keeps_evict_one c s1 w (proj2 K1))|].
      apply keeps_cs; [apply (keeps_evict_one c s1 w (proj2 K1))|reflexivity].
    + apply keeps_cs; [exact Har|reflexivity].
  - assert (Hm : forall w q, keeps c s (w_mem (if archived_ c (w_queue s q) then dump_ c (w_queue s q) [w] else w_queue s q)
                  (del (smem (if archived_ c (w_queue s q) then dump_ c (w_queue s q) [w] else w_queue s q)) w))).
    { intros w q. set (s1 := w_queue s q).
      assert (K1 : keeps c s s1) by (apply keeps_cs; [exact Har|reflexivity]).
      eapply keeps_trans; [exact K1|]. apply (keeps_evict_one c s1 w (proj2 K1)). }
    destruct (pop_right (queue s)) as [[w q]|]; cbn [fst]; apply Hm.
  - now apply keeps_evict_one.
Qed.

(* dump everything, then empty the memory: everything retrievable is in the archive *)
Lemma keeps_dump_clear c s : WF c s -> archived_ c s = true -> keeps c s (w_mem (dump_ c s []) []).
Proof.
  intros Hwf Har. destruct (archived_facts c s Har) as [Hd N].
  assert (Hcs : cs (w_mem (dump_ c s []) []) = c_with_mem (c_dump (cs s) []) []).
  { unfold dump_. rewrite Hd. reflexivity. }
  split.
  - intros Hag. destruct (dump_all_RA (cs s) (proj1 (proj1 Hwf)) N Hag) as [H1 _]. split; [|split].
    + intros k v HR. unfold retr. rewrite Hcs. right. cbn [arch c_with_mem]. now apply H1.
    + unfold agree. rewrite Hcs. intros k v v'. cbn [mem c_with_mem]. discriminate.
    + intros k v Hk. rewrite Hcs. cbn [arch c_with_mem]. apply H1. now right.
  - unfold archived_, c_archived. rewrite Hd, Hcs. cbn [arch c_with_mem c_dump c_with_arch].
    now rewrite is_null_update, N.
Qed.

Lemma keeps_purge_block c s k orc : WF c s -> archived_ c s = true -> keeps c s (fst (purge_block c s k orc)).
Proof.
  intros Hwf Har. unfold purge_block. destruct (Z.gtb _ _); [|now apply keeps_refl].
  destruct (archived_ c s && c_purge c); cbn [fst]; [|now apply keeps_evict].
  eapply keeps_trans; [now apply keeps_dump_clear|].
  apply keeps_cs; [now apply keeps_dump_clear|apply clear_book_cs].
Qed.

Lemma post_cs c s1 k : cs (post c s1 k) = cs s1.
Proof.
  unfold post. destruct (c_alg c); try reflexivity.
  - unfold lru_compact. destruct (Z.gtb _ _); [|reflexivity]. destruct (compact (queue s1)); reflexivity.
  - destruct (mem_key (smem s1) k); reflexivity.
Qed.

Lemma keeps_finish c s k orc v ev : WF c s -> archived_ c s = true -> keeps c s (fst (finish c s k orc v ev)).
Proof.
  intros Hwf Har. unfold finish.
  pose proof (keeps_purge_block c s k orc Hwf Har) as Hp.
  destruct (c_alg c); cbn [fst]; try (now apply keeps_refl);
    destruct (purge_block c s k orc) as [s1 r]; destruct r; cbn [fst] in *; try exact Hp;
    (eapply keeps_trans; [exact Hp|apply keeps_cs; [apply Hp|apply post_cs]]).
Qed.

Lemma keeps_load c s k : archived_ c s = true -> keeps c s (load_ c s [k]).
Proof.
  intros Har. destruct (archived_facts c s Har) as [Hd N].
  unfold load_. rewrite Hd. split.
  - intros Hag. destruct (load1_RA (cs s) k Hag) as [H1 H2]. split; [|split].
    + intros x v. unfold retr. cbn [cs w_cs c_load fold_left]. apply H1.
    + unfold agree. cbn [cs w_cs c_load fold_left]. exact H2.
    + intros x v. cbn [cs w_cs]. now destruct (c_load_arch (cs s) [k]) as [-> _].
  - unfold archived_, c_archived. rewrite Hd. cbn [cs w_cs]. destruct (c_load_arch (cs s) [k]) as [-> _]. now rewrite N.
Qed.

(* C07, one call of a caching decorator with an archive attached *)
Theorem call_cached_keeps c s k fr orc : WF c s -> archived_ c s = true ->
  keeps c s (fst (call_cached c s k fr orc)) /\
  (forall v ev, snd (call_cached c s k fr orc) = ORet v ev ->
     (ev = 0 /\ retr s k v) \/ (fr = Ret v /\ ev = 1 /\ get (smem s) k = None /\ a_get (arch (cs s)) k = None)).
Proof.
  intros Hwf Har. unfold call_cached.
  destruct (get (smem s) k) as [v0|] eqn:Hg.
  - split.
    + apply keeps_cs; [exact Har|]. cbn [fst]. rewrite post_cs. unfold touch_hit. destruct (c_alg c); reflexivity.
    + cbn [snd]. intros v ev E. inversion E; subst. left. split; [reflexivity|]. left. exact Hg.
  - rewrite Har. pose proof (keeps_load c s k Har) as Kl.
    set (s1 := load_ c s [k]) in *.
    assert (Hw1 : WF c s1) by (now apply WF_load).
    destruct (archived_facts c s Har) as [Hd N].
    pose proof (load_lookup c s k Hd Hg) as Hlk. fold s1 in Hlk.
    destruct (get (smem s1) k) as [v1|] eqn:Hg1.
    + assert (Hk : resident s1 k) by (eapply get_in_keys; eauto).
      pose proof (WF_touch c s1 k Hw1 Hk) as Hw3.
      set (s2 := load1 (touch_new c s1 k)).
      assert (K2 : keeps c s1 s2).
      { apply keeps_cs; [apply Kl|]. subst s2. cbn [cs load1]. now destruct (touch_new_frame c s1 k) as (-> & _). }
      split.
      * eapply keeps_trans; [exact Kl|]. eapply keeps_trans; [exact K2|].
        apply keeps_finish; [apply (stat_frame_WF c _ Hw3)|apply K2].
      * intros v ev E. left.
        destruct (finish_out_shape c s2 k orc v1 0) as [E2|E2]; rewrite E2 in E; inversion E; subst.
        split; [reflexivity|]. right. now rewrite <- Hlk.
    + destruct fr as [v|]; [|split; [exact Kl|cbn [snd]; discriminate]].
      destruct (WF_set_mem c s1 k v Hw1) as [Hw2 Hk2].
      pose proof (WF_touch c _ k Hw2 Hk2) as Hw3.
      set (s1' := w_mem s1 (set (smem s1) k v)) in *.
      set (s2 := miss1 (touch_new c s1' k)).
      assert (Hna : a_get (arch (cs s1)) k = None).
      { unfold s1, load_. rewrite Hd. cbn [cs w_cs]. destruct (c_load_arch (cs s) [k]) as [-> _]. now rewrite <- Hlk. }
      assert (K1' : keeps c s1 s1').
      { split; [|rewrite (archived_arch c s1' s1 eq_refl); apply Kl].
        intros Hag1. destruct (set_new_RA (cs s1) k v Hg1 Hna Hag1) as (S1 & S2 & S3).
        split; [exact S1|split; [exact S2|]]. intros x w Hx. exact Hx. }
      assert (K2 : keeps c s1' s2).
      { apply keeps_cs; [apply K1'|]. subst s2. cbn [cs miss1]. now destruct (touch_new_frame c s1' k) as (-> & _). }
      split.
      * eapply keeps_trans; [exact Kl|]. eapply keeps_trans; [exact K1'|]. eapply keeps_trans; [exact K2|].
        apply keeps_finish; [apply (stat_frame_WF c _ Hw3)|apply K2].
      * intros v' ev E. right.
        destruct (finish_out_shape c s2 k orc v 1) as [E2|E2]; rewrite E2 in E; inversion E; subst.
        repeat split; auto.
Qed.

(* a computed result is retrievable after the call (it is resident, or it was dumped when evicted) *)
Lemma computed_is_retrievable c s k orc v : WF c s -> archived_ c s = true -> agree s ->
  get (smem s) k = None -> snd (call_cached c s k (Ret v) orc) = ORet v 1 ->
  retr (fst (call_cached c s k (Ret v) orc)) k v.
Proof.
  intros Hwf Har Hag Hg. unfold call_cached. rewrite Hg, Har.
  pose proof (keeps_load c s k Har) as Kl. set (s1 := load_ c s [k]) in *.
  assert (Hw1 : WF c s1) by (now apply WF_load).
  destruct (archived_facts c s Har) as [Hd N].
  pose proof (load_lookup c s k Hd Hg) as Hlk. fold s1 in Hlk.
  destruct ((proj1 Kl) Hag) as (_ & Hag1 & _).
  destruct (get (smem s1) k) as [v1|] eqn:Hg1.
  - intros E. destruct (finish_out_shape c (load1 (touch_new c s1 k)) k orc v1 0) as [E2|E2];
      rewrite E2 in E; inversion E.
  - intros _.
    destruct (WF_set_mem c s1 k v Hw1) as [Hw2 Hk2].
    pose proof (WF_touch c _ k Hw2 Hk2) as Hw3.
    set (s1' := w_mem s1 (set (smem s1) k v)) in *.
    set (s2 := miss1 (touch_new c s1' k)).
    assert (Hna : a_get (arch (cs s1)) k = None).
    { unfold s1, load_. rewrite Hd. cbn [cs w_cs]. destruct (c_load_arch (cs s) [k]) as [-> _]. now rewrite <- Hlk. }
    destruct (set_new_RA (cs s1) k v Hg1 Hna Hag1) as (S1 & S2 & S3).
    assert (Har2 : archived_ c s2 = true).
    { rewrite (archived_arch c s2 s1); [apply Kl|]. subst s2. cbn [cs miss1].
      now destruct (touch_new_frame c s1' k) as (-> & _). }
    assert (Hcs2 : cs s2 = cs s1') by (subst s2; cbn [cs miss1]; now destruct (touch_new_frame c s1' k) as (-> & _)).
    pose proof (keeps_finish c s2 k orc v 1) as Kf.
    assert (Hw4 : WF c s2) by (apply (stat_frame_WF c _ Hw3)).
    destruct (Kf Hw4 Har2) as [Kf1 _].
    assert (Hag2 : agree s2) by (unfold agree; rewrite Hcs2; exact S2).
    destruct (Kf1 Hag2) as (F1 & _). apply F1. unfold retr. rewrite Hcs2. exact S3.
Qed.

(* ---- no_cache with an archive *)
Lemma no_purge_keeps c s : WF c s -> archived_ c s = true -> keeps c s (no_purge c s).
Proof.
  intros Hwf Har. unfold no_purge. destruct (Z.gtb _ _); [|now apply keeps_refl].
  rewrite Har. now apply keeps_dump_clear.
Qed.

Theorem call_no_keeps c s k fr : c_alg c = NO -> WF c s -> archived_ c s = true -> agree s ->
  let s' := fst (call_no c s k fr) in
  archived_ c s' = true /\ agree s' /\
  (forall x v, a_get (arch (cs s)) x = Some v -> a_get (arch (cs s')) x = Some v) /\
  (forall v ev, snd (call_no c s k fr) = ORet v ev ->
     (ev = 0 /\ retr s k v) \/ (fr = Ret v /\ ev = 1 /\ get (smem s) k = None /\ a_get (arch (cs s)) k = None
                               /\ a_get (arch (cs s')) k = Some v)).
Proof.
  intros Ha Hwf Har Hag. cbv zeta. unfold call_no. rewrite Har.
  pose proof (keeps_load c s k Har) as Kl. set (s1 := load_ c s [k]) in *.
  assert (Hw1 : WF c s1) by (now apply WF_load).
  destruct ((proj1 Kl) Hag) as (L1 & Hag1 & L3).
  destruct (archived_facts c s Har) as [Hd N].
  destruct (get (smem s1) k) as [v1|] eqn:Hg1.
  - cbn [fst snd].
    assert (Hnp : no_purge c (load1 (w_mem s1 [])) = load1 (w_mem s1 [])).
    { unfold no_purge. rewrite smem_load1, smem_w_mem. reflexivity. }
    rewrite Hnp. split; [|split; [|split]].
    + rewrite (archived_arch c (load1 (w_mem s1 [])) s1 eq_refl). apply Kl.
    + intros x v v'. cbn. discriminate.
    + intros x v Hx. apply L3. exact Hx.
    + intros v ev E. inversion E; subst. left. split; [reflexivity|].
      destruct (get (smem s) k) as [v0|] eqn:Hg.
      * (* staged in memory already: the load either overwrote it with the archive's value or kept it *)
        unfold s1, load_ in Hg1. rewrite Hd in Hg1. unfold smem in *. cbn [cs w_cs c_load fold_left] in Hg1.
        unfold c_load1 in Hg1. destruct (a_get (arch (cs s)) k) as [va|] eqn:Ea.
        -- cbn [mem c_with_mem] in Hg1. rewrite get_set_same in Hg1. inversion Hg1; subst. right. exact Ea.
        -- left. unfold R0 || idtac. unfold smem in *. congruence.
      * right. rewrite <- (load_lookup c s k Hd Hg). exact Hg1.
  - destruct fr as [v|]; cbn [fst snd].
    + assert (Hg : get (smem s) k = None).
      { destruct (get (smem s) k) as [v0|] eqn:Hg; [|reflexivity]. exfalso.
        pose proof (load_keeps_staged c s k v0 Hg) as Hx. rewrite Har in Hx. fold s1 in Hx. congruence. }
      pose proof (load_lookup c s k Hd Hg) as Hlk. fold s1 in Hlk. rewrite Hg1 in Hlk.
      set (s2 := miss1 (w_mem s1 (set (smem s1) k v))).
      assert (Hw2 : WF c s2).
      { destruct (WF_set_mem c s1 k v Hw1) as [W _]. apply (stat_frame_WF c _ W). }
      assert (Hna : a_get (arch (cs s1)) k = None).
      { unfold s1, load_. rewrite Hd. cbn [cs w_cs]. destruct (c_load_arch (cs s) [k]) as [-> _]. now rewrite <- Hlk. }
      destruct (set_new_RA (cs s1) k v Hg1 Hna Hag1) as (S1 & S2 & S3).
      assert (Har2 : archived_ c s2 = true) by (rewrite (archived_arch c s2 s1 eq_refl); apply Kl).
      assert (Hag2 : agree s2) by exact S2.
      destruct (no_purge_keeps c s2 Hw2 Har2) as [Kn Harn]. destruct (Kn Hag2) as (N1 & N2 & N3).
      split; [exact Harn|split; [exact N2|split]].
      * intros x w Hx. apply N3. cbn [cs miss1 w_mem w_cs arch c_with_mem]. apply L3. exact Hx.
      * intros v' ev E. inversion E; subst. right. repeat split; auto.
        assert (Hr : retr (no_purge c s2) k v') by (apply N1; exact S3).
        destruct Hr as [Hr|Hr]; [|exact Hr]. pose proof (no_purge_empty c s2) as He. unfold smem in He.
        rewrite He in Hr. discriminate.
    + split; [apply Kl|split; [exact Hag1|split; [exact L3|discriminate]]].
Qed.

(* ---- one call, any decorator *)
Theorem call_keeps c s kr fr orc : WF c s -> archived_ c s = true -> agree s ->
  let s' := fst (call c s kr fr orc) in
  archived_ c s' = true /\ agree s' /\
  (forall x v, a_get (arch (cs s)) x = Some v -> a_get (arch (cs s')) x = Some v) /\
  (c_alg c <> NO -> forall x v, retr s x v -> retr s' x v) /\
  (forall k v ev, kr = KOk k -> snd (call c s kr fr orc) = ORet v ev ->
     (ev = 0 /\ retr s k v) \/
     (ev = 1 /\ fr = Ret v /\ get (smem s) k = None /\ a_get (arch (cs s)) k = None /\ retr s' k v)).
Proof.
  intros Hwf Har Hag. cbv zeta. unfold call. destruct kr as [k| |].
  - destruct (c_alg c) eqn:Ha.
    1: { destruct (call_no_keeps c s k fr Ha Hwf Har Hag) as (A & B & C & D). split; [exact A|split; [exact B|split; [exact C|split]]].
         - congruence.
         - intros k' v ev E1 E2. inversion E1; subst k'. destruct (D v ev E2) as [D1|(D1 & D2 & D3 & D4 & D5)]; [left; exact D1|].
           right. repeat split; auto. right. exact D5. }
    all: destruct (call_cached_keeps c s k fr orc Hwf Har) as [[K1 K2] K3]; destruct (K1 Hag) as (R1 & R2 & R3);
      (split; [exact K2|split; [exact R2|split; [exact R3|split; [intros _; exact R1|]]]]);
      intros k' v ev E1 E2; inversion E1; subst k'; destruct (K3 v ev E2) as [D1|(D1 & D2 & D3 & D4)]; [left; exact D1|];
      right; subst ev fr; repeat split; auto;
      apply (computed_is_retrievable c s k orc v Hwf Har Hag D3 E2).
  - assert (Hsame : forall s', cs s' = cs s -> archived_ c s' = true /\ agree s' /\
             (forall x v, a_get (arch (cs s)) x = Some v -> a_get (arch (cs s')) x = Some v) /\
             (c_alg c <> NO -> forall x v, retr s x v -> retr s' x v)).
    { intros s' E. unfold agree, retr. rewrite (archived_arch c s' s), E by (now rewrite E). auto. }
    destruct (c_safe c); [destruct fr|]; cbn [fst snd fallback];
      (destruct (Hsame _ eq_refl) as (A & B & C & D); split; [exact A|split; [exact B|split; [exact C|split; [exact D|discriminate]]]]).
  - assert (Hsame : forall s', cs s' = cs s -> archived_ c s' = true /\ agree s' /\
             (forall x v, a_get (arch (cs s)) x = Some v -> a_get (arch (cs s')) x = Some v) /\
             (c_alg c <> NO -> forall x v, retr s x v -> retr s' x v)).
    { intros s' E. unfold agree, retr. rewrite (archived_arch c s' s), E by (now rewrite E). auto. }
    destruct (c_safe c);
      [|destruct (Hsame _ eq_refl) as (A & B & C & D); split; [exact A|split; [exact B|split; [exact C|split; [exact D|discriminate]]]]].
    destruct (c_alg c) eqn:Ha; destruct fr; cbn [fst snd fallback];
      try (destruct (Hsame _ eq_refl) as (A & B & C & D); split; [exact A|split; [exact B|split; [exact C|split; [exact D|discriminate]]]]).
    (* safe no_cache, unhashable key, value returned: the staging memory is dumped and emptied *)
    assert (Hw2 : WF c (miss1 s)) by (apply (stat_frame_WF c s Hwf)).
    destruct (no_purge_keeps c (miss1 s) Hw2 Har) as [Kn Harn]. destruct (Kn Hag) as (N1 & N2 & N3).
    split; [exact Harn|split; [exact N2|split; [exact N3|split; [congruence|discriminate]]]].
Qed.

(* ---- bulk and keyed load()/dump() issued by the user also keep everything *)
Definition RA0 (c0 c1 : cstate) : Prop :=
  A0 c0 -> (forall k v, R0 c0 k v -> R0 c1 k v) /\ A0 c1 /\
           (forall k v, a_get (arch c0) k = Some v -> a_get (arch c1) k = Some v).

Lemma RA0_refl c0 : RA0 c0 c0.
Proof. intros H; auto. Qed.
Lemma RA0_trans a b d : RA0 a b -> RA0 b d -> RA0 a d.
Proof. intros A B H. destruct (A H) as (A1 & A2 & A3). destruct (B A2) as (B1 & B2 & B3). auto 6. Qed.

Lemma RA0_load1 c0 w : RA0 c0 (c_load1 c0 w).
Proof.
  intros H. destruct (load1_RA c0 w H) as [H1 H2]. split; [exact H1|split; [exact H2|]].
  intros k v. now destruct (c_load1_arch c0 w) as [-> _].
Qed.

Lemma RA0_load c0 ks : wf_c c0 -> RA0 c0 (c_load c0 ks).
Proof.
  intros Hwf. destruct ks as [|k0 r].
  - intros HA. cbn [c_load]. split; [|split].
    + intros k v HR. unfold R0. cbn [mem arch c_with_mem]. rewrite get_update by apply Hwf.
      fold (a_get (arch c0) k). destruct HR as [H|H].
      * destruct (a_get (arch c0) k) as [v2|] eqn:E; [|left; exact H]. left. f_equal. symmetry. eapply HA; eauto.
      * left. now rewrite H.
    + intros k v v'. cbn [mem arch c_with_mem]. rewrite get_update by apply Hwf. fold (a_get (arch c0) k).
      destruct (a_get (arch c0) k) as [v2|] eqn:E; [congruence|intros ? Hx; discriminate Hx].
    + auto.
  - unfold c_load. generalize (k0 :: r). intros l. clear Hwf. revert c0.
    induction l as [|x l IH]; intros c0; cbn [fold_left]; [apply RA0_refl|].
    eapply RA0_trans; [apply RA0_load1|apply IH].
Qed.

Lemma RA0_dump1 c0 w : is_null (arch c0) = false -> RA0 c0 (c_dump1 c0 w).
Proof. intros N H. destruct (dump1_RA c0 w N H) as (H1 & H2 & _ & H4). auto. Qed.

Lemma RA0_dump c0 ks : wf_c c0 -> is_null (arch c0) = false -> RA0 c0 (c_dump c0 ks).
Proof.
  intros Hwf N. destruct ks as [|k0 r].
  - intros HA. destruct (dump_all_RA c0 (proj1 Hwf) N HA) as [H1 H2]. split; [|split].
    + intros k v HR. right. now apply H1.
    + intros k v v'. rewrite H2. intros Hm Ha'. rewrite (H1 k v (or_introl Hm)) in Ha'. congruence.
    + intros k v Hk. apply H1. now right.
  - unfold c_dump. generalize (k0 :: r). intros l. clear Hwf. revert c0 N.
    induction l as [|x l IH]; intros c0 N; cbn [fold_left]; [apply RA0_refl|].
    eapply RA0_trans; [now apply RA0_dump1|]. apply IH. destruct (c_dump1_mem c0 x) as (_ & _ & ->). exact N.
Qed.

Lemma keeps_load_gen c s ks : WF c s -> archived_ c s = true -> keeps c s (load_ c s ks).
Proof.
  intros Hwf Har. destruct (archived_facts c s Har) as [Hd N]. unfold load_. rewrite Hd. split.
  - exact (RA0_load (cs s) ks (proj1 Hwf)).
  - unfold archived_, c_archived. rewrite Hd. cbn [cs w_cs]. destruct (c_load_arch (cs s) ks) as [-> _]. now rewrite N.
Qed.

Lemma keeps_dump_gen c s ks : WF c s -> archived_ c s = true -> keeps c s (dump_ c s ks).
Proof.
  intros Hwf Har. destruct (archived_facts c s Har) as [Hd N]. unfold dump_. rewrite Hd. split.
  - exact (RA0_dump (cs s) ks (proj1 Hwf) N).
  - unfold archived_, c_archived. rewrite Hd. cbn [cs w_cs]. destruct (c_dump_mem (cs s) ks) as (_ & _ & ->). now rewrite N.
Qed.

(* cache traffic: calls, introspection, load and dump - everything that neither detaches the
   archive nor explicitly clears results *)
Definition traffic (o : op) : bool :=
  match o with
  | Call _ _ _ | Lookup _ | KeyOf _ | Info | Load _ | Dump _ | Archived None => true
  | _ => false
  end.

(* held: the result for k is stored where a later call will find it *)
Definition has (c : cfg) (s : state) (k : key) : Prop :=
  exists v, a_get (arch (cs s)) k = Some v \/ (c_alg c <> NO /\ get (smem s) k = Some v).

Definition Good (c : cfg) (s : state) : Prop := WF c s /\ archived_ c s = true /\ agree s.

Lemma step_traffic c s o : traffic o = true -> Good c s ->
  Good c (fst (step c s o)) /\
  (forall x v, a_get (arch (cs s)) x = Some v -> a_get (arch (cs (fst (step c s o)))) x = Some v) /\
  (c_alg c <> NO -> forall x v, retr s x v -> retr (fst (step c s o)) x v).
Proof.
  intros Ht (Hwf & Har & Hag).
  assert (Hwf' : WF c (fst (step c s o))).
  { apply WF_step; [exact Hwf|]. destruct o; try exact I; discriminate. }
  destruct o; try discriminate; cbn [step] in *.
  - destruct (call_keeps c s kr fr orc Hwf Har Hag) as (A & B & C & D & _).
    split; [split; [exact Hwf'|split; assumption]|split; assumption].
  - assert (E : fst (match kr with KOk k => match get (smem s) k with Some v => (s, OVal v) | None => (s, ORaise EKeyError 0) end
                                | _ => (s, ORaise ETypeError 0) end) = s)
      by (destruct kr; try reflexivity; destruct (get (smem s) k); reflexivity).
    rewrite E in *. unfold Good. auto 8.
  - assert (E : fst (match kr with KOk k => (s, OKey k) | KFail => (s, ORaise ETypeError 0) | KUnhash => (s, OUnit) end) = s)
      by (destruct kr; reflexivity).
    rewrite E in *. unfold Good. auto 8.
  - cbn [fst]. unfold Good. auto 8.
  - cbn [fst] in *. destruct (keeps_load_gen c s ks Hwf Har) as [K1 K2]. destruct (K1 Hag) as (R1 & R2 & R3).
    split; [split; [exact Hwf'|split; assumption]|split; [exact R3|intros _; exact R1]].
  - cbn [fst] in *. destruct (keeps_dump_gen c s ks Hwf Har) as [K1 K2]. destruct (K1 Hag) as (R1 & R2 & R3).
    split; [split; [exact Hwf'|split; assumption]|split; [exact R3|intros _; exact R1]].
  - destruct flag; [discriminate|]. cbn [fst]. unfold Good. auto 8.
Qed.

(* C07 over whole histories: nothing retrievable is ever lost, no archived entry ever changes *)
Theorem history_keeps c ops s : forallb traffic ops = true -> Good c s ->
  Good c (run c s ops) /\
  (forall x v, a_get (arch (cs s)) x = Some v -> a_get (arch (cs (run c s ops))) x = Some v) /\
  (c_alg c <> NO -> forall x v, retr s x v -> retr (run c s ops) x v).
Proof.
  revert s. induction ops as [|o r IH]; intros s Hall Hg; [cbn; auto|].
  cbn [forallb] in Hall. apply andb_prop in Hall. destruct Hall as [Ho Hr].
  destruct (step_traffic c s o Ho Hg) as (G1 & A1 & R1).
  unfold run; cbn [fold_left]. fold (run c (fst (step c s o)) r).
  destruct (IH _ Hr G1) as (G2 & A2 & R2). split; [exact G2|split].
  - intros x v Hx. apply A2. now apply A1.
  - intros Hn x v Hx. apply R2; [exact Hn|]. now apply R1.
Qed.

(* ================================================================ C02 *)
(* (a) the function is evaluated only when the result is in neither the memory cache nor the
       attached archive - for every configuration and state; at most once per call *)
Theorem eval_only_if_absent c s k fr orc :
  match snd (call c s (KOk k) fr orc) with
  | ORet _ ev | ORaise _ ev =>
      (ev = 0 \/ ev = 1) /\
      (ev = 1 -> get (smem s) k = None /\ (archived_ c s = true -> a_get (arch (cs s)) k = None))
  | _ => False
  end.
Proof.
  unfold call.
  assert (Hc : match snd (call_cached c s k fr orc) with
               | ORet _ ev | ORaise _ ev =>
                   (ev = 0 \/ ev = 1) /\
                   (ev = 1 -> get (smem s) k = None /\ (archived_ c s = true -> a_get (arch (cs s)) k = None))
               | _ => False end).
  { unfold call_cached. destruct (get (smem s) k) as [v0|] eqn:Hg; [cbn [snd]; split; [auto|discriminate]|].
    destruct (get (smem (if archived_ c s then load_ c s [k] else s)) k) as [v1|] eqn:Hg1.
    - destruct (finish_out_shape c (load1 (touch_new c (if archived_ c s then load_ c s [k] else s) k)) k orc v1 0) as [-> | ->];
        split; auto; discriminate.
    - assert (Habs : archived_ c s = true -> a_get (arch (cs s)) k = None).
      { intros Ha. rewrite Ha in Hg1. now rewrite <- (load_lookup c s k (archived_direct c s Ha) Hg). }
      destruct fr as [v|]; [|cbn [snd]; auto].
      match goal with |- match snd (finish c ?S k orc v 1) with _ => _ end =>
        destruct (finish_out_shape c S k orc v 1) as [-> | ->] end; split; auto. }
  destruct (c_alg c); try exact Hc.
  unfold call_no.
  destruct (get (smem (if archived_ c s then load_ c s [k] else s)) k) as [v1|] eqn:Hg1; [cbn [snd]; split; [auto|discriminate]|].
  assert (Hg : get (smem s) k = None).
  { destruct (get (smem s) k) as [v0|] eqn:Hg; [|reflexivity]. exfalso. exact (load_keeps_staged c s k v0 Hg Hg1). }
  assert (Habs : archived_ c s = true -> a_get (arch (cs s)) k = None).
  { intros Ha. rewrite Ha in Hg1. now rewrite <- (load_lookup c s k (archived_direct c s Ha) Hg). }
  destruct fr; cbn [snd]; auto.
Qed.

(* number of successful evaluations of key k along a history *)
Fixpoint evals (c : cfg) (s : state) (ops : list op) (k : key) : Z :=
  match ops with
  | [] => 0
  | o :: r =>
      match o with
      | Call (KOk k') fr orc =>
          if Z.eqb k' k then match snd (call c s (KOk k') fr orc) with ORet _ 1 => 1 | _ => 0 end else 0
      | _ => 0
      end + evals c (fst (step c s o)) r k
  end.

Lemma has_step c s o k : traffic o = true -> Good c s -> has c s k -> has c (fst (step c s o)) k.
Proof.
  intros Ht Hg (v & [H|[Hn H]]); destruct (step_traffic c s o Ht Hg) as (_ & A1 & R1).
  - exists v. left. now apply A1.
  - destruct (R1 Hn k v (or_introl H)) as [H2|H2]; exists v; [right; auto|left; auto].
Qed.

(* (b) with a lossless archive attached: a key whose result is held is never evaluated again ... *)
Theorem held_never_evaluated c ops s k : forallb traffic ops = true -> Good c s -> has c s k -> evals c s ops k = 0.
Proof.
  revert s. induction ops as [|o r IH]; intros s Hall Hg Hh; [reflexivity|].
  cbn [forallb] in Hall. apply andb_prop in Hall. destruct Hall as [Ho Hr].
  cbn [evals]. rewrite (IH _ Hr); [|apply (step_traffic c s o Ho Hg)|now apply has_step].
  destruct o; try reflexivity. destruct kr as [k'| |]; try reflexivity.
  destruct (Z.eqb k' k) eqn:E; [|reflexivity]. apply Z.eqb_eq in E; subst k'.
  pose proof (eval_only_if_absent c s k fr orc) as He.
  destruct Hg as (Hwf & Har & Hag). destruct Hh as (v & Hv).
  destruct (snd (call c s (KOk k) fr orc)) as [w ev| | | | | |]; try reflexivity.
  destruct He as [_ He]. destruct (Z.eq_dec ev 1) as [->|Hne].
  - destruct (He eq_refl) as [H1 H2]. specialize (H2 Har). destruct Hv as [Hv|[_ Hv]]; congruence.
  - destruct ev as [|[p|p|]|]; try reflexivity. congruence.
Qed.

(* ... hence every key is evaluated at most once over any history *)
Theorem evaluated_at_most_once c ops s k : forallb traffic ops = true -> Good c s -> evals c s ops k <= 1.
Proof.
  revert s. induction ops as [|o r IH]; intros s Hall Hg; [cbn; lia|].
  cbn [forallb] in Hall. apply andb_prop in Hall. destruct Hall as [Ho Hr].
  pose proof (step_traffic c s o Ho Hg) as (G1 & _).
  cbn [evals]. specialize (IH _ Hr G1).
  destruct o; try lia. destruct kr as [k'| |]; try lia.
  destruct (Z.eqb k' k) eqn:E; [|lia]. apply Z.eqb_eq in E; subst k'.
  destruct (snd (call c s (KOk k) fr orc)) as [w ev| | | | | |] eqn:Eo; try lia.
  destruct (Z.eq_dec ev 1) as [->|Hne]; [|destruct ev as [|[p|p|]|]; try lia; congruence].
  (* this call evaluated k: afterwards the result is held, so no later call evaluates it *)
  destruct Hg as (Hwf & Har & Hag).
  destruct (call_keeps c s (KOk k) fr orc Hwf Har Hag) as (_ & _ & _ & _ & D).
  destruct (D k w 1 eq_refl Eo) as [[D0 _]|(_ & _ & _ & _ & D5)]; [discriminate|].
  assert (Hh : has c (fst (step c s (Call (KOk k) fr orc))) k).
  { cbn [step]. destruct D5 as [D5|D5]; exists w; [|left; exact D5].
    destruct (c_alg c) eqn:Ha; try (right; split; [congruence|exact D5]).
    (* no_cache keeps nothing in memory *)
    exfalso. destruct (call_size_no c s (KOk k) fr orc Ha) as [_ Hz]. unfold smem in *.
    rewrite (Hz k w 1 eq_refl Eo) in D5. discriminate. }
  rewrite (held_never_evaluated c r _ k Hr G1 Hh). lia.
Qed.
