(* The synchronisation algebra of klepto.archives.cache (property C08), proved on M2. *)
From Klepto Require Import OMap OMapFacts CacheDict CacheDictFacts.
From Coq Require Import Lia.

(* pointwise overlay: g wins where defined *)
Definition over (f g : key -> option val) (k : key) : option val :=
  match g k with Some v => Some v | None => f k end.

Definition is_dict_op (o : cop) : bool :=
  match o with CSet _ _ | CDel _ | CClear | CUpdate _ | CPop _ => true | _ => false end.
Definition is_sync_op (o : cop) : bool :=
  match o with CLoad _ | CDump _ | CSync _ => true | _ => false end.

(* 1. plain dict operations on the cache never touch the archive (active or parked) *)
Lemma dict_ops_frame c o : is_dict_op o = true ->
  arch (fst (cstep c o)) = arch c /\ swp (fst (cstep c o)) = swp c.
Proof.
  destruct o; cbn; try discriminate; intros _; auto.
  - destruct (get (mem c) k); cbn; auto.
  - destruct (get (mem c) k); cbn; auto.
Qed.

(* ... and behave as the dict operation on the memory part *)
Lemma dict_set_get c k v k' : get (mem (fst (cstep c (CSet k v)))) k' = if Z.eqb k' k then Some v else get (mem c) k'.
Proof. cbn. apply get_set. Qed.

(* 2. dump() / dump(k...) *)
Lemma dump_all_law c : wf_c c -> is_null (arch c) = false ->
  let c' := fst (cstep c (CDump [])) in
  mem c' = mem c /\ swp c' = swp c /\
  forall k, a_get (arch c') k = over (a_get (arch c)) (get (mem c)) k.
Proof.
  intros (H1 & _) N. cbn [cstep fst]. destruct (c_dump_mem c []) as (Hm & Hs & _).
  repeat split; try assumption. intros k. now apply c_dump_all_get.
Qed.

Lemma dump_keys_law c ks : ks <> [] -> is_null (arch c) = false ->
  let c' := fst (cstep c (CDump ks)) in
  mem c' = mem c /\ swp c' = swp c /\
  forall k, a_get (arch c') k = if in_dec Z.eq_dec k ks then over (a_get (arch c)) (get (mem c)) k
                                else a_get (arch c) k.
Proof.
  intros Hne N. cbn [cstep fst]. destruct (c_dump_mem c ks) as (Hm & Hs & _).
  repeat split; try assumption. intros k. now apply c_dump_keys_get.
Qed.

(* 3. load() / load(k...) *)
Lemma load_all_law c : wf_c c ->
  let c' := fst (cstep c (CLoad [])) in
  arch c' = arch c /\ swp c' = swp c /\
  forall k, get (mem c') k = over (get (mem c)) (a_get (arch c)) k.
Proof.
  intros (_ & H2 & _). cbn [cstep fst]. destruct (c_load_arch c []) as (Ha & Hs).
  repeat split; try assumption. intros k. now apply c_load_all_get.
Qed.

Lemma load_keys_law c ks : ks <> [] ->
  let c' := fst (cstep c (CLoad ks)) in
  arch c' = arch c /\ swp c' = swp c /\
  forall k, get (mem c') k = if in_dec Z.eq_dec k ks then over (get (mem c)) (a_get (arch c)) k
                             else get (mem c) k.
Proof.
  intros Hne. cbn [cstep fst]. destruct (c_load_arch c ks) as (Ha & Hs).
  repeat split; try assumption. intros k. now apply c_load_keys_get.
Qed.

(* 4. sync() leaves both sides equal to the archive overlaid by the cache;
      sync(clear=True) leaves the archive equal to the cache *)
Lemma sync_law c : wf_c c -> is_null (arch c) = false ->
  let c' := fst (cstep c (CSync false)) in
  swp c' = swp c /\
  (forall k, a_get (arch c') k = over (a_get (arch c)) (get (mem c)) k) /\
  (forall k, get (mem c') k = over (a_get (arch c)) (get (mem c)) k).
Proof.
  intros Hwf N. cbn [cstep fst]. unfold c_sync. cbv zeta.
  pose proof (c_dump_wf c [] Hwf) as Hwf2.
  destruct (c_load_arch (c_dump c []) []) as (Ha & Hs).
  destruct (c_dump_mem c []) as (Hm & Hs2 & Hn).
  destruct Hwf as (H1 & H2 & H3).
  assert (Hd : forall k, a_get (arch (c_dump c [])) k = over (a_get (arch c)) (get (mem c)) k)
    by (intros k; now apply c_dump_all_get).
  split; [|split].
  - now rewrite Hs, Hs2.
  - intros k. rewrite Ha. apply Hd.
  - intros k. rewrite c_load_all_get by apply Hwf2. rewrite Hd, Hm. unfold over.
    destruct (get (mem c) k); [reflexivity|]. destruct (a_get (arch c) k); reflexivity.
Qed.

Lemma sync_clear_law c : wf_c c -> is_null (arch c) = false ->
  let c' := fst (cstep c (CSync true)) in
  mem c' = mem c /\ swp c' = swp c /\ forall k, a_get (arch c') k = get (mem c) k.
Proof.
  intros (H1 & H2 & H3) N. cbn [cstep fst]. unfold c_sync. cbv zeta.
  set (c1 := c_with_arch c (a_clear (arch c))).
  destruct (c_dump_mem c1 []) as (Hm & Hs & _).
  repeat split; try assumption. intros k.
  rewrite c_dump_all_get; [| exact H1 | cbn; now rewrite is_null_clear].
  cbn. destruct (get (mem c) k); [reflexivity|]. destruct (arch c); reflexivity.
Qed.

(* 5. while archiving is switched off, dump/load/sync do nothing at all *)
Lemma off_is_identity c o : is_null (arch c) = true -> is_sync_op o = true -> fst (cstep c o) = c.
Proof.
  intros N Ho. destruct c as [m a s]. cbn in N. destruct a; [|discriminate].
  destruct o; cbn in Ho; try discriminate; cbn [cstep fst].
  - destruct ks as [|k0 r]; [reflexivity|]. unfold c_load. generalize (k0 :: r). intros ks.
    induction ks as [|k r' IH]; cbn [fold_left]; [reflexivity|exact IH].
  - now apply c_dump_null.
  - destruct clear; reflexivity.
Qed.

(* switching off parks exactly the active archive; switching on restores exactly it *)
Lemma toggle_off_on c : swap_inv c -> is_null (arch c) = false ->
  swp (c_archived_off c) = arch c /\ is_null (arch (c_archived_off c)) = true /\
  c_archived_on (c_archived_off c) = Some c.
Proof.
  intros Hinv N. destruct c as [m a s]. cbn in *.
  destruct Hinv as [H|H]; cbn in H; [congruence|]. destruct s; [|discriminate].
  destruct a; [discriminate|]. cbn. auto.
Qed.

(* the parked archive is untouched by any sequence of cache mutations and dump/load/sync *)
Definition off_op (o : cop) : bool := is_dict_op o || is_sync_op o.

Lemma parked_untouched ops c : is_null (arch c) = true -> forallb off_op ops = true ->
  swp (crun c ops) = swp c /\ arch (crun c ops) = arch c.
Proof.
  revert c. induction ops as [|o r IH]; intros c N Hall; [cbn; auto|].
  cbn [forallb] in Hall. apply andb_prop in Hall. destruct Hall as [Ho Hr].
  unfold crun. cbn [fold_left]. fold (crun (fst (cstep c o)) r).
  unfold off_op in Ho. apply orb_prop in Ho. destruct Ho as [Ho|Ho].
  - destruct (dict_ops_frame c o Ho) as [Ha Hs]. destruct (IH (fst (cstep c o))) as [E1 E2]; try assumption.
    + now rewrite Ha.
    + now rewrite E1, E2, Ha, Hs.
  - rewrite (off_is_identity c o N Ho). now apply IH.
Qed.

Corollary off_then_on ops c : swap_inv c -> is_null (arch c) = false -> forallb off_op ops = true ->
  exists c', c_archived_on (crun (c_archived_off c) ops) = Some c' /\ arch c' = arch c /\ swp c' = ANull.
Proof.
  intros Hinv N Hall. destruct (toggle_off_on c Hinv N) as (Hs & Hn & _).
  destruct (parked_untouched ops (c_archived_off c) Hn Hall) as [E1 E2].
  set (d := crun (c_archived_off c) ops) in *.
  assert (Hnull : arch d = ANull).
  { rewrite E2. destruct (arch (c_archived_off c)); [reflexivity|discriminate]. }
  unfold c_archived_on. rewrite E1, Hs, N. cbn [negb].
  eexists; split; [reflexivity|]. unfold c_swap. rewrite c_set_archive_spec. cbn.
  rewrite Hnull. cbn. rewrite E1, Hs. auto.
Qed.

(* 6. a null archive always stays empty *)
Lemma null_stays_empty m : a_update ANull m = ANull /\ a_contents ANull = [] /\ a_clear ANull = ANull.
Proof. auto. Qed.

Lemma null_arch_ops c o : is_null (arch c) = true -> (off_op o = true \/ exists k v, o = CArchSet k v) ->
  a_contents (arch (fst (cstep c o))) = [].
Proof.
  intros N [Ho|(k & v & ->)].
  - unfold off_op in Ho. apply orb_prop in Ho. destruct Ho as [Ho|Ho].
    + destruct (dict_ops_frame c o Ho) as [-> _]. destruct (arch c); [reflexivity|discriminate].
    + rewrite (off_is_identity c o N Ho). destruct (arch c); [reflexivity|discriminate].
  - cbn. destruct (arch c); [reflexivity|discriminate].
Qed.

(* 7. from construction on, there is never both an active and a parked archive *)
Lemma swap_inv_run ops c : swap_inv c -> swap_inv (crun c ops).
Proof.
  revert c. induction ops as [|o r IH]; intros c H; [exact H|].
  unfold crun; cbn [fold_left]. apply IH. now apply cstep_swap_inv.
Qed.

Lemma wf_run ops c : wf_c c -> Forall cop_ok ops -> wf_c (crun c ops).
Proof.
  revert c. induction ops as [|o r IH]; intros c H Hok; [exact H|].
  inversion Hok; subst. unfold crun; cbn [fold_left]. apply IH; [now apply cstep_wf|assumption].
Qed.

(* 9. the property setter  cache.archive = a : the new archive is attached, the memory is untouched, and
      whatever was parked (archiving switched off) takes the place of the archive it had replaced *)
Lemma set_archive_law c a :
  mem (c_set_archive c a) = mem c /\ arch (c_set_archive c a) = a /\
  swp (c_set_archive c a) = (if is_null (swp c) then swp c else arch c).
Proof. destruct c as [m0 a0 s0]. unfold c_set_archive. destruct s0; cbn; auto. Qed.

Lemma set_archive_when_on c a : is_null (swp c) = true -> c_set_archive c a = mkC (mem c) a (swp c).
Proof. unfold c_set_archive. intros H. rewrite H. reflexivity. Qed.

