(* WF is an invariant of every operation of every decorator; hence of every history. *)
From Klepto Require Import OMap OMapFacts CacheDict CacheDictFacts CacheCore LruFacts LfuFacts CoreInv.
From Coq Require Import Lia.

(* MemClear (the memory emptied behind the wrapper) is modelled for the correspondence check only: it leaves the
   bookkeeping pointing at entries that are gone, so it is outside the invariant and outside every theorem below *)
Definition op_ok (o : op) : Prop := match o with SetArchive a => wf_arch a | MemClear => False | _ => True end.

Lemma WF_set_mem c s k v : WF c s -> WF c (w_mem s (set (smem s) k v)) /\ resident (w_mem s (set (smem s) k v)) k.
Proof.
  intros [H1 H2]. split; [split|].
  - apply wf_w_mem; [exact H1|]. apply NoDup_keys_set. apply H1.
  - eapply book_inv_ext; try exact H2; try reflexivity.
    intros x Hx. unfold resident in *. simp. apply in_keys_set. now right.
  - unfold resident. simp. apply in_keys_set. now left.
Qed.

Lemma not_resident_not_queued c s k : WF c s -> get (smem s) k = None -> c_alg c = MRU -> ~ In k (queue s).
Proof.
  intros [_ H2] Hg Ha Hin. unfold book_inv in H2. rewrite Ha in H2. destruct H2 as [_ Hres].
  apply Hres in Hin. apply get_none_not_in in Hg. now apply Hg.
Qed.

Lemma WF_after_entry c s k orc v ev (st : state -> state) :
  (forall x, cs (st x) = cs x /\ queue (st x) = queue x /\ refc (st x) = refc x /\ usec (st x) = usec x) ->
  WF c s -> resident s k -> (c_alg c = MRU -> ~ In k (queue s)) ->
  WF c (fst (finish c (st (touch_new c s k)) k orc v ev)).
Proof.
  intros Hst Hwf Hk Hm.
  pose proof (WF_touch c s k Hwf Hk) as Hwt.
  destruct (touch_new_frame c s k) as (Hcs & Hmq & Hlq).
  destruct (Hst (touch_new c s k)) as (A & B & C & D).
  apply WF_finish.
  - destruct Hwt as [W1 W2]. split; [now rewrite A|].
    eapply book_inv_ext; try exact W2; auto. intros x. unfold resident, smem. now rewrite A.
  - unfold resident, smem. rewrite A, Hcs. exact Hk.
  - intros Ha. rewrite B, (Hmq Ha). now apply Hm.
  - intros Ha. rewrite B. now apply Hlq.
Qed.

Lemma load1_frame x : cs (load1 x) = cs x /\ queue (load1 x) = queue x /\ refc (load1 x) = refc x /\ usec (load1 x) = usec x.
Proof. simp; auto. Qed.
Lemma miss1_frame x : cs (miss1 x) = cs x /\ queue (miss1 x) = queue x /\ refc (miss1 x) = refc x /\ usec (miss1 x) = usec x.
Proof. simp; auto. Qed.

Lemma WF_call_cached c s k fr orc : WF c s -> WF c (fst (call_cached c s k fr orc)).
Proof.
  intros Hwf. unfold call_cached.
  destruct (get (smem s) k) as [v|] eqn:Hg.
  - (* hit *)
    assert (Hk : resident s k) by (eapply get_in_keys; eauto).
    destruct (WF_touch_hit c s k Hwf Hk) as [Hw Hq]. simp.
    apply WF_post; [apply (stat_frame_WF c _ Hw)|exact Hq].
  - set (s1 := if archived_ c s then load_ c s [k] else s).
    assert (Hw1 : WF c s1) by (subst s1; destruct (archived_ c s); [now apply WF_load|exact Hwf]).
    assert (Hq1 : queue s1 = queue s).
    { subst s1; destruct (archived_ c s); [now destruct (load_book c s [k]) as (A & _)|reflexivity]. }
    assert (Hnq : c_alg c = MRU -> ~ In k (queue s1)).
    { intros Ha. rewrite Hq1. eapply not_resident_not_queued; eauto. }
    destruct (get (smem s1) k) as [v|] eqn:Hg1.
    + assert (Hk : resident s1 k) by (eapply get_in_keys; eauto).
      exact (WF_after_entry c s1 k orc v 0 load1 load1_frame Hw1 Hk Hnq).
    + destruct fr as [v|]; [|exact Hw1].
      destruct (WF_set_mem c s1 k v Hw1) as [Hw2 Hk2].
      apply (WF_after_entry c _ k orc v 1 miss1 miss1_frame Hw2 Hk2). simp. exact Hnq.
Qed.

Lemma WF_no_purge c s : c_alg c = NO -> wf_c (cs s) -> WF c (no_purge c s).
Proof.
  intros Ha H. unfold no_purge. split; [|unfold book_inv; now rewrite Ha].
  destruct (Z.gtb (size (smem s)) 0); [|exact H].
  apply wf_w_mem; [|constructor]. destruct (archived_ c s); [now apply dump_wf|exact H].
Qed.

Lemma WF_call_no c s k fr : c_alg c = NO -> WF c s -> WF c (fst (call_no c s k fr)).
Proof.
  intros Ha Hwf. unfold call_no.
  set (s1 := if archived_ c s then load_ c s [k] else s).
  assert (Hw1 : WF c s1) by (subst s1; destruct (archived_ c s); [now apply WF_load|exact Hwf]).
  destruct (get (smem s1) k) as [v|].
  - simp. apply WF_no_purge; [exact Ha|]. simp. destruct Hw1 as [(A & B & C) _]. usplits; try assumption. constructor.
  - destruct fr as [v|]; [|exact Hw1]. simp. apply WF_no_purge; [exact Ha|]. simp.
    destruct Hw1 as [(A & B & C) _]. usplits; try assumption. now apply NoDup_keys_set.
Qed.

Lemma WF_fallback c s fr : WF c s -> WF c (fst (fallback s fr)).
Proof. intros H. destruct fr; simp; [apply (stat_frame_WF c s H)|exact H]. Qed.

Lemma WF_call c s kr fr orc : WF c s -> WF c (fst (call c s kr fr orc)).
Proof.
  intros Hwf. unfold call. destruct kr as [k| |].
  - destruct (c_alg c) eqn:Ha; try (now apply WF_call_cached). now apply WF_call_no.
  - destruct (c_safe c); [now apply WF_fallback|exact Hwf].
  - destruct (c_safe c); [|exact Hwf].
    destruct (c_alg c) eqn:Ha; try (now apply WF_fallback).
    destruct fr; [|exact Hwf]. simp. apply WF_no_purge; [exact Ha|]. simp. apply Hwf.
Qed.

Lemma WF_cs_change c s c1 : WF c s -> wf_c c1 -> mem c1 = smem s -> WF c (w_cs s c1).
Proof.
  intros [H1 H2] Hc Hm. split; [exact Hc|].
  eapply book_inv_ext; try exact H2; try reflexivity. intros x. unfold resident, smem in *. cbn [cs w_cs]. now rewrite Hm.
Qed.

Lemma c_archived_on_mem c0 c1 : c_archived_on c0 = Some c1 -> mem c1 = mem c0.
Proof.
  unfold c_archived_on. destruct (negb (is_null (swp c0))).
  - intros E; inversion E; subst. unfold c_swap. rewrite c_set_archive_spec. cbn.
    destruct (is_null (arch c0)); reflexivity.
  - destruct (is_null (arch c0)); intros E; inversion E; reflexivity.
Qed.

Lemma c_swap_mem c0 : mem (c_swap c0) = mem c0.
Proof. unfold c_swap. rewrite c_set_archive_spec. cbn. destruct (is_null (arch c0)); reflexivity. Qed.

Lemma WF_clear c s keep : WF c s -> WF c (do_clear c s keep).
Proof.
  intros Hwf. unfold do_clear.
  assert (H : WF c (match c_alg c with NO => s | _ => clear_book c (w_mem s []) end)).
  { destruct (c_alg c) eqn:Ha; try exact Hwf;
      (split; [rewrite clear_book_cs; apply wf_w_mem; [apply Hwf|constructor]|apply clear_book_inv; reflexivity]). }
  destruct keep; [exact H|]. destruct H as [H1 H2]. split; [exact H1|exact H2].
Qed.

Theorem WF_step c s o : WF c s -> op_ok o -> WF c (fst (step c s o)).
Proof.
  intros Hwf Hok. destruct o; cbn [step].
  - now apply WF_call.
  - destruct kr; try exact Hwf. destruct (get (smem s) k); exact Hwf.
  - destruct kr; exact Hwf.
  - exact Hwf.
  - now apply WF_load.
  - now apply WF_dump.
  - now apply WF_clear.
  - destruct flag as [b|]; [|exact Hwf].
    destruct (c_direct c); [exact Hwf|]. destruct b.
    + destruct (c_archived_on (cs s)) eqn:E; [|exact Hwf]. simp.
      apply WF_cs_change; [exact Hwf| |].
      * eapply c_archived_on_wf; eauto. apply Hwf.
      * eapply c_archived_on_mem; eauto.
    + simp. apply WF_cs_change; [exact Hwf| |].
      * unfold c_archived_off. destruct (negb (is_null (arch (cs s)))); [apply wf_c_swap|]; apply Hwf.
      * unfold c_archived_off. destruct (negb (is_null (arch (cs s)))); [apply c_swap_mem|reflexivity].
  - destruct (c_direct c); [exact Hwf|]. simp. apply WF_cs_change; [exact Hwf| |].
    + apply wf_c_set_archive; [apply Hwf|exact Hok].
    + rewrite c_set_archive_spec. destruct (is_null (swp (cs s))); reflexivity.
  - destruct (c_direct c); [exact Hwf|]. simp. apply WF_cs_change; [exact Hwf| |reflexivity].
    destruct Hwf as [(A & B & C) _]. usplits; try assumption. now apply wf_arch_update.
  - contradiction.
Qed.

Theorem WF_run c ops s : WF c s -> Forall op_ok ops -> WF c (run c s ops).
Proof.
  revert s. induction ops as [|o r IH]; intros s H Hok; [exact H|].
  inversion Hok; subst. unfold run; cbn [fold_left]. apply IH; [now apply WF_step|assumption].
Qed.

Lemma WF_init c c0 : wf_c c0 -> mem c0 = [] -> WF c (init_state c0).
Proof.
  intros H Hm. split; [exact H|]. unfold book_inv, init_state. destruct (c_alg c); cbn; auto.
  - split; [constructor|intros k []].
  - split; [intros k; reflexivity|intros k []].
  - split; [constructor|intros k []].
Qed.

(* a decorator may also be built on a cache that already holds entries *)
Lemma WF_init_any c c0 : wf_c c0 -> WF c (init_state c0).
Proof.
  intros H. split; [exact H|]. unfold book_inv, init_state. destruct (c_alg c); cbn; auto.
  - split; [constructor|intros k []].
  - split; [intros k; reflexivity|intros k []].
  - split; [constructor|intros k []].
Qed.
