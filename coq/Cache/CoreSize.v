(* Capacity (C05): a call never leaves more entries resident than max(maxsize, resident before). *)
From Klepto Require Import OMap OMapFacts CacheDict CacheDictFacts CacheCore LruFacts LfuFacts CoreInv CoreStep.
From Coq Require Import Lia.

Ltac slia := simp; unfold smem in *; lia.

Definition bounded (a : alg) : bool := match a with LFU | LRU | MRU | RR => true | _ => false end.

(* the key random.choice returned is one of the keys it was given *)
Definition orc_ok (c : cfg) (s : state) (kr : keyres) (orc : key) : Prop :=
  c_alg c = RR -> match kr with KOk k => orc = k \/ resident s orc | _ => True end.

Lemma size_del_in m k : NoDup (keys m) -> In k (keys m) -> size (del m k) = size m - 1.
Proof. intros H1 H2. unfold size. pose proof (length_del_in m k H1 H2). lia. Qed.

Lemma size_del_le m k : size (del m k) <= size m.
Proof. unfold size. pose proof (length_del_le m k). lia. Qed.

Lemma size_set_le m k v : size (set m k v) <= size m + 1.
Proof.
  unfold size. destruct (in_dec Z.eq_dec k (keys m)).
  - rewrite length_set_in by assumption. lia.
  - rewrite length_set_notin by assumption. lia.
Qed.

Lemma resident_size_pos s k : resident s k -> 1 <= size (smem s).
Proof. unfold resident, size. rewrite <- length_keys. destruct (keys (smem s)); [intros []|cbn; lia]. Qed.

(* dump_ keeps the memory part *)
Lemma dump_smem c s ks : smem (dump_ c s ks) = smem s.
Proof. now destruct (dump_book c s ks) as (_ & _ & _ & D & _). Qed.

Lemma maybe_dump_smem c s ks (b : bool) : smem (if b then dump_ c s ks else s) = smem s.
Proof. destruct b; [apply dump_smem|reflexivity]. Qed.

Lemma smem_miss1 x : smem (miss1 x) = smem x. Proof. reflexivity. Qed.
Lemma smem_load1 x : smem (load1 x) = smem x. Proof. reflexivity. Qed.
Lemma smem_hit1 x : smem (hit1 x) = smem x. Proof. reflexivity. Qed.
Lemma smem_w_mem x m : smem (w_mem x m) = m. Proof. reflexivity. Qed.
Lemma smem_w_refc x r : smem (w_refc x r) = smem x. Proof. reflexivity. Qed.
Lemma smem_w_queue x r : smem (w_queue x r) = smem x. Proof. reflexivity. Qed.
Lemma smem_w_usec x r : smem (w_usec x r) = smem x. Proof. reflexivity. Qed.

(* ---- LFU *)
Lemma lfu_evict1_smem c s v : smem (lfu_evict1 c s v) = del (smem s) v.
Proof. unfold lfu_evict1. now rewrite smem_w_usec, smem_w_mem, maybe_dump_smem. Qed.

Lemma lfu_fold_size_le c vs s : size (smem (fold_left (lfu_evict1 c) vs s)) <= size (smem s).
Proof.
  revert s. induction vs as [|v r IH]; intros s; cbn [fold_left]; [lia|].
  etransitivity; [apply IH|]. rewrite lfu_evict1_smem. apply size_del_le.
Qed.

(* ---- one eviction removes at least one entry and never fails under WF *)
Lemma evict_size c s k orc : WF c s -> resident s k -> bounded (c_alg c) = true ->
  (c_alg c = LRU -> queue s <> []) -> (c_alg c = LFU -> usec s <> []) ->
  (c_alg c = RR -> resident s orc) ->
  snd (evict c s k orc) = EvOk /\ size (smem (fst (evict c s k orc))) <= size (smem s) - 1.
Proof.
  intros Hwf Hk Hb Hq Hu Ho. unfold evict. destruct (c_alg c) eqn:Ha; try discriminate.
  - (* LFU *)
    cbn [fst snd]. split; [reflexivity|]. destruct Hwf as [H1 H2]. unfold book_inv in H2. rewrite Ha in H2. destruct H2 as [Hn Hres].
    pose proof (victims_nonempty (lfu_n (c_max c)) (usec s) (lfu_n_pos _) (Hu eq_refl)) as Hne.
    destruct (lfu_victims (lfu_n (c_max c)) (usec s)) as [|v r] eqn:E; [congruence|].
    cbn [fold_left]. etransitivity; [apply lfu_fold_size_le|]. rewrite lfu_evict1_smem.
    rewrite size_del_in; [lia|apply H1|]. apply Hres. eapply in_victims. rewrite E. now left.
  - (* LRU *)
    destruct Hwf as [H1 H2]. unfold book_inv in H2. rewrite Ha in H2. destruct H2 as [Hcnt Hres].
    destruct (lru_evict_spec (queue s) (refc s) Hcnt (Hq eq_refl)) as (v & q' & rc' & pre & He & Hqq & _).
    rewrite He. cbn [fst snd]. split; [reflexivity|].
    rewrite smem_w_refc, smem_w_mem, maybe_dump_smem, smem_w_refc, smem_w_queue.
    rewrite size_del_in; [lia|apply H1|]. apply Hres. rewrite Hqq. apply in_or_app. right. now left.
  - (* MRU *)
    destruct Hwf as [H1 H2]. unfold book_inv in H2. rewrite Ha in H2. destruct H2 as [Hnd Hres].
    pose proof (pop_right_spec (queue s)) as Hp.
    destruct (pop_right (queue s)) as [[v q']|]; cbn [fst snd]; (split; [reflexivity|]);
      rewrite smem_w_mem, maybe_dump_smem, smem_w_queue.
    + rewrite size_del_in; [lia|apply H1|]. apply Hres. rewrite Hp. apply in_or_app. right. now left.
    + rewrite size_del_in; [lia|apply H1|exact Hk].
  - (* RR *)
    cbn [fst snd]. split; [reflexivity|]. rewrite smem_w_mem, maybe_dump_smem.
    rewrite size_del_in; [lia|apply Hwf|now apply Ho].
Qed.

Lemma clear_book_smem c s : smem (clear_book c s) = smem s.
Proof. unfold smem. now rewrite clear_book_cs. Qed.

Lemma purge_block_size c s k orc : WF c s -> resident s k -> bounded (c_alg c) = true ->
  (c_alg c = LRU -> queue s <> []) -> (c_alg c = LFU -> usec s <> []) ->
  (c_alg c = RR -> resident s orc) ->
  snd (purge_block c s k orc) = EvOk /\
  size (smem (fst (purge_block c s k orc))) <= Z.max (c_max c) (size (smem s) - 1).
Proof.
  intros Hwf Hk Hb Hq Hu Ho. unfold purge_block.
  destruct (Z.gtb (size (smem s)) (c_max c)) eqn:E.
  - destruct (archived_ c s && c_purge c).
    + simp. split; [reflexivity|]. rewrite clear_book_smem. simp. cbn.
      pose proof (resident_size_pos s k Hk). slia.
    + destruct (evict_size c s k orc Hwf Hk Hb Hq Hu Ho) as [A B]. split; [exact A|]. slia.
  - simp. split; [reflexivity|]. rewrite Z.gtb_ltb in E. apply Z.ltb_ge in E. slia.
Qed.

Lemma post_smem c s k : smem (post c s k) = smem s.
Proof.
  unfold post. destruct (c_alg c); try reflexivity.
  - unfold lru_compact. destruct (Z.gtb _ _); [|reflexivity]. destruct (compact (queue s)); reflexivity.
  - destruct (mem_key (smem s) k); reflexivity.
Qed.

Lemma finish_size c s k orc v ev : WF c s -> resident s k -> bounded (c_alg c) = true ->
  (c_alg c = LRU -> queue s <> []) -> (c_alg c = LFU -> usec s <> []) ->
  (c_alg c = RR -> resident s orc) ->
  size (smem (fst (finish c s k orc v ev))) <= Z.max (c_max c) (size (smem s) - 1)
  /\ snd (finish c s k orc v ev) = ORet v ev.
Proof.
  intros Hwf Hk Hb Hq Hu Ho. unfold finish.
  destruct (purge_block_size c s k orc Hwf Hk Hb Hq Hu Ho) as [A B].
  destruct (c_alg c) eqn:Ha; try discriminate;
    destruct (purge_block c s k orc) as [s1 r]; simp; subst r; simp; rewrite post_smem; auto.
Qed.

(* bookkeeping facts after touch_new *)
Lemma touch_new_facts c s k :
  smem (touch_new c s k) = smem s /\ (c_alg c = LRU -> queue (touch_new c s k) <> []) /\
  (c_alg c = LFU -> usec (touch_new c s k) <> []).
Proof.
  unfold touch_new. destruct (c_alg c); simp; splits; try reflexivity; try discriminate; intros _.
  - unfold cnt_add. destruct (usec s) as [|[a b] r]; cbn [set]; [discriminate|]. destruct (Z.eqb k a); discriminate.
  - destruct (queue s); discriminate.
Qed.

(* a single-key load either finds the key (one more entry) or changes nothing *)
Lemma load1_cases c s k : get (smem s) k = None ->
  let s1 := if archived_ c s then load_ c s [k] else s in
  (get (smem s1) k = None /\ smem s1 = smem s) \/
  (exists v, get (smem s1) k = Some v /\ smem s1 = set (smem s) k v).
Proof.
  intros Hg. cbv zeta. destruct (archived_ c s); [|left; auto].
  unfold load_. destruct (c_direct c); [left; auto|]. simp. cbn [c_load fold_left]. unfold c_load1.
  destruct (a_get (arch (cs s)) k) as [v|]; [right|left; auto].
  exists v. simp. rewrite get_set_same. auto.
Qed.

Definition out_fine (fr : fres) (o : out) : Prop :=
  match o with
  | ORet _ _ => True
  | ORaise EUser _ => fr = Raise
  | _ => False
  end.

Lemma call_cached_size c s k fr orc : WF c s -> bounded (c_alg c) = true ->
  (c_alg c = RR -> orc = k \/ resident s orc) ->
  size (smem (fst (call_cached c s k fr orc))) <= Z.max (c_max c) (size (smem s))
  /\ out_fine fr (snd (call_cached c s k fr orc)).
Proof.
  intros Hwf Hb Ho. unfold call_cached.
  destruct (get (smem s) k) as [v|] eqn:Hg.
  - cbn [fst snd]. rewrite post_smem. split; [|exact I].
    assert (smem (hit1 (touch_hit c s k)) = smem s) as -> by (unfold touch_hit; destruct (c_alg c); reflexivity). lia.
  - pose proof (load1_cases c s k Hg) as Hl. cbv zeta in Hl.
    set (s1 := if archived_ c s then load_ c s [k] else s) in *.
    assert (Hw1 : WF c s1) by (subst s1; destruct (archived_ c s); [now apply WF_load|exact Hwf]).
    assert (Hres1 : forall x, resident s x -> resident s1 x).
    { intros x. subst s1. destruct (archived_ c s); [apply load_smem_mono|tauto]. }
    destruct Hl as [[Hn Hm]|(v & Hv & Hm)].
    + rewrite Hn. destruct fr as [v|]; [|cbn [fst snd]; rewrite Hm; split; [lia|reflexivity]].
      destruct (WF_set_mem c s1 k v Hw1) as [Hw2 Hk2].
      set (s2 := w_mem s1 (set (smem s1) k v)) in *.
      destruct (touch_new_facts c s2 k) as (T1 & T2 & T3).
      pose proof (WF_touch c s2 k Hw2 Hk2) as Hw3.
      assert (Hw4 : WF c (miss1 (touch_new c s2 k))) by (apply (stat_frame_WF c _ Hw3)).
      destruct (finish_size c (miss1 (touch_new c s2 k)) k orc v 1 Hw4) as [A B]; try assumption.
      * unfold resident. rewrite smem_miss1, T1. exact Hk2.
      * intros Ha. unfold resident. rewrite smem_miss1, T1.
        destruct (Ho Ha) as [->|Hr]; [exact Hk2|]. subst s2. rewrite smem_w_mem. apply in_keys_set. right. now apply Hres1.
      * rewrite B. split; [|exact I]. etransitivity; [exact A|]. rewrite smem_miss1, T1. subst s2. rewrite smem_w_mem, Hm.
        pose proof (size_set_le (smem s) k v). lia.
    + rewrite Hv.
      assert (Hk1 : resident s1 k) by (eapply get_in_keys; eauto).
      destruct (touch_new_facts c s1 k) as (T1 & T2 & T3).
      pose proof (WF_touch c s1 k Hw1 Hk1) as Hw3.
      assert (Hw4 : WF c (load1 (touch_new c s1 k))) by (apply (stat_frame_WF c _ Hw3)).
      destruct (finish_size c (load1 (touch_new c s1 k)) k orc v 0 Hw4) as [A B]; try assumption.
      * unfold resident. rewrite smem_load1, T1. exact Hk1.
      * intros Ha. unfold resident. rewrite smem_load1, T1.
        destruct (Ho Ha) as [->|Hr]; [exact Hk1|]. now apply Hres1.
      * rewrite B. split; [|exact I]. etransitivity; [exact A|]. rewrite smem_load1, T1, Hm.
        pose proof (size_set_le (smem s) k v). lia.
Qed.

(* ---- no_cache keeps nothing resident *)
Lemma no_purge_empty c s : smem (no_purge c s) = [].
Proof.
  unfold no_purge. destruct (Z.gtb (size (smem s)) 0) eqn:E.
  - simp. reflexivity.
  - rewrite Z.gtb_ltb in E. apply Z.ltb_ge in E. unfold size in E. destruct (smem s); [reflexivity|cbn in E; slia].
Qed.

Lemma call_no_size c s k fr :
  (snd (call_no c s k fr) <> ORaise EUser 1 -> smem (fst (call_no c s k fr)) = []) /\
  size (smem (fst (call_no c s k fr))) <= size (smem s).
Proof.
  unfold call_no.
  destruct (get (smem s) k) as [v0|] eqn:Hg.
  - (* already staged in memory *)
    assert (E : get (smem (if archived_ c s then load_ c s [k] else s)) k <> None).
    { destruct (archived_ c s); [|congruence]. unfold load_, smem in *. destruct (c_direct c); [congruence|].
      cbn [cs w_cs c_load fold_left]. unfold c_load1.
      destruct (a_get (arch (cs s)) k); cbn [mem c_with_mem]; [rewrite get_set_same|]; congruence. }
    destruct (get (smem (if archived_ c s then load_ c s [k] else s)) k); [|congruence].
    simp. rewrite no_purge_empty. split; [reflexivity|cbn; apply size_nonneg].
  - pose proof (load1_cases c s k Hg) as Hl. cbv zeta in Hl.
    destruct Hl as [[Hn Hm]|(v & Hv & Hm)].
    + rewrite Hn. destruct fr; simp.
      * rewrite no_purge_empty. split; [reflexivity|cbn; apply size_nonneg].
      * split; [congruence|]. fold (smem (if archived_ c s then load_ c s [k] else s)). rewrite Hm. slia.
    + rewrite Hv. simp. rewrite no_purge_empty. split; [reflexivity|cbn; apply size_nonneg].
Qed.

(* ---- the theorems of C05 *)
Theorem call_size_bounded c s kr fr orc : WF c s -> bounded (c_alg c) = true -> orc_ok c s kr orc ->
  size (smem (fst (call c s kr fr orc))) <= Z.max (c_max c) (size (smem s)).
Proof.
  intros Hwf Hb Ho. unfold call. destruct kr as [k| |].
  - pose proof (proj1 (call_cached_size c s k fr orc Hwf Hb Ho)) as H.
    destruct (c_alg c) eqn:Ha; try discriminate; exact H.
  - destruct (c_safe c); [|cbn [fst]; lia]. destruct fr; cbn [fst fallback]; rewrite ?smem_miss1; lia.
  - destruct (c_safe c); [|cbn [fst]; lia].
    destruct (c_alg c); try discriminate; destruct fr; cbn [fst fallback]; rewrite ?smem_miss1; lia.
Qed.

(* the eviction loops never fail: no IndexError escapes a wrapper whose bookkeeping is well formed *)
Theorem call_never_index_error c s kr fr orc ev : WF c s -> bounded (c_alg c) = true -> orc_ok c s kr orc ->
  snd (call c s kr fr orc) <> ORaise EIndexError ev.
Proof.
  intros Hwf Hb Ho. unfold call. destruct kr as [k| |].
  - assert (H : out_fine fr (snd (call_cached c s k fr orc))).
    { exact (proj2 (call_cached_size c s k fr orc Hwf Hb Ho)). }
    destruct (c_alg c) eqn:Ha; try discriminate;
      destruct (snd (call_cached c s k fr orc)) as [| e ? | | | | |]; try discriminate; destruct e; cbn in H; try discriminate; tauto.
  - destruct (c_safe c); [destruct fr|]; discriminate.
  - destruct (c_safe c); [|discriminate]. destruct (c_alg c); destruct fr; discriminate.
Qed.

(* operations other than a call or a load never add an entry *)
Lemma step_size_other c s o : (forall kr fr orc, o <> Call kr fr orc) -> (forall ks, o <> Load ks) ->
  size (smem (fst (step c s o))) <= size (smem s).
Proof.
  intros Hc Hl. destruct o; cbn [step].
  - exfalso; eapply Hc; reflexivity.
  - destruct kr; cbn [fst]; try lia. destruct (get (smem s) k); cbn [fst]; lia.
  - destruct kr; cbn [fst]; lia.
  - cbn [fst]; lia.
  - exfalso; eapply Hl; reflexivity.
  - cbn [fst]. rewrite dump_smem. lia.
  - cbn [fst]. unfold do_clear.
    assert (H : size (smem (match c_alg c with NO => s | _ => clear_book c (w_mem s []) end)) <= size (smem s)).
    { destruct (c_alg c); try lia; rewrite clear_book_smem, smem_w_mem; cbn; apply size_nonneg. }
    destruct keepstats; [exact H|]. etransitivity; [|exact H]. apply Z.le_refl.
  - destruct flag as [b|]; cbn [fst]; [|lia]. destruct (c_direct c); cbn [fst]; [lia|]. destruct b.
    + destruct (c_archived_on (cs s)) eqn:E; cbn [fst]; [|lia]. unfold smem. cbn [cs w_cs].
      rewrite (c_archived_on_mem _ _ E). lia.
    + cbn [fst]. unfold smem. cbn [cs w_cs]. unfold c_archived_off.
      destruct (negb (is_null (arch (cs s)))); [rewrite c_swap_mem|]; lia.
  - destruct (c_direct c); cbn [fst]; [lia|]. unfold smem. cbn [cs w_cs]. rewrite c_set_archive_spec.
    destruct (is_null (swp (cs s))); cbn [mem]; lia.
  - destruct (c_direct c); cbn [fst]; [lia|]. unfold smem; cbn [cs w_cs c_with_arch mem]; lia.
  - cbn [fst]. rewrite smem_w_mem. cbn. apply size_nonneg.
Qed.

(* histories without a bulk load: a cache that starts within its bound never exceeds maxsize *)
Fixpoint hist_ok (c : cfg) (s : state) (ops : list op) : Prop :=
  match ops with
  | [] => True
  | o :: r => op_ok o /\
              match o with Call kr _ orc => orc_ok c s kr orc | Load _ => False | _ => True end /\
              hist_ok c (fst (step c s o)) r
  end.

Theorem never_exceeds c ops s : bounded (c_alg c) = true -> WF c s ->
  size (smem s) <= c_max c -> hist_ok c s ops -> size (smem (run c s ops)) <= c_max c.
Proof.
  intros Hb. revert s. induction ops as [|o r IH]; intros s Hwf Hsz Hok; [exact Hsz|].
  cbn [hist_ok] in Hok. destruct Hok as (Ho & Hc & Hr).
  unfold run; cbn [fold_left]. apply IH; [now apply WF_step| |exact Hr].
  destruct o; try (etransitivity; [apply step_size_other; intros; discriminate|exact Hsz]).
  - cbn [step]. pose proof (call_size_bounded c s kr fr orc Hwf Hb Hc). lia.
  - destruct Hc.
Qed.

Theorem call_size_no c s kr fr orc : c_alg c = NO ->
  size (smem (fst (call c s kr fr orc))) <= size (smem s) /\
  (forall k v ev, kr = KOk k -> snd (call c s kr fr orc) = ORet v ev -> smem (fst (call c s kr fr orc)) = []).
Proof.
  intros Ha. unfold call. rewrite Ha. destruct kr as [k| |].
  - destruct (call_no_size c s k fr) as [A B]. split; [exact B|].
    intros k' v ev _ Hr. apply A. rewrite Hr. discriminate.
  - split; [|discriminate]. destruct (c_safe c); [|cbn [fst]; lia]. destruct fr; cbn [fst fallback]; rewrite ?smem_miss1; lia.
  - split; [|discriminate]. destruct (c_safe c); [|cbn [fst]; lia]. destruct fr; cbn [fst]; [|lia].
    rewrite no_purge_empty. cbn. apply size_nonneg.
Qed.

(* maxsize=None never evicts: every resident entry stays, with its value *)
Theorem call_inf_monotone c s kr fr orc : c_alg c = INF ->
  forall k v, get (smem s) k = Some v -> get (smem (fst (call c s kr fr orc))) k = Some v.
Proof.
  intros Ha k v Hg. unfold call. rewrite Ha. destruct kr as [k0| |].
  - unfold call_cached. destruct (get (smem s) k0) as [v0|] eqn:Hg0.
    + cbn [fst]. rewrite post_smem, smem_hit1. unfold touch_hit. rewrite Ha. exact Hg.
    + pose proof (load1_cases c s k0 Hg0) as Hl. cbv zeta in Hl.
      assert (Hne : k <> k0) by (intro; subst; congruence).
      set (s1 := if archived_ c s then load_ c s [k0] else s) in *.
      assert (Hfin : forall s2 v ev, fst (finish c s2 k0 orc v ev) = s2) by (intros; unfold finish; rewrite Ha; reflexivity).
      assert (Htn : forall s2, smem (touch_new c s2 k0) = smem s2) by (intros; apply touch_new_facts).
      destruct Hl as [[Hn Hm]|(v1 & Hv & Hm)].
      * rewrite Hn. destruct fr.
        -- rewrite Hfin, smem_miss1, Htn, smem_w_mem, Hm. rewrite get_set_other by congruence. exact Hg.
        -- cbn [fst]. now rewrite Hm.
      * rewrite Hv, Hfin, smem_load1, Htn, Hm. rewrite get_set_other by congruence. exact Hg.
  - destruct (c_safe c); [|exact Hg]. destruct fr; exact Hg.
  - destruct (c_safe c); [|exact Hg]. destruct fr; exact Hg.
Qed.

(* purge enabled on an archived cache: an overflow empties the in-memory cache *)
Lemma archived_arch c x y : arch (cs x) = arch (cs y) -> archived_ c x = archived_ c y.
Proof. unfold archived_, c_archived. intros ->. reflexivity. Qed.

Lemma finish_purges c s2 k orc v ev : bounded (c_alg c) = true -> c_purge c = true ->
  archived_ c s2 = true -> size (smem s2) > c_max c ->
  smem (fst (finish c s2 k orc v ev)) = [] /\ snd (finish c s2 k orc v ev) = ORet v ev.
Proof.
  intros Hb Hp Ha Hsz. unfold finish, purge_block.
  assert (Z.gtb (size (smem s2)) (c_max c) = true) as -> by (apply Z.gtb_lt; lia).
  rewrite Ha, Hp. cbn [andb].
  destruct (c_alg c); try discriminate; cbn [fst snd]; rewrite post_smem, clear_book_smem, smem_w_mem; auto.
Qed.

Theorem call_purge_empties c s k fr orc v ev : bounded (c_alg c) = true -> c_purge c = true ->
  archived_ c s = true -> get (smem s) k = None -> size (smem s) + 1 > c_max c ->
  snd (call c s (KOk k) fr orc) = ORet v ev ->
  smem (fst (call c s (KOk k) fr orc)) = [].
Proof.
  intros Hb Hp Har Hg Hov. unfold call.
  assert (Hcall : match c_alg c with NO => call_no c s k fr | _ => call_cached c s k fr orc end = call_cached c s k fr orc)
    by (destruct (c_alg c); try discriminate; reflexivity).
  rewrite Hcall. clear Hcall. unfold call_cached. rewrite Hg, Har.
  assert (Hl := load1_cases c s k Hg). cbv zeta in Hl. rewrite Har in Hl.
  assert (Har1 : archived_ c (load_ c s [k]) = true).
  { rewrite <- Har. apply archived_arch. unfold load_. destruct (c_direct c); [reflexivity|].
    cbn [cs w_cs]. now destruct (c_load_arch (cs s) [k]) as [-> _]. }
  assert (Hsz : forall v0, size (set (smem s) k v0) > c_max c).
  { intros v0. unfold size in *. rewrite length_set_notin by (now apply get_none_not_in). lia. }
  assert (Htn : forall s2, smem (touch_new c s2 k) = smem s2 /\ arch (cs (touch_new c s2 k)) = arch (cs s2)).
  { intros s2. split; [apply touch_new_facts|]. now destruct (touch_new_frame c s2 k) as (-> & _). }
  destruct Hl as [[Hn Hm]|(v1 & Hv & Hm)].
  - rewrite Hn. destruct fr as [v0|]; [|cbn [snd]; discriminate].
    intros _. apply finish_purges; try assumption.
    + rewrite <- Har1. apply archived_arch. cbn [cs miss1]. destruct (Htn (w_mem (load_ c s [k]) (set (smem (load_ c s [k])) k v0))) as [_ ->].
      reflexivity.
    + rewrite smem_miss1. destruct (Htn (w_mem (load_ c s [k]) (set (smem (load_ c s [k])) k v0))) as [-> _].
      rewrite smem_w_mem, Hm. apply Hsz.
  - rewrite Hv. intros _. apply finish_purges; try assumption.
    + rewrite <- Har1. apply archived_arch. cbn [cs load1]. now destruct (Htn (load_ c s [k])) as [_ ->].
    + rewrite smem_load1. destruct (Htn (load_ c s [k])) as [-> _]. rewrite Hm. apply Hsz.
Qed.
