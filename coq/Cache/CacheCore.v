(* M3: the six cache decorators x {standard, safe}  (klepto/_cache.py, klepto/safe.py).
   Each wrapper is transcribed branch by branch.  Models only; proofs are in *Facts.v. *)
From Klepto Require Export CacheDict.

Inductive alg := NO | INF | LFU | LRU | MRU | RR.

Record cfg := mkCfg {
  c_alg : alg;
  c_max : Z;          (* maxsize (0 for NO, ignored for INF) *)
  c_purge : bool;
  c_safe : bool;      (* klepto.safe variant *)
  c_direct : bool     (* cache= is an archive object used directly (klepto._abc.archive) *)
}.

Record state := mkS {
  cs : cstate;
  queue : list key;   (* lru/mru deque, left end first *)
  refc : omap;        (* lru refcount Counter *)
  usec : omap;        (* lfu use_count Counter (insertion ordered) *)
  hits : Z; misses : Z; loads : Z
}.

Definition init_state (c : cstate) : state := mkS c [] [] [] 0 0 0.

Definition w_cs (s : state) (c : cstate) := mkS c (queue s) (refc s) (usec s) (hits s) (misses s) (loads s).
Definition w_queue (s : state) q := mkS (cs s) q (refc s) (usec s) (hits s) (misses s) (loads s).
Definition w_refc (s : state) r := mkS (cs s) (queue s) r (usec s) (hits s) (misses s) (loads s).
Definition w_usec (s : state) u := mkS (cs s) (queue s) (refc s) u (hits s) (misses s) (loads s).
Definition w_mem (s : state) m := w_cs s (c_with_mem (cs s) m).
Definition hit1 (s : state) := mkS (cs s) (queue s) (refc s) (usec s) (hits s + 1) (misses s) (loads s).
Definition miss1 (s : state) := mkS (cs s) (queue s) (refc s) (usec s) (hits s) (misses s + 1) (loads s).
Definition load1 (s : state) := mkS (cs s) (queue s) (refc s) (usec s) (hits s) (misses s) (loads s + 1).
Definition smem (s : state) : omap := mem (cs s).

(* cache.archived(), cache.load(..), cache.dump(..) as seen by a wrapper; an archive object used
   directly as the cache answers False / does nothing (_abc.py:32-41) *)
Definition archived_ (c : cfg) (s : state) : bool :=
  if c_direct c then false else c_archived (cs s).
Definition load_ (c : cfg) (s : state) (ks : list key) : state :=
  if c_direct c then s else w_cs s (c_load (cs s) ks).
Definition dump_ (c : cfg) (s : state) (ks : list key) : state :=
  if c_direct c then s else w_cs s (c_dump (cs s) ks).

(* ---------------------------------------------------------------- inputs and outputs *)
Inductive keyres := KOk (k : key) | KFail | KUnhash.   (* rounding;_keygen;keymap, then hashing *)
Inductive fres := Ret (v : val) | Raise.                (* what the user function does IF evaluated *)
Inductive exn := EUser | ETypeError | EIndexError | EKeyError | EValueError.

Inductive out :=
| ORet (v : val) (ev : Z)        (* returned v after ev evaluations of the user function *)
| ORaise (e : exn) (ev : Z)
| OUnit | OBool (b : bool) | OKey (k : key) | OVal (v : val)
| OInfo (h m l mx sz : Z).

(* ---------------------------------------------------------------- LRU helpers (_cache.py:768-786) *)
(* popleft until the refcount hits zero; None = IndexError from an empty deque *)
Fixpoint lru_evict (q : list key) (rc : omap) : option key * list key * omap :=
  match q with
  | [] => (None, [], rc)
  | k :: q' =>
      let rc' := cnt_add rc k (-1) in
      if Z.eqb (cnt_get rc' k) 0 then (Some k, q', rc') else lru_evict q' rc'
  end.

(* compaction: pop from the right up to the sentinel, keep keys not yet seen, appendleft *)
Fixpoint compact_aux (rq : list key) (acc : list key) (rc : omap) : list key * omap :=
  match rq with
  | [] => (acc, rc)
  | k :: r => if mem_key rc k then compact_aux r acc rc
              else compact_aux r (k :: acc) (set rc k 1)
  end.
Definition compact (q : list key) : list key * omap := compact_aux (rev q) [] [].

Definition lru_compact (c : cfg) (s : state) : state :=
  if Z.gtb (Z.of_nat (length (queue s))) (c_max c * 10)
  then let '(q, rc) := compact (queue s) in w_refc (w_queue s q) rc
  else s.

(* ---------------------------------------------------------------- MRU helpers *)
Fixpoint remove_first (k : key) (q : list key) : list key :=
  match q with
  | [] => []
  | x :: r => if Z.eqb x k then r else x :: remove_first k r
  end.
(* queue.pop(): rightmost *)
Definition pop_right (q : list key) : option (key * list key) :=
  match rev q with [] => None | x :: r => Some (x, rev r) end.

(* ---------------------------------------------------------------- LFU helpers (_cache.py:534) *)
Fixpoint ins_sorted (x : key * Z) (l : list (key * Z)) : list (key * Z) :=
  match l with
  | [] => [x]
  | y :: r => if Z.ltb (snd x) (snd y) then x :: y :: r else y :: ins_sorted x r
  end.
Definition sort_by_count (l : list (key * Z)) : list (key * Z) :=
  fold_left (fun acc x => ins_sorted x acc) l [].
Definition lfu_n (maxsize : Z) : nat := Z.to_nat (Z.max 2 (maxsize / 10)).
Definition lfu_victims (n : nat) (u : omap) : list key := map fst (firstn n (sort_by_count u)).

Definition lfu_evict1 (c : cfg) (s : state) (k : key) : state :=
  let s1 := if archived_ c s then dump_ c s [k] else s in
  w_usec (w_mem s1 (del (smem s1) k)) (del (usec s1) k).

(* ---------------------------------------------------------------- the purge block *)
(* bookkeeping cleared together with the cache on a purge / clear() *)
Definition clear_book (c : cfg) (s : state) : state :=
  match c_alg c with
  | LFU => w_usec s []
  | LRU => w_refc (w_queue s []) []
  | MRU => w_queue s []
  | _ => s
  end.

(* evict one victim (several for LFU).  EvIndexError = IndexError raised inside the wrapper.
   [k] is the key of the current call, [orc] the key random.choice returned (RR). *)
Inductive evres := EvOk | EvIndexError.
Definition evict (c : cfg) (s : state) (k orc : key) : state * evres :=
  match c_alg c with
  | LFU => (fold_left (lfu_evict1 c) (lfu_victims (lfu_n (c_max c)) (usec s)) s, EvOk)
  | LRU =>
      let '(vk, q, rc) := lru_evict (queue s) (refc s) in
      let s1 := w_refc (w_queue s q) rc in
      match vk with
      | None => (s1, EvIndexError)
      | Some v =>
          let s2 := if archived_ c s1 then dump_ c s1 [v] else s1 in
          (w_refc (w_mem s2 (del (smem s2) v)) (del (refc s2) v), EvOk)
      end
  | MRU =>
      (* k = queue.pop(); with an empty queue (entries present only through a bulk load) the
         current key is the only one with a recorded use and is the victim, as for LRU/LFU *)
      let '(v, q) := match pop_right (queue s) with Some (v, q) => (v, q) | None => (k, []) end in
      let s1 := w_queue s q in
      let s2 := if archived_ c s1 then dump_ c s1 [v] else s1 in
      (w_mem s2 (del (smem s2) v), EvOk)
  | RR =>
      let s1 := if archived_ c s then dump_ c s [orc] else s in
      (w_mem s1 (del (smem s1) orc), EvOk)
  | _ => (s, EvOk)
  end.

Definition purge_block (c : cfg) (s : state) (k orc : key) : state * evres :=
  if Z.gtb (size (smem s)) (c_max c) then
    if archived_ c s && c_purge c then
      let s1 := dump_ c s [] in
      (clear_book c (w_mem s1 []), EvOk)
    else evict c s k orc
  else (s, EvOk).

(* ---------------------------------------------------------------- bookkeeping on use *)
Definition touch_hit (c : cfg) (s : state) (k : key) : state :=
  match c_alg c with
  | LFU => w_usec s (cnt_add (usec s) k 1)
  | LRU => w_refc (w_queue s (queue s ++ [k])) (cnt_add (refc s) k 1)
  | MRU => w_queue s (remove_first k (queue s))
  | _ => s
  end.
Definition touch_new (c : cfg) (s : state) (k : key) : state :=
  match c_alg c with
  | LFU => w_usec s (cnt_add (usec s) k 1)
  | LRU => w_refc (w_queue s (queue s ++ [k])) (cnt_add (refc s) k 1)
  | _ => s
  end.
(* after the try/except: lru compaction, mru append *)
Definition post (c : cfg) (s : state) (k : key) : state :=
  match c_alg c with
  | LRU => lru_compact c s
  | MRU => if mem_key (smem s) k then w_queue s (queue s ++ [k]) else s
  | _ => s
  end.

(* load/miss path after the entry is in memory: purge block, then the post step *)
Definition finish (c : cfg) (s : state) (k orc : key) (v : val) (ev : Z) : state * out :=
  match c_alg c with
  | INF => (s, ORet v ev)
  | _ =>
    let '(s1, r) := purge_block c s k orc in
    match r with
    | EvOk => (post c s1 k, ORet v ev)
    | EvIndexError => (s1, ORaise EIndexError ev)
    end
  end.

(* ---------------------------------------------------------------- the wrapper call *)
(* plain evaluation used by the safe wrappers when the key cannot be built / hashed *)
Definition fallback (s : state) (fr : fres) : state * out :=
  match fr with
  | Raise => (s, ORaise EUser 1)
  | Ret v => (miss1 s, ORet v 1)
  end.

Definition call_cached (c : cfg) (s : state) (k : key) (fr : fres) (orc : key) : state * out :=
  match get (smem s) k with
  | Some v => (post c (hit1 (touch_hit c s k)) k, ORet v 0)
  | None =>
      let s1 := if archived_ c s then load_ c s [k] else s in
      match get (smem s1) k with
      | Some v => finish c (load1 (touch_new c s1 k)) k orc v 0
      | None =>
          match fr with
          | Raise => (s1, ORaise EUser 1)
          | Ret v => finish c (miss1 (touch_new c (w_mem s1 (set (smem s1) k v)) k)) k orc v 1
          end
      end
  end.

(* no_cache: the in-memory dict is only a staging area *)
Definition no_purge (c : cfg) (s : state) : state :=
  if Z.gtb (size (smem s)) 0 then
    let s1 := if archived_ c s then dump_ c s [] else s in w_mem s1 []
  else s.

Definition call_no (c : cfg) (s : state) (k : key) (fr : fres) : state * out :=
  let s1 := if archived_ c s then load_ c s [k] else s in
  match get (smem s1) k with
  | Some v => (no_purge c (load1 (w_mem s1 [])), ORet v 0)
  | None =>
      match fr with
      | Raise => (s1, ORaise EUser 1)
      | Ret v => (no_purge c (miss1 (w_mem s1 (set (smem s1) k v))), ORet v 1)
      end
  end.

Definition call (c : cfg) (s : state) (kr : keyres) (fr : fres) (orc : key) : state * out :=
  match kr with
  | KOk k => match c_alg c with NO => call_no c s k fr | _ => call_cached c s k fr orc end
  | KFail => if c_safe c then fallback s fr else (s, ORaise ETypeError 0)
  | KUnhash =>
      if c_safe c then
        match c_alg c with
        | NO => match fr with
                | Raise => (s, ORaise EUser 1)
                | Ret v => (no_purge c (miss1 s), ORet v 1)
                end
        | _ => fallback s fr
        end
      else (s, ORaise ETypeError 0)
  end.

(* ---------------------------------------------------------------- the other wrapper attributes *)
Inductive op :=
| Call (kr : keyres) (fr : fres) (orc : key)
| Lookup (kr : keyres)
| KeyOf (kr : keyres)
| Info
| Load (ks : list key)
| Dump (ks : list key)
| Clear (keepstats : bool)
| Archived (flag : option bool)
| SetArchive (a : archive)          (* f.archive(obj) *)
| ArchSet (k : key) (v : val)       (* another user of the attached archive stores k -> v *)
| MemClear.                         (* f.__cache__().clear(): the memory emptied BEHIND the wrapper - queue, counters, statistics stay *)

Definition do_clear (c : cfg) (s : state) (keep : bool) : state :=
  let s1 := match c_alg c with NO => s | _ => clear_book c (w_mem s []) end in
  if keep then s1 else mkS (cs s1) (queue s1) (refc s1) (usec s1) 0 0 0.

Definition info_max (c : cfg) : Z := match c_alg c with NO => 0 | INF => -1 | _ => c_max c end.

Definition step (c : cfg) (s : state) (o : op) : state * out :=
  match o with
  | Call kr fr orc => call c s kr fr orc
  | Lookup (KOk k) => match get (smem s) k with Some v => (s, OVal v) | None => (s, ORaise EKeyError 0) end
  | Lookup _ => (s, ORaise ETypeError 0)
  | KeyOf (KOk k) => (s, OKey k)
  | KeyOf KUnhash => (s, OUnit)              (* key() returns the (unhashable) key object *)
  | KeyOf KFail => (s, ORaise ETypeError 0)
  | Info => (s, OInfo (hits s) (misses s) (loads s) (info_max c) (size (smem s)))
  | Load ks => (load_ c s ks, OUnit)
  | Dump ks => (dump_ c s ks, OUnit)
  | Clear keep => (do_clear c s keep, OUnit)
  | Archived None => (s, OBool (archived_ c s))
  | Archived (Some b) =>
      if c_direct c then (s, ORaise EValueError 0)
      else if b then match c_archived_on (cs s) with
                     | Some c1 => (w_cs s c1, OUnit)
                     | None => (s, ORaise EValueError 0) end
      else (w_cs s (c_archived_off (cs s)), OUnit)
  | SetArchive a =>
      if c_direct c then (s, ORaise EValueError 0)
      else (w_cs s (c_set_archive (cs s) a), OUnit)
  | ArchSet k v =>
      if c_direct c then (s, OUnit)
      else (w_cs s (c_with_arch (cs s) (a_update (arch (cs s)) [(k, v)])), OUnit)
  | MemClear => (w_mem s [], OUnit)
  end.

Definition run (c : cfg) (s : state) (ops : list op) : state :=
  fold_left (fun s o => fst (step c s o)) ops s.

(* decorator construction: how maxsize selects the algorithm (__new__ dispatch, _cache.py:447-453) *)
Inductive maxarg := MNone | MInt (n : Z).
Definition dispatch (a : alg) (m : maxarg) : alg * Z :=
  match a with
  | NO => (NO, 0)
  | INF => (INF, -1)
  | _ => match m with
         | MNone => (INF, -1)
         | MInt n => if Z.eqb n 0 then (NO, 0) else (a, n)
         end
  end.
