(* The bookkeeping invariant WF of the cache decorators and its preservation by every operation. *)
From Klepto Require Import OMap OMapFacts CacheDict CacheDictFacts CacheCore LruFacts LfuFacts.
From Coq Require Import Lia.

Ltac simp :=
  cbn [cs queue refc usec hits misses loads w_cs w_queue w_refc w_usec w_mem hit1 miss1 load1 smem
       mem arch swp c_with_mem c_with_arch fst snd] in *.

Ltac splits := repeat match goal with |- _ /\ _ => split end.
Ltac usplits := unfold wf_c, c_with_mem, c_with_arch in *; cbn [mem arch swp] in *; splits.

Definition resident (s : state) (k : key) : Prop := In k (keys (smem s)).

Definition book_inv (c : cfg) (s : state) : Prop :=
  match c_alg c with
  | LRU => counts (refc s) (queue s) /\ (forall k, In k (queue s) -> resident s k)
  | MRU => NoDup (queue s) /\ (forall k, In k (queue s) -> resident s k)
  | LFU => NoDup (keys (usec s)) /\ (forall k, In k (keys (usec s)) -> resident s k)
  | _ => True
  end.

Definition WF (c : cfg) (s : state) : Prop := wf_c (cs s) /\ book_inv c s.

(* ---------------------------------------------------------------- small list facts *)
Lemma remove_first_in k q x : In x (remove_first k q) -> In x q.
Proof.
  induction q as [|y r IH]; cbn [remove_first In]; [tauto|].
  destruct (Z.eqb y k); [tauto|]. cbn [In]. tauto.
Qed.

Lemma remove_first_nodup k q : NoDup q -> NoDup (remove_first k q) /\ ~ In k (remove_first k q).
Proof.
  induction q as [|y r IH]; cbn [remove_first]; intros H; [split; [constructor|tauto]|].
  inversion H as [|a l Ha Hl]; subst.
  destruct (Z.eqb y k) eqn:E.
  - apply Z.eqb_eq in E; subst. tauto.
  - assert (y <> k) by (intro; subst; rewrite Z.eqb_refl in E; discriminate).
    destruct (IH Hl) as [H1 H2]. split.
    + constructor; [|exact H1]. intro Hin. apply Ha. eapply remove_first_in; eauto.
    + cbn [In]. intros [?|?]; [congruence|tauto].
Qed.

Lemma pop_right_spec q : match pop_right q with
                         | Some (v, q') => q = q' ++ [v]
                         | None => q = []
                         end.
Proof.
  unfold pop_right. destruct (rev q) as [|x r] eqn:E.
  - rewrite <- (rev_involutive q), E. reflexivity.
  - rewrite <- (rev_involutive q), E. reflexivity.
Qed.

Lemma NoDup_app_single_inv (l : list key) x : NoDup (l ++ [x]) -> NoDup l /\ ~ In x l.
Proof.
  intros H. apply NoDup_remove in H. rewrite app_nil_r in H. exact H.
Qed.

(* ---------------------------------------------------------------- frames *)
Lemma c_load_keys_mono c0 ks k : In k (keys (mem c0)) -> In k (keys (mem (c_load c0 ks))).
Proof.
  intros H. destruct ks as [|k0 r]; cbn [c_load].
  - cbn. apply in_keys_update. now left.
  - generalize (k0 :: r). intros l. revert c0 H. induction l as [|x l IH]; intros c0 H; cbn [fold_left]; [exact H|].
    apply IH. unfold c_load1. destruct (a_get (arch c0) x); [|exact H]. cbn. apply in_keys_set. now right.
Qed.

Lemma load_smem_mono c s ks k : resident s k -> resident (load_ c s ks) k.
Proof.
  unfold load_, resident. destruct (c_direct c); [tauto|]. simp. apply c_load_keys_mono.
Qed.

Lemma load_book c s ks : queue (load_ c s ks) = queue s /\ refc (load_ c s ks) = refc s /\ usec (load_ c s ks) = usec s
  /\ hits (load_ c s ks) = hits s /\ misses (load_ c s ks) = misses s /\ loads (load_ c s ks) = loads s.
Proof. unfold load_. destruct (c_direct c); simp; auto 10. Qed.

Lemma dump_book c s ks : queue (dump_ c s ks) = queue s /\ refc (dump_ c s ks) = refc s /\ usec (dump_ c s ks) = usec s
  /\ smem (dump_ c s ks) = smem s
  /\ hits (dump_ c s ks) = hits s /\ misses (dump_ c s ks) = misses s /\ loads (dump_ c s ks) = loads s.
Proof.
  unfold dump_. destruct (c_direct c); simp; auto 10.
  destruct (c_dump_mem (cs s) ks) as (Hm & _). auto 10.
Qed.

Lemma load_wf c s ks : wf_c (cs s) -> wf_c (cs (load_ c s ks)).
Proof. unfold load_. destruct (c_direct c); simp; [tauto|]. apply c_load_wf. Qed.

Lemma dump_wf c s ks : wf_c (cs s) -> wf_c (cs (dump_ c s ks)).
Proof. unfold dump_. destruct (c_direct c); simp; [tauto|]. apply c_dump_wf. Qed.

Lemma wf_w_mem s m : wf_c (cs s) -> NoDup (keys m) -> wf_c (cs (w_mem s m)).
Proof. intros (H1 & H2 & H3) Hm. simp. usplits; assumption. Qed.

(* the invariant only looks at the bookkeeping and at which keys are resident *)
Lemma book_inv_ext c s s' :
  queue s' = queue s -> refc s' = refc s -> usec s' = usec s ->
  (forall k, resident s k -> resident s' k) -> book_inv c s -> book_inv c s'.
Proof.
  intros Hq Hr Hu Hres. unfold book_inv. rewrite Hq, Hr, Hu.
  destruct (c_alg c); auto; intros [H1 H2]; split; auto.
Qed.

Lemma WF_load c s ks : WF c s -> WF c (load_ c s ks).
Proof.
  intros [H1 H2]. split; [now apply load_wf|].
  destruct (load_book c s ks) as (Hq & Hr & Hu & _).
  eapply book_inv_ext; eauto. intros k. apply load_smem_mono.
Qed.

Lemma WF_dump c s ks : WF c s -> WF c (dump_ c s ks).
Proof.
  intros [H1 H2]. split; [now apply dump_wf|].
  destruct (dump_book c s ks) as (Hq & Hr & Hu & Hm & _).
  eapply book_inv_ext; eauto. intros k. unfold resident. now rewrite Hm.
Qed.

(* ---------------------------------------------------------------- compaction keeps the invariant *)
Lemma WF_lru_compact c s : c_alg c = LRU -> WF c s -> WF c (lru_compact c s).
Proof.
  intros Ha [H1 H2]. unfold lru_compact.
  destruct (Z.gtb (Z.of_nat (length (queue s))) (c_max c * 10)); [|split; assumption].
  pose proof (compact_spec (queue s)) as Hc. destruct (compact (queue s)) as [q' rc'].
  destruct Hc as (E & Hcnt & Hnd). split; [exact H1|].
  unfold book_inv in *. rewrite Ha in *. simp.
  destruct H2 as [_ Hres]. split; [exact Hcnt|]. intros k Hk. unfold resident in *. simp. apply Hres. subst q'. apply (proj1 (in_dedup_last (queue s) k)). exact Hk.
Qed.

(* ---------------------------------------------------------------- evictions keep the invariant *)
Lemma resident_del s v k : k <> v -> resident s k -> resident (w_mem s (del (smem s) v)) k.
Proof. unfold resident. simp. intros Hne H. apply in_keys_del. tauto. Qed.


(* lfu_evict1 is only run by the LFU wrapper *)
Lemma WF_lfu_evict1 c s v : c_alg c = LFU -> WF c s -> WF c (lfu_evict1 c s v).
Proof.
  intros Ha Hwf. unfold lfu_evict1.
  set (s1 := if archived_ c s then dump_ c s [v] else s).
  assert (Hwf1 : WF c s1) by (subst s1; destruct (archived_ c s); [now apply WF_dump|exact Hwf]).
  destruct Hwf1 as [H1 H2]. split.
  - simp. destruct H1 as (A & B & C). usplits; try assumption. now apply NoDup_keys_del.
  - unfold book_inv in *. rewrite Ha in *. simp.
    destruct H2 as [Hn Hres]. split; [now apply NoDup_keys_del|].
    intros k Hk. apply in_keys_del in Hk. destruct Hk as [Hne Hk].
    unfold resident. simp. apply in_keys_del. split; [exact Hne|]. now apply Hres.
Qed.

Lemma WF_lfu_fold c vs s : c_alg c = LFU -> WF c s -> WF c (fold_left (lfu_evict1 c) vs s).
Proof.
  intros Ha. revert s. induction vs as [|v r IH]; intros s H; cbn [fold_left]; [exact H|].
  apply IH. now apply WF_lfu_evict1.
Qed.

Lemma WF_evict c s k orc : WF c s -> resident s k ->
  (c_alg c = LRU -> queue s <> []) ->
  WF c (fst (evict c s k orc)).
Proof.
  intros Hwf Hk Hq. unfold evict. destruct (c_alg c) eqn:Ha; simp; try exact Hwf.
  - (* LFU *) now apply WF_lfu_fold.
  - (* LRU *)
    destruct Hwf as [H1 H2]. unfold book_inv in H2. rewrite Ha in H2. destruct H2 as [Hcnt Hres].
    destruct (lru_evict_spec (queue s) (refc s) Hcnt (Hq eq_refl)) as (v & q' & rc' & pre & He & Hqq & Ho & Hc' & Hpre).
    rewrite He. simp.
    set (s1 := w_refc (w_queue s q') rc').
    set (s2 := if archived_ c s1 then dump_ c s1 [v] else s1).
    assert (Hs2 : queue s2 = q' /\ refc s2 = rc' /\ smem s2 = smem s /\ wf_c (cs s2)).
    { subst s2. destruct (archived_ c s1).
      - destruct (dump_book c s1 [v]) as (A & B & _ & D & _). rewrite A, B, D. subst s1. simp.
        splits; try reflexivity. apply (dump_wf c (w_refc (w_queue s q') rc') [v]). simp. exact H1.
      - subst s1. simp. auto. }
    destruct Hs2 as (A & B & D & E). split.
    + simp. destruct E as (E1 & E2 & E3). usplits; try assumption.
      simp. apply NoDup_keys_del. fold (smem s2). rewrite D. apply H1.
    + unfold book_inv. rewrite Ha. simp. rewrite A, B. split.
      * intros x. destruct (Z.eq_dec v x) as [<-|Hne].
        -- now rewrite cnt_get_del_same, Ho.
        -- rewrite cnt_get_del_other by exact Hne. apply Hc'.
      * intros x Hx. unfold resident. simp. apply in_keys_del. fold (smem s2). rewrite D. split.
        -- intro; subst x. apply occ_zero_notin in Ho. tauto.
        -- apply Hres. rewrite Hqq. apply in_or_app. right. now right.
  - (* MRU *)
    destruct Hwf as [H1 H2]. unfold book_inv in H2. rewrite Ha in H2. destruct H2 as [Hnd Hres].
    pose proof (pop_right_spec (queue s)) as Hp.
    destruct (pop_right (queue s)) as [[v q']|].
    + rewrite Hp in Hnd. apply NoDup_app_single_inv in Hnd. destruct Hnd as [Hnd Hv].
      simp.
      set (s1 := w_queue s q').
      set (s2 := if archived_ c s1 then dump_ c s1 [v] else s1).
      assert (Hs2 : queue s2 = q' /\ smem s2 = smem s /\ wf_c (cs s2)).
      { subst s2. destruct (archived_ c s1).
        - destruct (dump_book c s1 [v]) as (A & _ & _ & D & _). rewrite A, D. subst s1. simp.
          splits; try reflexivity. apply (dump_wf c (w_queue s q') [v]). simp. exact H1.
        - subst s1. simp. auto. }
      destruct Hs2 as (A & D & E). split.
      * simp. destruct E as (E1 & E2 & E3). usplits; try assumption.
        simp. apply NoDup_keys_del. fold (smem s2). rewrite D. apply H1.
      * unfold book_inv. rewrite Ha. simp. rewrite A. split; [exact Hnd|].
        intros x Hx. unfold resident. simp. apply in_keys_del. fold (smem s2). rewrite D. split.
        -- intro; subst x. tauto.
        -- apply Hres. rewrite Hp. apply in_or_app. now left.
    + simp.
      set (s1 := w_queue s []).
      set (s2 := if archived_ c s1 then dump_ c s1 [k] else s1).
      assert (Hs2 : queue s2 = [] /\ smem s2 = smem s /\ wf_c (cs s2)).
      { subst s2. destruct (archived_ c s1).
        - destruct (dump_book c s1 [k]) as (A & _ & _ & D & _). rewrite A, D. subst s1. simp.
          splits; try reflexivity. apply (dump_wf c (w_queue s []) [k]). simp. exact H1.
        - subst s1. simp. auto. }
      destruct Hs2 as (A & D & E). split.
      * simp. destruct E as (E1 & E2 & E3). usplits; try assumption.
        simp. apply NoDup_keys_del. fold (smem s2). rewrite D. apply H1.
      * unfold book_inv. rewrite Ha. simp. rewrite A. split; [constructor|]. intros x [].
  - (* RR *)
    destruct Hwf as [H1 H2].
    set (s1 := if archived_ c s then dump_ c s [orc] else s).
    assert (Hs1 : smem s1 = smem s /\ wf_c (cs s1)).
    { subst s1. destruct (archived_ c s).
      - destruct (dump_book c s [orc]) as (_ & _ & _ & D & _). split; [exact D|now apply dump_wf].
      - auto. }
    destruct Hs1 as (D & E). split.
    + simp. destruct E as (E1 & E2 & E3). usplits; try assumption.
      simp. apply NoDup_keys_del. fold (smem s1). rewrite D. apply H1.
    + unfold book_inv. rewrite Ha. exact I.
Qed.

Lemma clear_book_inv c s : smem s = [] -> book_inv c (clear_book c s).
Proof.
  intros Hm. unfold book_inv, clear_book. destruct (c_alg c); simp; auto.
  - split; [constructor|intros k []].
  - split; [intros k; reflexivity|intros k []].
  - split; [constructor|intros k []].
Qed.

Lemma clear_book_cs c s : cs (clear_book c s) = cs s.
Proof. unfold clear_book. destruct (c_alg c); reflexivity. Qed.

Lemma WF_purge_block c s k orc : WF c s -> resident s k ->
  (c_alg c = LRU -> queue s <> []) ->
  WF c (fst (purge_block c s k orc)).
Proof.
  intros Hwf Hk Hq. unfold purge_block.
  destruct (Z.gtb (size (smem s)) (c_max c)); [|exact Hwf].
  destruct (archived_ c s && c_purge c).
  - simp. split.
    + rewrite clear_book_cs. apply wf_w_mem; [|constructor]. apply dump_wf. apply Hwf.
    + apply clear_book_inv. reflexivity.
  - now apply WF_evict.
Qed.

(* ---------------------------------------------------------------- the post step *)
Lemma WF_post c s k : WF c s -> (c_alg c = MRU -> ~ In k (queue s)) -> WF c (post c s k).
Proof.
  intros Hwf Hk. unfold post. destruct (c_alg c) eqn:Ha; try exact Hwf.
  - now apply WF_lru_compact.
  - destruct (mem_key (smem s) k) eqn:E; [|exact Hwf].
    destruct Hwf as [H1 H2]. split; [exact H1|].
    unfold book_inv in *. rewrite Ha in *. simp. destruct H2 as [Hnd Hres]. split.
    + apply NoDup_snoc; [exact Hnd|]. now apply Hk.
    + intros x Hx. apply in_app_or in Hx. destruct Hx as [Hx|[<-|[]]]; [now apply Hres|].
      now apply mem_key_true.
Qed.

(* ---------------------------------------------------------------- bookkeeping on use *)
Lemma WF_touch c s k : WF c s -> resident s k -> WF c (touch_new c s k).
Proof.
  intros [H1 H2] Hk. split.
  - unfold touch_new. destruct (c_alg c); exact H1.
  - unfold book_inv, touch_new in *. destruct (c_alg c); simp; auto.
    + destruct H2 as [Hn Hres]. split; [now apply NoDup_keys_set|].
      intros x Hx. unfold cnt_add in Hx. apply in_keys_set in Hx. destruct Hx as [->|Hx]; [exact Hk|now apply Hres].
    + destruct H2 as [Hc Hres]. split; [now apply counts_append|].
      intros x Hx. apply in_app_or in Hx. destruct Hx as [Hx|[<-|[]]]; [now apply Hres|exact Hk].
Qed.

Lemma WF_touch_hit c s k : WF c s -> resident s k -> WF c (touch_hit c s k) /\ (c_alg c = MRU -> ~ In k (queue (touch_hit c s k))).
Proof.
  intros [H1 H2] Hk. split; [split|].
  - unfold touch_hit. destruct (c_alg c); exact H1.
  - unfold book_inv, touch_hit in *. destruct (c_alg c); simp; auto.
    + destruct H2 as [Hn Hres]. split; [now apply NoDup_keys_set|].
      intros x Hx. unfold cnt_add in Hx. apply in_keys_set in Hx. destruct Hx as [->|Hx]; [exact Hk|now apply Hres].
    + destruct H2 as [Hc Hres]. split; [now apply counts_append|].
      intros x Hx. apply in_app_or in Hx. destruct Hx as [Hx|[<-|[]]]; [now apply Hres|exact Hk].
    + destruct H2 as [Hn Hres]. destruct (remove_first_nodup k (queue s) Hn) as [A B]. split; [exact A|].
      intros x Hx. apply Hres. eapply remove_first_in; eauto.
  - intros Ha. unfold book_inv, touch_hit in *. rewrite Ha in *. simp. destruct H2 as [Hn _].
    now destruct (remove_first_nodup k (queue s) Hn).
Qed.

Lemma touch_new_frame c s k : cs (touch_new c s k) = cs s /\ (c_alg c = MRU -> queue (touch_new c s k) = queue s)
  /\ (c_alg c = LRU -> queue (touch_new c s k) <> []).
Proof.
  unfold touch_new. destruct (c_alg c); simp; splits; try reflexivity; try discriminate.
  intros _. destruct (queue s); discriminate.
Qed.

Lemma stat_frame_WF c s : WF c s -> WF c (hit1 s) /\ WF c (miss1 s) /\ WF c (load1 s).
Proof. intros [H1 H2]. split; [|split]; (split; [exact H1|exact H2]). Qed.

(* purge_block never puts a key into the mru queue *)
Lemma purge_block_queue_sub c s k orc x : c_alg c = MRU -> In x (queue (fst (purge_block c s k orc))) -> In x (queue s).
Proof.
  intros Ha. unfold purge_block.
  destruct (Z.gtb (size (smem s)) (c_max c)); [|tauto].
  destruct (archived_ c s && c_purge c).
  - simp. unfold clear_book. rewrite Ha. simp. intros [].
  - unfold evict. rewrite Ha. pose proof (pop_right_spec (queue s)) as Hp.
    destruct (pop_right (queue s)) as [[v q']|]; simp.
    + set (s1 := w_queue s q'). assert (E : queue (if archived_ c s1 then dump_ c s1 [v] else s1) = q').
      { destruct (archived_ c s1); [destruct (dump_book c s1 [v]) as (A & _); now rewrite A|reflexivity]. }
      rewrite E, Hp. intros H. apply in_or_app. now left.
    + set (s1 := w_queue s []). assert (E : queue (if archived_ c s1 then dump_ c s1 [k] else s1) = []).
      { destruct (archived_ c s1); [destruct (dump_book c s1 [k]) as (A & _); now rewrite A|reflexivity]. }
      rewrite E. intros [].
Qed.

Lemma WF_finish c s k orc v ev : WF c s -> resident s k ->
  (c_alg c = MRU -> ~ In k (queue s)) -> (c_alg c = LRU -> queue s <> []) ->
  WF c (fst (finish c s k orc v ev)).
Proof.
  intros Hwf Hk Hm Hq. unfold finish.
  assert (Hs1 : WF c (fst (purge_block c s k orc))) by (apply WF_purge_block; assumption).
  assert (Hqs : c_alg c = MRU -> ~ In k (queue (fst (purge_block c s k orc)))).
  { intros HaM Hin. apply (Hm HaM). eapply purge_block_queue_sub; eauto. }
  destruct (c_alg c) eqn:Ha; try exact Hwf;
    destruct (purge_block c s k orc) as [s1 r]; simp; destruct r; simp;
      try exact Hs1; apply WF_post; try exact Hs1; rewrite Ha; try discriminate; exact Hqs.
Qed.
