(* C06: evictions follow the advertised policy (LRU / MRU / LFU / RR). *)
From Klepto Require Import OMap OMapFacts CacheDict CacheDictFacts CacheCore LruFacts LfuFacts CoreInv CoreStep CoreSize CoreExn.
From Coq Require Import Lia.

(* ---------------------------------------------------------------- frames *)
(* a hit never removes (or adds) anything *)
Theorem hit_frame c s k fr orc v : get (smem s) k = Some v ->
  smem (fst (call_cached c s k fr orc)) = smem s /\ snd (call_cached c s k fr orc) = ORet v 0.
Proof.
  intros Hg. unfold call_cached. rewrite Hg. cbn [fst snd]. rewrite post_smem, smem_hit1. split; [|reflexivity].
  unfold touch_hit. destruct (c_alg c); reflexivity.
Qed.

(* no overflow: nothing is removed *)
Theorem no_overflow_frame c s k orc : size (smem s) <= c_max c -> purge_block c s k orc = (s, EvOk).
Proof.
  intros H. unfold purge_block. assert (Z.gtb (size (smem s)) (c_max c) = false) as ->; [|reflexivity].
  rewrite Z.gtb_ltb. apply Z.ltb_ge. lia.
Qed.

Lemma queue_w_refc x r : queue (w_refc x r) = queue x. Proof. reflexivity. Qed.
Lemma queue_w_mem x m : queue (w_mem x m) = queue x. Proof. reflexivity. Qed.
Lemma queue_w_queue x q : queue (w_queue x q) = q. Proof. reflexivity. Qed.
Lemma queue_maybe_dump c s ks (b : bool) : queue (if b then dump_ c s ks else s) = queue s.
Proof. destruct b; [apply dump_book|reflexivity]. Qed.

(* ---------------------------------------------------------------- LRU *)
Lemma dedup_last_drop_prefix pre rest : (forall x, In x pre -> In x rest) -> dedup_last (pre ++ rest) = dedup_last rest.
Proof.
  induction pre as [|a p IH]; intros H; cbn [app dedup_last]; [reflexivity|].
  destruct (in_dec Z.eq_dec a (p ++ rest)) as [i|n].
  - apply IH. intros x Hx. apply H. now right.
  - exfalso. apply n. apply in_or_app. right. apply H. now left.
Qed.

(* the pop-until-zero loop evicts exactly the head of the recency list, and what remains of the
   queue represents the tail of the recency list *)
Theorem lru_evict_is_lru q rc : counts rc q -> q <> [] ->
  exists v q' rc', lru_evict q rc = (Some v, q', rc') /\
    dedup_last q = v :: dedup_last q' /\ counts rc' q' /\ occ v q' = 0.
Proof.
  intros Hc Hne. destruct (lru_evict_spec q rc Hc Hne) as (v & q' & rc' & pre & He & Hq & Ho & Hc' & Hpre).
  exists v, q', rc'. repeat split; try assumption.
  rewrite Hq. rewrite dedup_last_drop_prefix.
  - cbn [dedup_last]. destruct (in_dec Z.eq_dec v q') as [i|n]; [|reflexivity].
    apply occ_zero_notin in Ho. tauto.
  - intros x Hx. destruct (Hpre x Hx) as [->|H]; [now left|now right].
Qed.

(* recording a use moves the key to the most-recent end of the recency list *)
Lemma dedup_last_app_single q k : dedup_last (q ++ [k]) = List.remove Z.eq_dec k (dedup_last q) ++ [k].
Proof.
  induction q as [|a r IH]; cbn [app dedup_last List.remove]; [reflexivity|].
  destruct (in_dec Z.eq_dec a (r ++ [k])) as [i|n]; destruct (in_dec Z.eq_dec a r) as [i2|n2].
  - exact IH.
  - apply in_app_or in i. destruct i as [i|[Hk|[]]]; [tauto|]. subst a.
    cbn [List.remove]. destruct (Z.eq_dec k k); [exact IH|congruence].
  - exfalso. apply n. apply in_or_app. now left.
  - cbn [List.remove]. destruct (Z.eq_dec k a) as [->|Hne].
    + exfalso. apply n. apply in_or_app. right. now left.
    + cbn [app]. now rewrite IH.
Qed.

Lemma dedup_last_idem q : dedup_last (dedup_last q) = dedup_last q.
Proof. apply dedup_last_nodup. apply NoDup_dedup_last. Qed.

(* the periodic compaction does not change the recency list *)
Theorem compaction_keeps_recency q : dedup_last (fst (compact q)) = dedup_last q.
Proof.
  pose proof (compact_spec q) as H. destruct (compact q) as [q' rc']. destruct H as (-> & _). apply dedup_last_idem.
Qed.

(* eviction step of the LRU wrapper: exactly the least recently used entry leaves memory *)
Theorem evict_lru c s k orc : c_alg c = LRU -> WF c s -> queue s <> [] ->
  exists v q', dedup_last (queue s) = v :: dedup_last q' /\
    smem (fst (evict c s k orc)) = del (smem s) v /\ queue (fst (evict c s k orc)) = q' /\
    snd (evict c s k orc) = EvOk.
Proof.
  intros Ha [H1 H2] Hq. unfold book_inv in H2. rewrite Ha in H2. destruct H2 as [Hc Hres].
  destruct (lru_evict_is_lru (queue s) (refc s) Hc Hq) as (v & q' & rc' & He & Hd & _).
  exists v, q'. unfold evict. rewrite Ha, He. cbn [fst snd].
  rewrite smem_w_refc, smem_w_mem, maybe_dump_smem, smem_w_refc, smem_w_queue.
  repeat split; try assumption.
  now rewrite queue_w_refc, queue_w_mem, queue_maybe_dump, queue_w_refc, queue_w_queue.
Qed.

(* ---------------------------------------------------------------- MRU *)
(* the mru queue is the recency list itself (no duplicates, hit moves to the end); its last element
   is the entry used most recently before the current call, and exactly it leaves memory *)
Theorem evict_mru c s k orc q' v : c_alg c = MRU -> queue s = q' ++ [v] ->
  smem (fst (evict c s k orc)) = del (smem s) v /\ queue (fst (evict c s k orc)) = q'.
Proof.
  intros Ha Hq. unfold evict. rewrite Ha. unfold pop_right. rewrite Hq, rev_unit. cbn [fst]. rewrite rev_involutive.
  rewrite smem_w_mem, maybe_dump_smem, smem_w_queue. split; [reflexivity|].
  now rewrite queue_w_mem, queue_maybe_dump, queue_w_queue.
Qed.

Theorem mru_hit_moves_to_end c s k : c_alg c = MRU -> WF c s -> resident s k ->
  queue (post c (hit1 (touch_hit c s k)) k) = remove_first k (queue s) ++ [k].
Proof.
  intros Ha _ Hk. unfold post, touch_hit. rewrite Ha.
  assert (E : smem (hit1 (w_queue s (remove_first k (queue s)))) = smem s) by reflexivity.
  rewrite E. apply mem_key_true in Hk. rewrite Hk. reflexivity.
Qed.

(* ---------------------------------------------------------------- RR *)
Theorem evict_rr c s k orc : c_alg c = RR -> smem (fst (evict c s k orc)) = del (smem s) orc.
Proof. intros Ha. unfold evict. rewrite Ha. cbn [fst]. now rewrite smem_w_mem, maybe_dump_smem. Qed.

(* ---------------------------------------------------------------- LFU *)
Lemma lfu_fold_smem c vs s : smem (fold_left (lfu_evict1 c) vs s) = fold_left del vs (smem s).
Proof.
  revert s. induction vs as [|v r IH]; intros s; cbn [fold_left]; [reflexivity|]. now rewrite IH, lfu_evict1_smem.
Qed.

Lemma fold_del_get vs m x : get (fold_left del vs m) x = if in_dec Z.eq_dec x vs then None else get m x.
Proof.
  revert m. induction vs as [|v r IH]; intros m; cbn [fold_left].
  - destruct (in_dec Z.eq_dec x []) as [[]|]; reflexivity.
  - rewrite IH. destruct (in_dec Z.eq_dec x r) as [i|n]; destruct (in_dec Z.eq_dec x (v :: r)) as [i2|n2]; cbn [In] in *.
    + reflexivity.
    + exfalso; tauto.
    + destruct i2 as [->|]; [apply get_del_same|tauto].
    + apply get_del_other. intro; subst; tauto.
Qed.

(* exactly the victims leave memory; every victim's use count is no greater than the use count
   of every entry whose counter survives *)
Theorem evict_lfu c s k orc : c_alg c = LFU ->
  let vs := lfu_victims (lfu_n (c_max c)) (usec s) in
  (forall x, get (smem (fst (evict c s k orc))) x = if in_dec Z.eq_dec x vs then None else get (smem s) x) /\
  (forall v nv ks ns, In (v, nv) (firstn (lfu_n (c_max c)) (sort_by_count (usec s))) ->
                      In (ks, ns) (skipn (lfu_n (c_max c)) (sort_by_count (usec s))) -> nv <= ns) /\
  vs = map fst (firstn (lfu_n (c_max c)) (sort_by_count (usec s))).
Proof.
  intros Ha. cbv zeta. split; [|split; [|reflexivity]].
  - intros x. unfold evict. rewrite Ha. cbn [fst]. rewrite lfu_fold_smem. apply fold_del_get.
  - intros v nv ks ns H1 H2. exact (victims_le_survivors _ _ _ _ H1 H2).
Qed.

(* the use counter of a key counts its calls since it entered the cache *)
Theorem lfu_counts_uses c s k : c_alg c = LFU ->
  cnt_get (usec (touch_new c s k)) k = cnt_get (usec s) k + 1 /\
  cnt_get (usec (touch_hit c s k)) k = cnt_get (usec s) k + 1 /\
  (forall x, x <> k -> cnt_get (usec (touch_hit c s k)) x = cnt_get (usec s) x).
Proof.
  intros Ha. unfold touch_new, touch_hit. rewrite Ha. cbn [usec w_usec].
  repeat split; [apply cnt_get_add_same|apply cnt_get_add_same|]. intros x Hx. apply cnt_get_add_other. congruence.
Qed.

(* ---------------------------------------------------------------- LRU refinement to a recency list *)
(* the ideal LRU cache: the resident map and the recency list (least recently used first) *)
Definition ideal_lru_call (maxsize : Z) (m : omap) (order : list key) (k : key) (v : val) : omap * list key :=
  match get m k with
  | Some _ => (m, List.remove Z.eq_dec k order ++ [k])
  | None =>
      let m1 := set m k v in
      let o1 := order ++ [k] in
      if Z.gtb (size m1) maxsize then
        match o1 with w :: o' => (del m1 w, o') | [] => (m1, o1) end
      else (m1, o1)
  end.

Definition abs_lru (s : state) : omap * list key := (smem s, dedup_last (queue s)).

(* every resident entry has a recorded use (true for every history made of calls only) *)
Definition tracked (s : state) : Prop := forall k, resident s k -> In k (queue s).

Lemma remove_notin (l : list key) k : ~ In k l -> List.remove Z.eq_dec k l = l.
Proof. intros H. apply notin_remove. exact H. Qed.

Lemma lru_compact_abs c s : abs_lru (lru_compact c s) = abs_lru s.
Proof.
  unfold lru_compact, abs_lru. destruct (Z.gtb _ _); [|reflexivity].
  pose proof (compaction_keeps_recency (queue s)) as H. destruct (compact (queue s)) as [q' rc']. cbn [fst] in H.
  rewrite smem_w_refc, smem_w_queue. cbn [queue w_refc w_queue]. now rewrite H.
Qed.

Lemma lru_compact_tracked c s : tracked s -> tracked (lru_compact c s).
Proof.
  unfold lru_compact. destruct (Z.gtb _ _); [|tauto].
  pose proof (compact_spec (queue s)) as H. destruct (compact (queue s)) as [q' rc']. destruct H as (-> & _).
  intros Ht k Hk. cbn [queue w_refc w_queue]. apply in_dedup_last. apply Ht. exact Hk.
Qed.

(* one call of the real LRU wrapper (no archive) = one step of the ideal LRU cache, for every
   state reachable by calls; in particular through arbitrarily many queue compactions *)
Theorem lru_refines_ideal c s k v orc : c_alg c = LRU -> archived_ c s = false -> WF c s -> tracked s ->
  let s' := fst (call_cached c s k (Ret v) orc) in
  abs_lru s' = ideal_lru_call (c_max c) (smem s) (dedup_last (queue s)) k v /\ tracked s' /\ WF c s'.
Proof.
  intros Ha Har Hwf Ht. cbv zeta. split; [|split; [|now apply WF_call_cached]].
  - unfold call_cached, ideal_lru_call. destruct (get (smem s) k) as [v0|] eqn:Hg.
    + cbn [fst]. unfold post. rewrite Ha. rewrite lru_compact_abs. unfold abs_lru, touch_hit. rewrite Ha.
      cbn [smem cs hit1 w_refc w_queue queue]. now rewrite dedup_last_app_single.
    + rewrite Har, Hg. unfold finish. rewrite Ha.
      set (s2 := miss1 (touch_new c (w_mem s (set (smem s) k v)) k)).
      assert (Hs2 : smem s2 = set (smem s) k v /\ queue s2 = queue s ++ [k]).
      { subst s2. unfold touch_new. rewrite Ha. split; reflexivity. }
      destruct Hs2 as [Hm2 Hq2].
      assert (Hnk : ~ In k (queue s)).
      { destruct Hwf as [_ H2]. unfold book_inv in H2. rewrite Ha in H2. destruct H2 as [_ Hres].
        intros Hin. apply Hres in Hin. apply get_none_not_in in Hg. tauto. }
      assert (Hdd : dedup_last (queue s ++ [k]) = dedup_last (queue s) ++ [k]).
      { rewrite dedup_last_app_single. f_equal. apply remove_notin. now rewrite in_dedup_last. }
      unfold purge_block. rewrite Hm2.
      destruct (Z.gtb (size (set (smem s) k v)) (c_max c)) eqn:Egt.
      * assert (Har2 : archived_ c s2 = false).
        { rewrite <- Har. apply archived_arch. subst s2. cbn [cs miss1].
          now destruct (touch_new_frame c (w_mem s (set (smem s) k v)) k) as (-> & _). }
        rewrite Har2. cbn [andb].
        assert (Hw2 : WF c s2).
        { destruct (WF_set_mem c s k v Hwf) as [W1 W2]. apply (stat_frame_WF c _ (WF_touch c _ k W1 W2)). }
        assert (Hq2ne : queue s2 <> []) by (rewrite Hq2; destruct (queue s); discriminate).
        destruct (evict_lru c s2 k orc Ha Hw2 Hq2ne) as (w & q' & Hd & Hsm & Hqq & Hok).
        destruct (evict c s2 k orc) as [s3 r] eqn:Eev. cbn [fst snd] in *. subst r. cbn [fst].
        unfold post. rewrite Ha, lru_compact_abs. unfold abs_lru. rewrite Hsm, Hqq, Hm2.
        rewrite Hq2, Hdd in Hd.
        destruct (dedup_last (queue s) ++ [k]) as [|w0 o'] eqn:Eo.
        -- destruct (dedup_last (queue s)); discriminate.
        -- inversion Hd; subst. reflexivity.
      * cbn [fst]. unfold post. rewrite Ha, lru_compact_abs. unfold abs_lru. now rewrite Hm2, Hq2, Hdd.
  - (* tracked is preserved *)
    unfold call_cached. destruct (get (smem s) k) as [v0|] eqn:Hg.
    + cbn [fst]. unfold post. rewrite Ha. apply lru_compact_tracked. unfold touch_hit. rewrite Ha.
      intros x Hx. cbn [queue hit1 w_refc w_queue]. apply in_or_app. left. apply Ht. exact Hx.
    + rewrite Har, Hg. unfold finish. rewrite Ha.
      set (s2 := miss1 (touch_new c (w_mem s (set (smem s) k v)) k)).
      assert (Hs2 : smem s2 = set (smem s) k v /\ queue s2 = queue s ++ [k]).
      { subst s2. unfold touch_new. rewrite Ha. split; reflexivity. }
      destruct Hs2 as [Hm2 Hq2].
      assert (Ht2 : tracked s2).
      { intros x Hx. unfold resident in Hx. rewrite Hm2 in Hx. apply in_keys_set in Hx. rewrite Hq2. apply in_or_app.
        destruct Hx as [->|Hx]; [right; now left|left; now apply Ht]. }
      unfold purge_block. destruct (Z.gtb (size (smem s2)) (c_max c)) eqn:Egt.
      * assert (Har2 : archived_ c s2 = false).
        { rewrite <- Har. apply archived_arch. subst s2. cbn [cs miss1].
          now destruct (touch_new_frame c (w_mem s (set (smem s) k v)) k) as (-> & _). }
        rewrite Har2. cbn [andb].
        assert (Hw2 : WF c s2).
        { destruct (WF_set_mem c s k v Hwf) as [W1 W2]. apply (stat_frame_WF c _ (WF_touch c _ k W1 W2)). }
        assert (Hq2ne : queue s2 <> []) by (rewrite Hq2; destruct (queue s); discriminate).
        destruct (evict_lru c s2 k orc Ha Hw2 Hq2ne) as (w & q' & Hd & Hsm & Hqq & Hok).
        destruct (evict c s2 k orc) as [s3 r] eqn:Eev. cbn [fst snd] in *. subst r. cbn [fst].
        unfold post. rewrite Ha. apply lru_compact_tracked.
        intros x Hx. unfold resident in Hx. rewrite Hsm in Hx. apply in_keys_del in Hx. destruct Hx as [Hne Hx].
        rewrite Hqq. apply (in_dedup_last q' x).
        assert (Hin : In x (dedup_last (queue s2))) by (apply in_dedup_last; now apply Ht2).
        rewrite Hd in Hin. destruct Hin as [->|Hin]; [congruence|exact Hin].
      * cbn [fst]. unfold post. rewrite Ha. now apply lru_compact_tracked.
Qed.
