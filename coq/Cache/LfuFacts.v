(* LFU machinery: nsmallest(n, use_count.items(), key=count) as a stable insertion sort + firstn. *)
From Klepto Require Import OMap OMapFacts CacheDict CacheCore.
From Coq Require Import Lia Sorting.Permutation.

Definition le_cnt (x y : key * Z) : Prop := snd x <= snd y.

Inductive sorted_cnt : list (key * Z) -> Prop :=
| sc_nil : sorted_cnt []
| sc_cons x l : (forall y, In y l -> le_cnt x y) -> sorted_cnt l -> sorted_cnt (x :: l).

Lemma ins_sorted_perm x l : Permutation (ins_sorted x l) (x :: l).
Proof.
  induction l as [|y r IH]; cbn [ins_sorted]; [apply Permutation_refl|].
  destruct (Z.ltb (snd x) (snd y)); [apply Permutation_refl|].
  eapply perm_trans; [apply perm_skip, IH|apply perm_swap].
Qed.

Lemma ins_sorted_sorted x l : sorted_cnt l -> sorted_cnt (ins_sorted x l).
Proof.
  induction l as [|y r IH]; intros Hs; cbn [ins_sorted].
  - constructor; [intros ? []|constructor].
  - inversion Hs as [|y' r' Hy Hr]; subst.
    destruct (Z.ltb (snd x) (snd y)) eqn:E.
    + apply Z.ltb_lt in E. constructor; [|exact Hs].
      intros z [<-|Hz]; unfold le_cnt; [lia|]. specialize (Hy z Hz). unfold le_cnt in Hy. lia.
    + apply Z.ltb_ge in E. constructor; [|now apply IH].
      intros z Hz. apply (Permutation_in _ (ins_sorted_perm x r)) in Hz.
      destruct Hz as [<-|Hz]; [exact E|now apply Hy].
Qed.

Lemma sort_aux_perm l acc : Permutation (fold_left (fun acc x => ins_sorted x acc) l acc) (acc ++ l).
Proof.
  revert acc. induction l as [|x r IH]; intros acc; cbn [fold_left].
  - rewrite app_nil_r. apply Permutation_refl.
  - eapply perm_trans; [apply IH|].
    eapply perm_trans; [apply Permutation_app_tail, ins_sorted_perm|].
    cbn [app]. apply Permutation_middle.
Qed.

Lemma sort_aux_sorted l acc : sorted_cnt acc -> sorted_cnt (fold_left (fun acc x => ins_sorted x acc) l acc).
Proof.
  revert acc. induction l as [|x r IH]; intros acc H; cbn [fold_left]; [exact H|].
  apply IH. now apply ins_sorted_sorted.
Qed.

Lemma sort_by_count_perm l : Permutation (sort_by_count l) l.
Proof. unfold sort_by_count. apply (sort_aux_perm l []). Qed.

Lemma sort_by_count_sorted l : sorted_cnt (sort_by_count l).
Proof. unfold sort_by_count. apply sort_aux_sorted. constructor. Qed.

Lemma in_firstn_in {A} n (l : list A) x : In x (firstn n l) -> In x l.
Proof.
  revert l. induction n as [|n IH]; intros l H; [destruct H|].
  destruct l as [|a r]; [destruct H|]. cbn [firstn] in H. destruct H as [<-|H]; [now left|right; now apply IH].
Qed.

Lemma in_skipn_in {A} n (l : list A) x : In x (skipn n l) -> In x l.
Proof.
  revert l. induction n as [|n IH]; intros l H; [exact H|].
  destruct l as [|a r]; [destruct H|]. cbn [skipn] in H. right; now apply IH.
Qed.

Lemma sorted_firstn_skipn n l : sorted_cnt l ->
  forall x y, In x (firstn n l) -> In y (skipn n l) -> le_cnt x y.
Proof.
  revert l. induction n as [|n IH]; intros l Hs x y Hx Hy; [destruct Hx|].
  destruct l as [|a r]; [destruct Hx|]. cbn [firstn skipn] in *.
  inversion Hs as [|a' r' Ha Hr]; subst.
  destruct Hx as [<-|Hx].
  - apply Ha. eapply in_skipn_in. exact Hy.
  - now apply (IH r).
Qed.

(* every victim is counted no more than every key that keeps its counter *)
Lemma victims_le_survivors n (u : omap) kv ks :
  In kv (firstn n (sort_by_count u)) -> In ks (skipn n (sort_by_count u)) -> snd kv <= snd ks.
Proof. intros H1 H2. exact (sorted_firstn_skipn n _ (sort_by_count_sorted u) kv ks H1 H2). Qed.

Lemma in_victims n u k : In k (lfu_victims n u) -> In k (keys u).
Proof.
  unfold lfu_victims, keys. rewrite !in_map_iff. intros ((k', c) & <- & Hin).
  exists (k', c). split; [reflexivity|].
  apply (Permutation_in _ (sort_by_count_perm u)). eapply in_firstn_in. exact Hin.
Qed.

Lemma victims_nonempty n u : (1 <= n)%nat -> u <> [] -> lfu_victims n u <> [].
Proof.
  intros Hn Hu. unfold lfu_victims.
  pose proof (Permutation_length (sort_by_count_perm u)) as Hl.
  destruct (sort_by_count u) as [|a r]; [destruct u; cbn in Hl; [congruence|lia]|].
  destruct n; [lia|]. cbn. discriminate.
Qed.

Lemma NoDup_victims n u : NoDup (keys u) -> NoDup (lfu_victims n u).
Proof.
  intros H. unfold lfu_victims.
  assert (Hs : NoDup (map fst (sort_by_count u))).
  { eapply Permutation_NoDup; [|exact H]. apply Permutation_map. apply Permutation_sym, sort_by_count_perm. }
  revert Hs. generalize (sort_by_count u). intros l. revert n. induction l as [|a r IH]; intros n Hs.
  - destruct n; constructor.
  - destruct n; cbn [firstn map]; [constructor|]. inversion Hs; subst. constructor; [|now apply IH].
    intros Hin. apply in_map_iff in Hin. destruct Hin as (b & Hb & Hin).
    match goal with Hn : ~ In _ _ |- _ => apply Hn end.
    apply in_map_iff. exists b. split; [exact Hb|]. eapply in_firstn_in; eauto.
Qed.

Lemma lfu_n_pos m : (1 <= lfu_n m)%nat.
Proof. unfold lfu_n. lia. Qed.
