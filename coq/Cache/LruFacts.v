(* LRU machinery: the pop-until-zero eviction loop and the queue compaction (_cache.py:768-786). *)
From Klepto Require Import OMap OMapFacts CacheDict CacheCore.
From Coq Require Import Lia.

(* number of occurrences, in Z *)
Fixpoint occ (k : key) (q : list key) : Z :=
  match q with
  | [] => 0
  | x :: r => (if Z.eqb x k then 1 else 0) + occ k r
  end.

Lemma occ_nonneg k q : 0 <= occ k q.
Proof. induction q as [|x r IH]; cbn [occ]; [lia|]. destruct (Z.eqb x k); lia. Qed.

Lemma occ_app k a b : occ k (a ++ b) = occ k a + occ k b.
Proof. induction a as [|x r IH]; cbn [occ app]; [lia|]. rewrite IH. lia. Qed.

Lemma occ_zero_notin k q : occ k q = 0 <-> ~ In k q.
Proof.
  induction q as [|x r IH]; cbn [occ In]; [tauto|].
  pose proof (occ_nonneg k r). destruct (Z.eqb x k) eqn:E.
  - apply Z.eqb_eq in E. split; [lia|]. intros H1. exfalso. apply H1. now left.
  - assert (x <> k) by (intro; subst; rewrite Z.eqb_refl in E; discriminate).
    rewrite Z.add_0_l, IH. tauto.
Qed.

Lemma occ_pos_in k q : 0 < occ k q <-> In k q.
Proof.
  pose proof (occ_nonneg k q). pose proof (occ_zero_notin k q) as Hz.
  split.
  - intros Hp. destruct (in_dec Z.eq_dec k q) as [i|n]; [exact i|]. apply Hz in n. lia.
  - intros Hin. destruct (Z.eq_dec (occ k q) 0) as [e|n]; [apply Hz in e; tauto|lia].
Qed.

Lemma occ_nodup k q : NoDup q -> occ k q = if in_dec Z.eq_dec k q then 1 else 0.
Proof.
  intros Hnd. destruct (in_dec Z.eq_dec k q) as [i|n].
  - induction q as [|x r IH]; [destruct i|]. inversion Hnd as [|a l Ha Hl]; subst. cbn [occ].
    destruct (Z.eqb x k) eqn:E.
    + apply Z.eqb_eq in E; subst x. assert (occ k r = 0) as -> by (now apply occ_zero_notin). lia.
    + assert (x <> k) by (intro; subst; rewrite Z.eqb_refl in E; discriminate).
      destruct i as [|i]; [congruence|]. rewrite (IH Hl i). lia.
  - now apply occ_zero_notin.
Qed.

(* the bookkeeping invariant: refcount = number of occurrences in the queue *)
Definition counts (rc : omap) (q : list key) : Prop := forall k, cnt_get rc k = occ k q.

Lemma counts_append rc q k : counts rc q -> counts (cnt_add rc k 1) (q ++ [k]).
Proof.
  intros H k'. rewrite occ_app. cbn [occ]. destruct (Z.eq_dec k k') as [->|Hne].
  - rewrite cnt_get_add_same, Z.eqb_refl, H. lia.
  - rewrite cnt_get_add_other by exact Hne. rewrite H.
    destruct (Z.eqb k k') eqn:E; [apply Z.eqb_eq in E; congruence|lia].
Qed.

(* ---------------------------------------------------------------- eviction loop *)
Lemma lru_evict_spec q rc : counts rc q -> q <> [] ->
  exists v q' rc' pre,
    lru_evict q rc = (Some v, q', rc') /\ q = pre ++ v :: q' /\ occ v q' = 0 /\
    counts rc' q' /\ (forall x, In x pre -> x = v \/ In x q').
Proof.
  revert rc. induction q as [|x r IH]; intros rc Hc Hne; [congruence|].
  cbn [lru_evict].
  assert (Hx : cnt_get (cnt_add rc x (-1)) x = occ x r).
  { rewrite cnt_get_add_same, Hc. cbn [occ]. rewrite Z.eqb_refl. lia. }
  assert (Hc' : counts (cnt_add rc x (-1)) r).
  { intros k. destruct (Z.eq_dec x k) as [->|Hn]; [exact Hx|].
    rewrite cnt_get_add_other by exact Hn. rewrite Hc. cbn [occ].
    destruct (Z.eqb x k) eqn:E; [apply Z.eqb_eq in E; congruence|lia]. }
  destruct (Z.eqb (cnt_get (cnt_add rc x (-1)) x) 0) eqn:E.
  - apply Z.eqb_eq in E. exists x, r, (cnt_add rc x (-1)), [].
    repeat split; try assumption; try reflexivity.
    + now rewrite <- Hx.
    + intros y [].
  - apply Z.eqb_neq in E. rewrite Hx in E.
    assert (Hr : r <> []) by (intro; subst; cbn in E; lia).
    destruct (IH _ Hc' Hr) as (v & q' & rc' & pre & He & Hq & Ho & Hcc & Hpre).
    exists v, q', rc', (x :: pre). rewrite He. repeat split; try assumption.
    + cbn [app]. now rewrite Hq.
    + intros y [<-|Hy]; [|now apply Hpre].
      assert (Hin : In x r) by (apply occ_pos_in; pose proof (occ_nonneg x r); lia).
      rewrite Hq in Hin. apply in_app_or in Hin. destruct Hin as [Hin|[->|Hin]]; auto.
Qed.

Lemma lru_evict_none_iff q rc : counts rc q -> q <> [] ->
  fst (fst (lru_evict q rc)) <> None.
Proof.
  intros Hc Hne. destruct (lru_evict_spec q rc Hc Hne) as (v & q' & rc' & pre & He & _).
  rewrite He. discriminate.
Qed.

(* ---------------------------------------------------------------- compaction *)
(* keep the LAST occurrence of every key, preserving the order of last use *)
Fixpoint dedup_last (q : list key) : list key :=
  match q with
  | [] => []
  | x :: r => if in_dec Z.eq_dec x r then dedup_last r else x :: dedup_last r
  end.

Lemma in_dedup_last q k : In k (dedup_last q) <-> In k q.
Proof.
  induction q as [|x r IH]; cbn [dedup_last In]; [tauto|].
  destruct (in_dec Z.eq_dec x r) as [i|n]; cbn [In]; rewrite IH; [|tauto].
  split; [tauto|]. intros [->|]; assumption.
Qed.

Lemma NoDup_dedup_last q : NoDup (dedup_last q).
Proof.
  induction q as [|x r IH]; cbn [dedup_last]; [constructor|].
  destruct (in_dec Z.eq_dec x r); [exact IH|]. constructor; [|exact IH]. now rewrite in_dedup_last.
Qed.

Lemma dedup_last_nodup q : NoDup q -> dedup_last q = q.
Proof.
  induction q as [|x r IH]; intros H; cbn [dedup_last]; [reflexivity|].
  inversion H; subst. destruct (in_dec Z.eq_dec x r); [tauto|]. f_equal. now apply IH.
Qed.

(* acc holds the already-compacted suffix; rq the remaining prefix, reversed *)
Definition ones (rc : omap) (acc : list key) : Prop :=
  forall k, (In k acc -> get rc k = Some 1) /\ (~ In k acc -> get rc k = None).

Lemma compact_aux_spec rq : forall acc rc, ones rc acc -> NoDup acc ->
  let '(q', rc') := compact_aux rq acc rc in
  q' = dedup_last (rev rq ++ acc) /\ ones rc' q' /\ NoDup q'.
Proof.
  induction rq as [|x r IH]; intros acc rc Ho Hnd; cbn [compact_aux rev app].
  - rewrite (dedup_last_nodup acc Hnd). auto.
  - unfold mem_key. destruct (in_dec Z.eq_dec x acc) as [i|n].
    + destruct (Ho x) as [H1 _]. rewrite (H1 i).
      specialize (IH acc rc Ho Hnd). destruct (compact_aux r acc rc) as [q' rc'].
      destruct IH as (E & H2 & H3). split; [|split; assumption].
      rewrite E, <- app_assoc. cbn [app].
      clear - i. induction (rev r) as [|y l IHl]; cbn [app dedup_last].
      * destruct (in_dec Z.eq_dec x acc); [reflexivity|tauto].
      * rewrite IHl. destruct (in_dec Z.eq_dec y (l ++ acc)) as [i1|n1];
          destruct (in_dec Z.eq_dec y (l ++ x :: acc)) as [i2|n2]; try reflexivity.
        -- exfalso; apply n2. apply in_app_or in i1. apply in_or_app. cbn [In]. tauto.
        -- exfalso; apply n1. apply in_app_or in i2. apply in_or_app. cbn [In] in i2.
           destruct i2 as [?|[<-|?]]; auto.
    + destruct (Ho x) as [_ H1]. rewrite (H1 n).
      assert (Ho' : ones (set rc x 1) (x :: acc)).
      { intros k. split.
        - intros [<-|Hk]; [apply get_set_same|].
          rewrite get_set_other by (intro; subst; tauto). now apply Ho.
        - intros Hk. rewrite get_set_other by (intro; subst; apply Hk; now left).
          apply Ho. intro; apply Hk; now right. }
      assert (Hnd' : NoDup (x :: acc)) by (constructor; assumption).
      specialize (IH (x :: acc) (set rc x 1) Ho' Hnd'). destruct (compact_aux r (x :: acc) (set rc x 1)) as [q' rc'].
      destruct IH as (E & H2 & H3). split; [|split; assumption].
      now rewrite E, <- app_assoc.
Qed.

Lemma compact_spec q :
  let '(q', rc') := compact q in
  q' = dedup_last q /\ counts rc' q' /\ NoDup q'.
Proof.
  unfold compact.
  assert (Ho : ones [] []) by (intros k; split; [intros []|reflexivity]).
  pose proof (compact_aux_spec (rev q) [] [] Ho (NoDup_nil _)) as H.
  destruct (compact_aux (rev q) [] []) as [q' rc']. destruct H as (E & H2 & H3).
  rewrite rev_involutive, app_nil_r in E. split; [exact E|split; [|exact H3]].
  intros k. rewrite (occ_nodup k q' H3). unfold cnt_get.
  destruct (in_dec Z.eq_dec k q') as [i|n]; destruct (H2 k) as [A B].
  - now rewrite (A i).
  - now rewrite (B n).
Qed.
