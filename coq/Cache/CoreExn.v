(* C16 (exceptions pass through untouched; safe caches degrade to evaluation),
   C15 (statistics) and C18 (introspection) on the model M3. *)
From Klepto Require Import OMap OMapFacts CacheDict CacheDictFacts CacheCore LruFacts LfuFacts CoreInv CoreStep CoreSize.
From Coq Require Import Lia.

Lemma state_eta s : mkS (cs s) (queue s) (refc s) (usec s) (hits s) (misses s) (loads s) = s.
Proof. now destruct s. Qed.
Lemma cstate_eta c : mkC (mem c) (arch c) (swp c) = c.
Proof. now destruct c. Qed.

(* a single-key load that does not find the key leaves the state identical *)
Lemma load_miss_identity c s k :
  let s1 := if archived_ c s then load_ c s [k] else s in
  get (smem s) k = None -> get (smem s1) k = None -> s1 = s.
Proof.
  cbv zeta. destruct (archived_ c s); [|reflexivity]. unfold load_. destruct (c_direct c); [reflexivity|].
  unfold smem. cbn [cs w_cs c_load fold_left]. unfold c_load1.
  destruct (a_get (arch (cs s)) k) as [v|].
  - cbn [mem c_with_mem]. rewrite get_set_same. discriminate.
  - intros _ _. unfold w_cs. apply state_eta.
Qed.

(* ---------------------------------------------------------------- C16 *)
(* the wrapped function raises: whatever the configuration, key outcome and state, either a
   stored result is returned without evaluating, or the state is EXACTLY the state before
   (memory, archive, parked archive, queue, refcounts, use counts, statistics) *)
Theorem raise_is_identity c s kr orc :
  match snd (call c s kr Raise orc) with
  | ORaise EUser ev => ev = 1 /\ fst (call c s kr Raise orc) = s
  | ORaise ETypeError ev => ev = 0 /\ fst (call c s kr Raise orc) = s /\ c_safe c = false
  | ORet _ ev => ev = 0
  | ORaise EIndexError ev => ev = 0
  | _ => False
  end.
Proof.
  unfold call. destruct kr as [k| |].
  - assert (Hc : match snd (call_cached c s k Raise orc) with
                 | ORaise EUser ev => ev = 1 /\ fst (call_cached c s k Raise orc) = s
                 | ORet _ ev => ev = 0
                 | ORaise EIndexError ev => ev = 0
                 | _ => False end).
    { unfold call_cached. destruct (get (smem s) k) as [v|] eqn:Hg; [cbn [snd]; reflexivity|].
      destruct (get (smem (if archived_ c s then load_ c s [k] else s)) k) as [v|] eqn:Hg1.
      - unfold finish. destruct (c_alg c); cbn [snd]; try reflexivity;
          destruct (purge_block c _ k orc) as [s1 r]; destruct r; cbn [snd]; reflexivity.
      - cbn [fst snd]. split; [reflexivity|]. now apply (load_miss_identity c s k). }
    assert (Hn : match snd (call_no c s k Raise) with
                 | ORaise EUser ev => ev = 1 /\ fst (call_no c s k Raise) = s
                 | ORet _ ev => ev = 0
                 | _ => False end).
    { unfold call_no. destruct (get (smem (if archived_ c s then load_ c s [k] else s)) k) as [v|] eqn:Hg1;
        [cbn [snd]; reflexivity|].
      cbn [fst snd]. split; [reflexivity|].
      destruct (get (smem s) k) as [v0|] eqn:Hg; [|now apply (load_miss_identity c s k)].
      exfalso. revert Hg1. destruct (archived_ c s); [|congruence]. unfold load_. destruct (c_direct c); [congruence|].
      unfold smem in *. cbn [cs w_cs c_load fold_left]. unfold c_load1.
      destruct (a_get (arch (cs s)) k); cbn [mem c_with_mem]; [rewrite get_set_same|]; congruence. }
    destruct (c_alg c).
    1: { destruct (snd (call_no c s k Raise)) as [| e ? | | | | |]; try exact Hn; try (exfalso; exact Hn).
         destruct e; try exact Hn; exfalso; exact Hn. }
    all: destruct (snd (call_cached c s k Raise orc)) as [| e ? | | | | |]; try exact Hc; try (exfalso; exact Hc);
         destruct e; try exact Hc; exfalso; exact Hc.
  - destruct (c_safe c) eqn:Hs; cbn [fst snd fallback]; auto.
  - destruct (c_safe c) eqn:Hs; [|cbn [fst snd]; auto]. destruct (c_alg c); cbn [fst snd fallback]; auto.
Qed.

(* the 'safe' decorators never fail because a key cannot be built or hashed: they evaluate the
   function exactly once and return its result *)
Theorem safe_fallback c s kr fr orc : c_safe c = true -> kr <> KOk 0 -> (forall k, kr <> KOk k) ->
  match fr with
  | Ret v => snd (call c s kr fr orc) = ORet v 1
  | Raise => snd (call c s kr fr orc) = ORaise EUser 1 /\ fst (call c s kr fr orc) = s
  end.
Proof.
  intros Hs _ Hk. unfold call. destruct kr as [k| |]; [exfalso; eapply Hk; reflexivity| |]; rewrite Hs.
  - destruct fr; cbn; auto.
  - destruct (c_alg c); destruct fr; cbn; auto.
Qed.

Theorem safe_never_key_error c s kr fr orc ev : c_safe c = true -> snd (call c s kr fr orc) <> ORaise ETypeError ev.
Proof.
  intros Hs. unfold call. destruct kr as [k| |]; rewrite ?Hs.
  - assert (Hc : snd (call_cached c s k fr orc) <> ORaise ETypeError ev).
    { unfold call_cached. destruct (get (smem s) k); [discriminate|].
      destruct (get (smem (if archived_ c s then load_ c s [k] else s)) k).
      - unfold finish. destruct (c_alg c); try discriminate;
          destruct (purge_block c _ k orc) as [s1 r]; destruct r; discriminate.
      - destruct fr; [|discriminate]. unfold finish. destruct (c_alg c); try discriminate;
          destruct (purge_block c _ k orc) as [s1 r]; destruct r; discriminate. }
    destruct (c_alg c); try exact Hc. unfold call_no.
    destruct (get (smem (if archived_ c s then load_ c s [k] else s)) k); [discriminate|]. destruct fr; discriminate.
  - destruct fr; discriminate.
  - destruct (c_alg c); destruct fr; discriminate.
Qed.

(* the standard decorators fail with TypeError before evaluating anything, state untouched *)
Theorem std_key_failure c s kr fr orc : c_safe c = false -> (forall k, kr <> KOk k) ->
  call c s kr fr orc = (s, ORaise ETypeError 0).
Proof.
  intros Hs Hk. unfold call. destruct kr as [k| |]; [exfalso; eapply Hk; reflexivity| |]; now rewrite Hs.
Qed.

(* ---------------------------------------------------------------- C18 *)
Definition is_query (o : op) : bool :=
  match o with Lookup _ | KeyOf _ | Info | Archived None => true | _ => false end.

Theorem query_is_identity c s o : is_query o = true -> fst (step c s o) = s.
Proof.
  destruct o; cbn [is_query]; try discriminate.
  - intros _. cbn [step]. destruct kr; try reflexivity. destruct (get (smem s) k); reflexivity.
  - intros _. cbn [step]. destruct kr; reflexivity.
  - reflexivity.
  - destruct flag; [discriminate|reflexivity].
Qed.

Theorem lookup_spec c s k :
  snd (step c s (Lookup (KOk k))) = match get (smem s) k with Some v => OVal v | None => ORaise EKeyError 0 end.
Proof. cbn. destruct (get (smem s) k); reflexivity. Qed.

Theorem keyof_spec c s k : step c s (KeyOf (KOk k)) = (s, OKey k).
Proof. reflexivity. Qed.

(* erasing every key()/lookup()/info()/archived() from a history changes nothing *)
Theorem queries_erasable c ops s :
  run c s (filter (fun o => negb (is_query o)) ops) = run c s ops.
Proof.
  revert s. induction ops as [|o r IH]; intros s; [reflexivity|].
  cbn [filter]. destruct (is_query o) eqn:E; cbn [negb].
  - unfold run at 2. cbn [fold_left]. rewrite (query_is_identity c s o E). apply IH.
  - unfold run. cbn [fold_left]. apply IH.
Qed.

(* entries keep their value while resident: evictions only delete *)
Lemma purge_block_values c s k orc x v : get (smem (fst (purge_block c s k orc))) x = Some v -> get (smem s) x = Some v.
Proof.
  unfold purge_block. destruct (Z.gtb (size (smem s)) (c_max c)); [|tauto].
  destruct (archived_ c s && c_purge c).
  - cbn [fst]. rewrite clear_book_smem, smem_w_mem. discriminate.
  - unfold evict. destruct (c_alg c); cbn [fst]; try tauto.
    + generalize (lfu_victims (lfu_n (c_max c)) (usec s)). intros vs. revert s.
      induction vs as [|w r IH]; intros s; cbn [fold_left]; [tauto|].
      intros H. apply IH in H. rewrite lfu_evict1_smem in H. rewrite get_del in H. destruct (Z.eqb x w); [discriminate|exact H].
    + destruct (lru_evict (queue s) (refc s)) as [[[w|] q] rc]; cbn [fst].
      * rewrite smem_w_refc, smem_w_mem, maybe_dump_smem, smem_w_refc, smem_w_queue, get_del.
        destruct (Z.eqb x w); [discriminate|tauto].
      * rewrite smem_w_refc, smem_w_queue. tauto.
    + destruct (pop_right (queue s)) as [[w q]|]; cbn [fst];
        rewrite smem_w_mem, maybe_dump_smem, smem_w_queue, get_del; destruct (Z.eqb x _); try discriminate; tauto.
    + rewrite smem_w_mem, maybe_dump_smem, get_del. destruct (Z.eqb x orc); [discriminate|tauto].
Qed.

Lemma finish_values c s k orc v ev x w : get (smem (fst (finish c s k orc v ev))) x = Some w -> get (smem s) x = Some w.
Proof.
  unfold finish. destruct (c_alg c); cbn [fst]; try tauto;
    pose proof (purge_block_values c s k orc x w) as H;
    destruct (purge_block c s k orc) as [s1 r]; destruct r; cbn [fst] in *; rewrite ?post_smem; exact H.
Qed.

(* after a call returned v, if its entry is (still) resident, lookup gives exactly v *)
Theorem call_then_lookup c s k fr orc v ev w : c_alg c <> NO ->
  snd (call c s (KOk k) fr orc) = ORet v ev ->
  get (smem (fst (call c s (KOk k) fr orc))) k = Some w -> w = v.
Proof.
  intros Hno. unfold call.
  assert (Hcall : match c_alg c with NO => call_no c s k fr | _ => call_cached c s k fr orc end = call_cached c s k fr orc)
    by (destruct (c_alg c); try reflexivity; congruence).
  rewrite Hcall. unfold call_cached.
  destruct (get (smem s) k) as [v0|] eqn:Hg.
  - cbn [fst snd]. rewrite post_smem, smem_hit1.
    assert (smem (touch_hit c s k) = smem s) as -> by (unfold touch_hit; destruct (c_alg c); reflexivity).
    intros E; inversion E; subst. congruence.
  - destruct (get (smem (if archived_ c s then load_ c s [k] else s)) k) as [v1|] eqn:Hg1.
    + intros Hr Hw. apply finish_values in Hw. rewrite smem_load1 in Hw.
      destruct (touch_new_facts c (if archived_ c s then load_ c s [k] else s) k) as (T & _). rewrite T in Hw.
      assert (v1 = v).
      { revert Hr. unfold finish. destruct (c_alg c); try (intros E; inversion E; reflexivity);
          destruct (purge_block c _ k orc) as [s1 r]; destruct r; intros E; inversion E; reflexivity. }
      congruence.
    + destruct fr as [v1|]; [|discriminate]. intros Hr Hw. apply finish_values in Hw. rewrite smem_miss1 in Hw.
      match type of Hw with get (smem (touch_new c ?S k)) k = _ =>
        destruct (touch_new_facts c S k) as (T & _); rewrite T in Hw end.
      rewrite smem_w_mem, get_set_same in Hw.
      assert (v1 = v).
      { revert Hr. unfold finish. destruct (c_alg c); try (intros E; inversion E; reflexivity);
          destruct (purge_block c _ k orc) as [s1 r]; destruct r; intros E; inversion E; reflexivity. }
      congruence.
Qed.

(* ---------------------------------------------------------------- C15 *)
Inductive kind := Hit | Evaluated | Loaded.

(* ground truth, read off the state BEFORE the call *)
Definition classify (c : cfg) (s : state) (kr : keyres) : kind :=
  match kr with
  | KOk k =>
      let in_arch := archived_ c s && match a_get (arch (cs s)) k with Some _ => true | None => false end in
      match c_alg c with
      | NO => if mem_key (smem s) k || in_arch then Loaded else Evaluated
      | _ => if mem_key (smem s) k then Hit else if in_arch then Loaded else Evaluated
      end
  | _ => Evaluated
  end.

Definition bump (s : state) (kd : kind) : Z * Z * Z :=
  match kd with
  | Hit => (hits s + 1, misses s, loads s)
  | Evaluated => (hits s, misses s + 1, loads s)
  | Loaded => (hits s, misses s, loads s + 1)
  end.
Definition stats (s : state) : Z * Z * Z := (hits s, misses s, loads s).

Lemma load_lookup c s k : c_direct c = false -> get (smem s) k = None ->
  get (smem (load_ c s [k])) k = a_get (arch (cs s)) k.
Proof.
  intros Hd Hg. unfold load_. rewrite Hd. unfold smem in *. cbn [cs w_cs c_load fold_left]. unfold c_load1.
  destruct (a_get (arch (cs s)) k); cbn [mem c_with_mem]; [apply get_set_same|exact Hg].
Qed.

Lemma archived_direct c s : archived_ c s = true -> c_direct c = false.
Proof. unfold archived_. destruct (c_direct c); [discriminate|reflexivity]. Qed.

Lemma stats_post c s k : stats (post c s k) = stats s.
Proof.
  unfold post, stats. destruct (c_alg c); try reflexivity.
  - unfold lru_compact. destruct (Z.gtb _ _); [|reflexivity]. destruct (compact (queue s)); reflexivity.
  - destruct (mem_key (smem s) k); reflexivity.
Qed.

Lemma stats_dump c s ks : stats (dump_ c s ks) = stats s.
Proof. unfold stats. destruct (dump_book c s ks) as (_ & _ & _ & _ & -> & -> & ->). reflexivity. Qed.

Lemma stats_load c s ks : stats (load_ c s ks) = stats s.
Proof. unfold stats. destruct (load_book c s ks) as (_ & _ & _ & -> & -> & ->). reflexivity. Qed.

Lemma stats_maybe_dump c s ks (b : bool) : stats (if b then dump_ c s ks else s) = stats s.
Proof. destruct b; [apply stats_dump|reflexivity]. Qed.

Lemma stats_clear_book c s : stats (clear_book c s) = stats s.
Proof. unfold clear_book. destruct (c_alg c); reflexivity. Qed.

Lemma stats_purge_block c s k orc : stats (fst (purge_block c s k orc)) = stats s.
Proof.
  unfold purge_block. destruct (Z.gtb _ _); [|reflexivity].
  destruct (archived_ c s && c_purge c).
  - cbn [fst]. rewrite stats_clear_book. unfold w_mem, w_cs, stats. cbn. apply (stats_dump c s []).
  - unfold evict. destruct (c_alg c); cbn [fst]; try reflexivity.
    + generalize (lfu_victims (lfu_n (c_max c)) (usec s)). intros vs. revert s.
      induction vs as [|w r IH]; intros s; cbn [fold_left]; [reflexivity|].
      rewrite IH. unfold lfu_evict1, w_usec, w_mem, w_cs, stats. cbn. apply (stats_maybe_dump c s [w]).
    + destruct (lru_evict (queue s) (refc s)) as [[[w|] q] rc]; cbn [fst]; [|reflexivity].
      unfold w_refc at 1, w_mem, w_cs, stats. cbn.
      apply (stats_maybe_dump c (w_refc (w_queue s q) rc) [w]).
    + destruct (pop_right (queue s)) as [[w q]|]; cbn [fst]; unfold w_mem, w_cs, stats; cbn.
      * apply (stats_maybe_dump c (w_queue s q) [w]).
      * apply (stats_maybe_dump c (w_queue s []) [k]).
    + unfold w_mem, w_cs, stats. cbn. apply (stats_maybe_dump c s [orc]).
Qed.

Lemma stats_finish c s k orc v ev : stats (fst (finish c s k orc v ev)) = stats s.
Proof.
  unfold finish. destruct (c_alg c); cbn [fst]; try reflexivity;
    pose proof (stats_purge_block c s k orc) as H;
    destruct (purge_block c s k orc) as [s1 r]; destruct r; cbn [fst] in *; rewrite ?stats_post; exact H.
Qed.

Lemma stats_touch c s k : stats (touch_new c s k) = stats s /\ stats (touch_hit c s k) = stats s.
Proof. unfold touch_new, touch_hit. destruct (c_alg c); auto. Qed.

Lemma stats_no_purge c s : stats (no_purge c s) = stats s.
Proof.
  unfold no_purge. destruct (Z.gtb _ _); [|reflexivity].
  unfold w_mem, w_cs, stats. cbn. apply (stats_maybe_dump c s []).
Qed.

Lemma finish_out_shape c s k orc v ev :
  snd (finish c s k orc v ev) = ORet v ev \/ snd (finish c s k orc v ev) = ORaise EIndexError ev.
Proof.
  unfold finish. destruct (c_alg c); cbn [snd]; auto;
    destruct (purge_block c s k orc) as [s1 r]; destruct r; cbn [snd]; auto.
Qed.

Definition stats_claim (s' : state) (o : out) (good : Z * Z * Z) (same : Z * Z * Z) : Prop :=
  match o with
  | ORet _ _ => stats s' = good
  | ORaise EIndexError _ => True
  | _ => stats s' = same
  end.

Lemma finish_claim c s k orc v ev good same : stats s = good ->
  stats_claim (fst (finish c s k orc v ev)) (snd (finish c s k orc v ev)) good same.
Proof.
  intros H. pose proof (stats_finish c s k orc v ev) as Hs.
  destruct (finish_out_shape c s k orc v ev) as [-> | ->]; unfold stats_claim; [congruence|exact I].
Qed.

Lemma stats3 s : stats s = (hits s, misses s, loads s).
Proof. reflexivity. Qed.

Lemma load_found c s k v : get (smem s) k = None ->
  get (smem (if archived_ c s then load_ c s [k] else s)) k = Some v ->
  archived_ c s && match a_get (arch (cs s)) k with Some _ => true | None => false end = true.
Proof.
  intros Hg. destruct (archived_ c s) eqn:Ha; [|congruence].
  rewrite (load_lookup c s k (archived_direct c s Ha) Hg). intros ->. reflexivity.
Qed.

Lemma load_not_found c s k : get (smem s) k = None ->
  get (smem (if archived_ c s then load_ c s [k] else s)) k = None ->
  archived_ c s && match a_get (arch (cs s)) k with Some _ => true | None => false end = false.
Proof.
  intros Hg. destruct (archived_ c s) eqn:Ha; [|reflexivity].
  rewrite (load_lookup c s k (archived_direct c s Ha) Hg). intros ->. reflexivity.
Qed.

Lemma load_keeps_staged c s k v0 : get (smem s) k = Some v0 ->
  get (smem (if archived_ c s then load_ c s [k] else s)) k <> None.
Proof.
  intros Hg. destruct (archived_ c s); [|congruence]. unfold load_. destruct (c_direct c); [congruence|].
  unfold smem in *. cbn [cs w_cs c_load fold_left]. unfold c_load1.
  destruct (a_get (arch (cs s)) k); cbn [mem c_with_mem]; [rewrite get_set_same|]; congruence.
Qed.

(* every completed call increments exactly the counter of its ground-truth class;
   a call that raises leaves the counters alone *)
Theorem stats_exact c s kr fr orc :
  stats_claim (fst (call c s kr fr orc)) (snd (call c s kr fr orc)) (bump s (classify c s kr)) (stats s).
Proof.
  unfold call. destruct kr as [k| |].
  - assert (Hs1 : stats (if archived_ c s then load_ c s [k] else s) = stats s)
      by (destruct (archived_ c s); [apply stats_load|reflexivity]).
    assert (Hc : c_alg c <> NO ->
                 stats_claim (fst (call_cached c s k fr orc)) (snd (call_cached c s k fr orc))
                   (bump s (if mem_key (smem s) k then Hit
                            else if archived_ c s && match a_get (arch (cs s)) k with Some _ => true | None => false end
                                 then Loaded else Evaluated)) (stats s)).
    { intros _. unfold call_cached, mem_key. destruct (get (smem s) k) as [v|] eqn:Hg.
      - cbn [fst snd stats_claim]. rewrite stats_post. destruct (stats_touch c s k) as [_ H].
        unfold stats, bump in *; cbn [hits misses loads hit1] in *; congruence.
      - destruct (get (smem (if archived_ c s then load_ c s [k] else s)) k) as [v|] eqn:Hg1.
        + rewrite (load_found c s k v Hg Hg1). apply finish_claim.
          destruct (stats_touch c (if archived_ c s then load_ c s [k] else s) k) as [H _].
          unfold stats, bump in *; cbn [hits misses loads load1] in *; congruence.
        + rewrite (load_not_found c s k Hg Hg1). destruct fr as [v|]; [|cbn [fst snd stats_claim]; exact Hs1].
          apply finish_claim.
          match goal with |- stats (miss1 (touch_new c ?S k)) = _ => destruct (stats_touch c S k) as [H _] end.
          unfold stats, bump in *; cbn [hits misses loads miss1 w_mem w_cs] in *; congruence. }
    unfold classify.
    destruct (c_alg c) eqn:Ha; try (apply Hc; discriminate).
    unfold call_no, mem_key.
    destruct (get (smem (if archived_ c s then load_ c s [k] else s)) k) as [v|] eqn:Hg1.
    + cbn [fst snd stats_claim]. rewrite stats_no_purge.
      assert (Hcl : (match get (smem s) k with Some _ => true | None => false end
                     || archived_ c s && match a_get (arch (cs s)) k with Some _ => true | None => false end) = true).
      { destruct (get (smem s) k) eqn:Hg; [reflexivity|]. cbn [orb]. eapply load_found; eauto. }
      rewrite Hcl. unfold stats, bump in *; cbn [hits misses loads load1 w_mem w_cs] in *; congruence.
    + assert (Hg : get (smem s) k = None).
      { destruct (get (smem s) k) as [v0|] eqn:Hg; [|reflexivity]. exfalso.
        exact (load_keeps_staged c s k v0 Hg Hg1). }
      rewrite Hg. cbn [orb]. rewrite (load_not_found c s k Hg Hg1).
      destruct fr as [v|]; cbn [fst snd stats_claim]; [|exact Hs1].
      rewrite stats_no_purge. unfold stats, bump in *; cbn [hits misses loads miss1 w_mem w_cs] in *; congruence.
  - cbn [classify]. destruct (c_safe c); [|reflexivity]. destruct fr; reflexivity.
  - cbn [classify]. destruct (c_safe c); [|reflexivity].
    destruct (c_alg c); destruct fr; cbn [fst snd stats_claim fallback]; try reflexivity.
    rewrite stats_no_purge. reflexivity.
Qed.

(* hit + miss + load grows by exactly one per completed call and never otherwise *)
Definition total (s : state) : Z := hits s + misses s + loads s.

Corollary total_exact c s kr fr orc :
  match snd (call c s kr fr orc) with
  | ORet _ _ => total (fst (call c s kr fr orc)) = total s + 1
  | ORaise EIndexError _ => True
  | _ => total (fst (call c s kr fr orc)) = total s
  end.
Proof.
  pose proof (stats_exact c s kr fr orc) as H. unfold stats_claim, total in *.
  destruct (snd (call c s kr fr orc)) as [| e ? | | | | |]; try (rewrite stats3 in H; inversion H; lia).
  - rewrite stats3 in H. destruct (classify c s kr); cbn [bump] in H; inversion H; lia.
  - destruct e; try exact I; rewrite stats3 in H; inversion H; lia.
Qed.

(* info(): size is the number of resident entries, maxsize the configured bound *)
Theorem info_spec c s :
  step c s Info = (s, OInfo (hits s) (misses s) (loads s) (info_max c) (size (smem s))).
Proof. reflexivity. Qed.

(* clear() empties the memory cache and zeroes the counters; clear(keepstats=True) keeps them *)
Theorem clear_spec c s keep : c_alg c <> NO ->
  smem (do_clear c s keep) = [] /\ stats (do_clear c s keep) = if keep then stats s else (0, 0, 0).
Proof.
  intros Ha. unfold do_clear.
  assert (H : smem (match c_alg c with NO => s | _ => clear_book c (w_mem s []) end) = [] /\
              stats (match c_alg c with NO => s | _ => clear_book c (w_mem s []) end) = stats s).
  { destruct (c_alg c); try congruence; rewrite clear_book_smem, stats_clear_book; auto. }
  destruct H as [H1 H2]. destruct keep; [auto|]. split; [exact H1|reflexivity].
Qed.

(* no other operation touches the counters *)
Theorem stats_frame c s o : (forall kr fr orc, o <> Call kr fr orc) -> (forall keep, o <> Clear keep) ->
  stats (fst (step c s o)) = stats s.
Proof.
  intros Hc Hk. destruct o; cbn [step].
  - exfalso; eapply Hc; reflexivity.
  - destruct kr; try reflexivity. destruct (get (smem s) k); reflexivity.
  - destruct kr; reflexivity.
  - reflexivity.
  - apply stats_load.
  - apply stats_dump.
  - exfalso; eapply Hk; reflexivity.
  - destruct flag as [[|]|]; try reflexivity; destruct (c_direct c); try reflexivity.
    destruct (c_archived_on (cs s)); reflexivity.
  - destruct (c_direct c); reflexivity.
  - destruct (c_direct c); reflexivity.
  - reflexivity.
Qed.
