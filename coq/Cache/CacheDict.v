(* M2: klepto.archives.cache  (_archives.py:129-238) -- a dict with an archive backend.
   Each definition transcribes one method; proofs are in CacheDictFacts.v. *)
From Klepto Require Export OMap.

Inductive archive := ANull | AStore (m : omap).

Definition is_null (a : archive) : bool := match a with ANull => true | AStore _ => false end.
Definition a_contents (a : archive) : omap := match a with ANull => [] | AStore m => m end.
Definition a_get (a : archive) (k : key) : option val := get (a_contents a) k.
Definition a_update (a : archive) (m : omap) : archive :=
  match a with ANull => ANull | AStore m0 => AStore (update m0 m) end.
Definition a_clear (a : archive) : archive :=
  match a with ANull => ANull | AStore _ => AStore [] end.
Definition a_del (a : archive) (k : key) : archive :=
  match a with ANull => ANull | AStore m0 => AStore (del m0 k) end.

Record cstate := mkC { mem : omap; arch : archive; swp : archive }.

Definition c_with_mem (c : cstate) (m : omap) : cstate := mkC m (arch c) (swp c).
Definition c_with_arch (c : cstate) (a : archive) : cstate := mkC (mem c) a (swp c).

(* cache.archived() *)
Definition c_archived (c : cstate) : bool := negb (is_null (arch c)).

(* the property setter  cache.archive = a   (_archives.py:231-234) *)
Definition c_set_archive (c : cstate) (a : archive) : cstate :=
  let c1 := if negb (is_null (swp c)) then mkC (mem c) (swp c) (arch c) else c in
  mkC (mem c1) a (swp c1).

(* "self.__swap__, self.archive = self.archive, self.__swap__" *)
Definition c_swap (c : cstate) : cstate :=
  c_set_archive (mkC (mem c) (arch c) (arch c)) (swp c).

(* cache.archived(True): None = ValueError *)
Definition c_archived_on (c : cstate) : option cstate :=
  if negb (is_null (swp c)) then Some (c_swap c)
  else if is_null (arch c) then None
  else Some c.

(* cache.archived(False) *)
Definition c_archived_off (c : cstate) : cstate :=
  if negb (is_null (arch c)) then c_swap c else c.

(* cache.load( *ks ) *)
Definition c_load1 (c : cstate) (k : key) : cstate :=
  match a_get (arch c) k with
  | Some v => c_with_mem c (set (mem c) k v)
  | None => c
  end.
Definition c_load (c : cstate) (ks : list key) : cstate :=
  match ks with
  | [] => c_with_mem c (update (mem c) (a_contents (arch c)))
  | _ => fold_left c_load1 ks c
  end.

(* cache.dump( *ks ) *)
Definition c_dump1 (c : cstate) (k : key) : cstate :=
  match get (mem c) k with
  | Some v => c_with_arch c (a_update (arch c) [(k, v)])
  | None => c
  end.
Definition c_dump (c : cstate) (ks : list key) : cstate :=
  match ks with
  | [] => c_with_arch c (a_update (arch c) (mem c))
  | _ => fold_left c_dump1 ks c
  end.

(* cache.sync(clear) *)
Definition c_sync (c : cstate) (clear : bool) : cstate :=
  let c1 := if clear then c_with_arch c (a_clear (arch c)) else c in
  let c2 := c_dump c1 [] in
  if clear then c2 else c_load c2 [].

(* cache.drop(): None = ValueError (nothing attached) *)
Definition c_drop (c : cstate) : option cstate :=
  match c_archived_on c with
  | None => None
  | Some c1 => Some (c_set_archive c1 ANull)
  end.

(* cache.open(a) *)
Definition c_open (c : cstate) (a : archive) : cstate :=
  let c1 := match c_archived_on c with Some c1 => c1 | None => c end in
  c_set_archive c1 a.

(* operations of the stand-alone cache object, for C08 *)
Inductive cop :=
| CSet (k : key) (v : val) | CDel (k : key) | CClear | CUpdate (m : omap) | CPop (k : key)
| CLoad (ks : list key) | CDump (ks : list key) | CSync (clear : bool)
| CArchived (flag : option bool) | COpen (a : archive) | CDrop
| CArchSet (k : key) (v : val) | CArchDel (k : key).

Inductive cout := CUnit | CBool (b : bool) | CVal (v : val) | CKeyError | CValueError.

Definition cstep (c : cstate) (o : cop) : cstate * cout :=
  match o with
  | CSet k v => (c_with_mem c (set (mem c) k v), CUnit)
  | CDel k => match get (mem c) k with
              | Some _ => (c_with_mem c (del (mem c) k), CUnit)
              | None => (c, CKeyError) end
  | CPop k => match get (mem c) k with
              | Some v => (c_with_mem c (del (mem c) k), CVal v)
              | None => (c, CKeyError) end
  | CClear => (c_with_mem c [], CUnit)
  | CUpdate m => (c_with_mem c (update (mem c) m), CUnit)
  | CLoad ks => (c_load c ks, CUnit)
  | CDump ks => (c_dump c ks, CUnit)
  | CSync b => (c_sync c b, CUnit)
  | CArchived None => (c, CBool (c_archived c))
  | CArchived (Some true) => match c_archived_on c with
                             | Some c1 => (c1, CUnit) | None => (c, CValueError) end
  | CArchived (Some false) => (c_archived_off c, CUnit)
  | COpen a => (c_open c a, CUnit)
  | CDrop => match c_drop c with Some c1 => (c1, CUnit) | None => (c, CValueError) end
  | CArchSet k v => (c_with_arch c (a_update (arch c) [(k, v)]), CUnit)
  | CArchDel k => match a_get (arch c) k with
                  | Some _ => (c_with_arch c (a_del (arch c) k), CUnit)
                  | None => (c, CKeyError) end
  end.

Definition crun (c : cstate) (ops : list cop) : cstate :=
  fold_left (fun c o => fst (cstep c o)) ops c.
