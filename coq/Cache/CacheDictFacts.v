(* Facts about M2 (klepto.archives.cache): well-formedness, the synchronisation algebra of C08. *)
From Klepto Require Import OMap OMapFacts CacheDict.
From Coq Require Import Lia.

Definition wf_arch (a : archive) : Prop := NoDup (keys (a_contents a)).
Definition wf_c (c : cstate) : Prop :=
  NoDup (keys (mem c)) /\ wf_arch (arch c) /\ wf_arch (swp c).

(* never both an active and a parked archive *)
Definition swap_inv (c : cstate) : Prop := is_null (arch c) = true \/ is_null (swp c) = true.

Lemma wf_arch_null : wf_arch ANull.
Proof. constructor. Qed.

Lemma wf_arch_update a m : wf_arch a -> wf_arch (a_update a m).
Proof. destruct a; cbn; [constructor|]. apply NoDup_keys_update. Qed.

Lemma wf_arch_clear a : wf_arch (a_clear a).
Proof. destruct a; constructor. Qed.

Lemma wf_arch_del a k : wf_arch a -> wf_arch (a_del a k).
Proof. destruct a; cbn; [constructor|]. apply NoDup_keys_del. Qed.

(* ---- reading an archive after an update *)
Lemma a_get_update a m k : NoDup (keys m) -> is_null a = false ->
  a_get (a_update a m) k = match get m k with Some v => Some v | None => a_get a k end.
Proof. destruct a; cbn; [discriminate|]. intros H _. unfold a_get; cbn. now apply get_update. Qed.

Lemma a_get_update_null a m k : is_null a = true -> a_get (a_update a m) k = None.
Proof. destruct a; cbn; [reflexivity|discriminate]. Qed.

Lemma a_get_update1 a k v k' : a_get (a_update a [(k, v)]) k' =
  if is_null a then None else if Z.eqb k' k then Some v else a_get a k'.
Proof. destruct a; cbn; [reflexivity|]. unfold a_get; cbn. unfold update; cbn. apply get_set. Qed.

Lemma is_null_update a m : is_null (a_update a m) = is_null a.
Proof. now destruct a. Qed.
Lemma is_null_clear a : is_null (a_clear a) = is_null a.
Proof. now destruct a. Qed.
Lemma is_null_del a k : is_null (a_del a k) = is_null a.
Proof. now destruct a. Qed.
Lemma a_get_null k : a_get ANull k = None.
Proof. reflexivity. Qed.
Lemma a_get_is_null a k : is_null a = true -> a_get a k = None.
Proof. destruct a; [reflexivity|discriminate]. Qed.

(* ---- load *)
Lemma c_load1_arch c k : arch (c_load1 c k) = arch c /\ swp (c_load1 c k) = swp c.
Proof. unfold c_load1. destruct (a_get (arch c) k); cbn; auto. Qed.

Lemma c_load_fold_arch ks c : arch (fold_left c_load1 ks c) = arch c /\ swp (fold_left c_load1 ks c) = swp c.
Proof.
  revert c. induction ks as [|k r IH]; intros c; cbn [fold_left]; [auto|].
  destruct (IH (c_load1 c k)) as [-> ->]. apply c_load1_arch.
Qed.

Lemma c_load_arch c ks : arch (c_load c ks) = arch c /\ swp (c_load c ks) = swp c.
Proof. destruct ks; [cbn; auto|]. apply c_load_fold_arch. Qed.

Lemma c_load1_get c k k' :
  get (mem (c_load1 c k)) k' =
  if Z.eqb k' k then match a_get (arch c) k with Some v => Some v | None => get (mem c) k end
  else get (mem c) k'.
Proof.
  unfold c_load1. destruct (a_get (arch c) k) eqn:E; cbn.
  - rewrite get_set. destruct (Z.eqb k' k); reflexivity.
  - destruct (Z.eqb k' k) eqn:E2; [apply Z.eqb_eq in E2; now subst|reflexivity].
Qed.

(* load(k...) : exactly the listed keys that the archive holds are copied, the rest is untouched *)
Lemma c_load_keys_get ks c k' : ks <> [] ->
  get (mem (c_load c ks)) k' =
  if in_dec Z.eq_dec k' ks
  then match a_get (arch c) k' with Some v => Some v | None => get (mem c) k' end
  else get (mem c) k'.
Proof.
  intros Hne. destruct ks as [|k0 r]; [congruence|]. clear Hne. unfold c_load.
  generalize (k0 :: r) as ks. clear k0 r.
  intros ks. revert c. induction ks as [|k r IH]; intros c; cbn [fold_left].
  - destruct (in_dec Z.eq_dec k' []) as [[]|]; reflexivity.
  - rewrite IH. destruct (c_load1_arch c k) as [Ha _]. rewrite Ha. rewrite c_load1_get.
    destruct (in_dec Z.eq_dec k' r) as [Hin|Hnin];
      destruct (in_dec Z.eq_dec k' (k :: r)) as [Hin2|Hnin2]; cbn [In] in *.
    + destruct (Z.eqb k' k) eqn:E; [apply Z.eqb_eq in E; subst|]; destruct (a_get (arch c) _); reflexivity.
    + exfalso; tauto.
    + destruct Hin2 as [->|]; [|tauto]. now rewrite Z.eqb_refl.
    + destruct (Z.eqb k' k) eqn:E; [apply Z.eqb_eq in E; subst; tauto|reflexivity].
Qed.

(* load() : the cache agrees with the archive on every archived key, other entries are kept *)
Lemma c_load_all_get c k : wf_arch (arch c) ->
  get (mem (c_load c [])) k = match a_get (arch c) k with Some v => Some v | None => get (mem c) k end.
Proof. intros H. cbn. now apply get_update. Qed.

Lemma c_load1_wf c k : wf_c c -> wf_c (c_load1 c k).
Proof.
  intros (H1 & H2 & H3). unfold c_load1. destruct (a_get (arch c) k); [|repeat split; assumption].
  repeat split; cbn; try assumption. now apply NoDup_keys_set.
Qed.

Lemma c_load_wf c ks : wf_c c -> wf_c (c_load c ks).
Proof.
  intros H. destruct ks as [|k0 r].
  - destruct H as (H1 & H2 & H3). repeat split; cbn; try assumption. now apply NoDup_keys_update.
  - unfold c_load. generalize (k0 :: r). intros ks. revert c H.
    induction ks as [|k r' IH]; intros c H; cbn [fold_left]; [exact H|]. apply IH. now apply c_load1_wf.
Qed.

(* ---- dump *)
Lemma c_dump1_mem c k : mem (c_dump1 c k) = mem c /\ swp (c_dump1 c k) = swp c
                        /\ is_null (arch (c_dump1 c k)) = is_null (arch c).
Proof. unfold c_dump1. destruct (get (mem c) k); cbn; auto using is_null_update. Qed.

Lemma c_dump_fold_mem ks c : mem (fold_left c_dump1 ks c) = mem c /\ swp (fold_left c_dump1 ks c) = swp c
                             /\ is_null (arch (fold_left c_dump1 ks c)) = is_null (arch c).
Proof.
  revert c. induction ks as [|k r IH]; intros c; cbn [fold_left]; [auto|].
  destruct (IH (c_dump1 c k)) as (-> & -> & ->). apply c_dump1_mem.
Qed.

Lemma c_dump_mem c ks : mem (c_dump c ks) = mem c /\ swp (c_dump c ks) = swp c
                        /\ is_null (arch (c_dump c ks)) = is_null (arch c).
Proof. destruct ks; [cbn; auto using is_null_update|]. apply c_dump_fold_mem. Qed.

Lemma c_dump1_get c k k' :
  a_get (arch (c_dump1 c k)) k' =
  if is_null (arch c) then None
  else if Z.eqb k' k then match get (mem c) k with Some v => Some v | None => a_get (arch c) k end
  else a_get (arch c) k'.
Proof.
  unfold c_dump1. destruct (get (mem c) k) eqn:E; cbn.
  - rewrite a_get_update1. destruct (is_null (arch c)); [reflexivity|]. destruct (Z.eqb k' k); reflexivity.
  - destruct (is_null (arch c)) eqn:N; [now apply a_get_is_null|].
    destruct (Z.eqb k' k) eqn:E2; [apply Z.eqb_eq in E2; now subst|reflexivity].
Qed.

(* dump(k...) : only the listed resident keys are written, other archive entries are left alone *)
Lemma c_dump_keys_get ks c k' : ks <> [] -> is_null (arch c) = false ->
  a_get (arch (c_dump c ks)) k' =
  if in_dec Z.eq_dec k' ks
  then match get (mem c) k' with Some v => Some v | None => a_get (arch c) k' end
  else a_get (arch c) k'.
Proof.
  intros Hne. destruct ks as [|k0 r]; [congruence|]. clear Hne. unfold c_dump.
  generalize (k0 :: r) as ks. clear k0 r.
  intros ks. revert c. induction ks as [|k r IH]; intros c Hn; cbn [fold_left].
  - destruct (in_dec Z.eq_dec k' []) as [[]|]; reflexivity.
  - destruct (c_dump1_mem c k) as (Hm & _ & Hnull).
    rewrite IH by (now rewrite Hnull). rewrite Hm, c_dump1_get, Hn.
    destruct (in_dec Z.eq_dec k' r) as [Hin|Hnin];
      destruct (in_dec Z.eq_dec k' (k :: r)) as [Hin2|Hnin2]; cbn [In] in *.
    + destruct (Z.eqb k' k) eqn:E; [apply Z.eqb_eq in E; subst|]; destruct (get (mem c) _); reflexivity.
    + exfalso; tauto.
    + destruct Hin2 as [->|]; [|tauto]. now rewrite Z.eqb_refl.
    + destruct (Z.eqb k' k) eqn:E; [apply Z.eqb_eq in E; subst; tauto|reflexivity].
Qed.

(* dump() : the archive agrees with the cache on every cached key, other archive entries are kept *)
Lemma c_dump_all_get c k : NoDup (keys (mem c)) -> is_null (arch c) = false ->
  a_get (arch (c_dump c [])) k = match get (mem c) k with Some v => Some v | None => a_get (arch c) k end.
Proof. intros H N. cbn. now apply a_get_update. Qed.

Lemma c_dump_null c ks : is_null (arch c) = true -> c_dump c ks = c.
Proof.
  intros N. destruct c as [m a s]. cbn in N. destruct a; [|discriminate].
  destruct ks as [|k0 r]; [reflexivity|]. unfold c_dump. generalize (k0 :: r). intros ks.
  induction ks as [|k r' IH]; cbn [fold_left]; [reflexivity|].
  unfold c_dump1 at 2. cbn. destruct (get m k); exact IH.
Qed.

Lemma c_dump1_wf c k : wf_c c -> wf_c (c_dump1 c k).
Proof.
  intros (H1 & H2 & H3). unfold c_dump1. destruct (get (mem c) k); [|repeat split; assumption].
  repeat split; cbn; try assumption. now apply wf_arch_update.
Qed.

Lemma c_dump_wf c ks : wf_c c -> wf_c (c_dump c ks).
Proof.
  intros H. destruct ks as [|k0 r].
  - destruct H as (H1 & H2 & H3). repeat split; cbn; try assumption. now apply wf_arch_update.
  - unfold c_dump. generalize (k0 :: r). intros ks. revert c H.
    induction ks as [|k r' IH]; intros c H; cbn [fold_left]; [exact H|]. apply IH. now apply c_dump1_wf.
Qed.

(* ---- the setter, toggling *)
Lemma c_set_archive_spec c a :
  c_set_archive c a = if is_null (swp c) then mkC (mem c) a (swp c) else mkC (mem c) a (arch c).
Proof. unfold c_set_archive. destruct (is_null (swp c)); reflexivity. Qed.

Lemma c_swap_spec c : swap_inv c -> c_swap c = mkC (mem c) (swp c) (arch c).
Proof.
  intros [H|H]; unfold c_swap; rewrite c_set_archive_spec; cbn.
  - rewrite H. reflexivity.
  - destruct (is_null (arch c)) eqn:N; [|reflexivity].
    destruct c as [m a s]; cbn in *. destruct a, s; try discriminate; reflexivity.
Qed.

Lemma swap_inv_set_archive c a : swap_inv c -> swap_inv (c_set_archive c a).
Proof.
  intros Hinv. rewrite c_set_archive_spec. destruct (is_null (swp c)) eqn:N; unfold swap_inv; cbn.
  - right; exact N.
  - destruct Hinv as [H|H]; [right; exact H|congruence].
Qed.

(* ---- one step preserves well-formedness and the swap invariant *)
Definition cop_ok (o : cop) : Prop :=
  match o with COpen a => wf_arch a | _ => True end.

Lemma cstep_swap_inv c o : swap_inv c -> swap_inv (fst (cstep c o)).
Proof.
  intros Hinv. destruct o; cbn [cstep fst]; try exact Hinv.
  - destruct (get (mem c) k); exact Hinv.
  - destruct (get (mem c) k); exact Hinv.
  - destruct (c_load_arch c ks) as [Ha Hs]. unfold swap_inv. now rewrite Ha, Hs.
  - destruct (c_dump_mem c ks) as (_ & Hs & Hn). unfold swap_inv. now rewrite Hs, Hn.
  - unfold c_sync. destruct clear.
    + destruct (c_dump_mem (c_with_arch c (a_clear (arch c))) []) as (_ & Hs & Hn).
      unfold swap_inv. rewrite Hs, Hn. cbn. now rewrite is_null_clear.
    + destruct (c_load_arch (c_dump c []) []) as [Ha Hs].
      destruct (c_dump_mem c []) as (_ & Hs2 & Hn). unfold swap_inv. now rewrite Ha, Hs, Hs2, Hn.
  - destruct flag as [[|]|]; cbn [fst]; try exact Hinv.
    + unfold c_archived_on. destruct (negb (is_null (swp c))) eqn:N; cbn [fst].
      * rewrite c_swap_spec by exact Hinv. unfold swap_inv; cbn. destruct Hinv; auto.
      * destruct (is_null (arch c)); exact Hinv.
    + unfold c_archived_off. destruct (negb (is_null (arch c))); [|exact Hinv].
      rewrite c_swap_spec by exact Hinv. unfold swap_inv; cbn. destruct Hinv; auto.
  - unfold c_open. destruct (c_archived_on c) eqn:E; apply swap_inv_set_archive; [|exact Hinv].
    unfold c_archived_on in E. destruct (negb (is_null (swp c))).
    + inversion E; subst. rewrite c_swap_spec by exact Hinv. unfold swap_inv; cbn. destruct Hinv; auto.
    + destruct (is_null (arch c)); inversion E; subst; exact Hinv.
  - unfold c_drop. destruct (c_archived_on c) eqn:E; cbn [fst]; [|exact Hinv].
    apply swap_inv_set_archive.
    unfold c_archived_on in E. destruct (negb (is_null (swp c))).
    + inversion E; subst. rewrite c_swap_spec by exact Hinv. unfold swap_inv; cbn. destruct Hinv; auto.
    + destruct (is_null (arch c)); inversion E; subst; exact Hinv.
  - unfold swap_inv; cbn. rewrite is_null_update. exact Hinv.
  - destruct (a_get (arch c) k); [|exact Hinv]. unfold swap_inv; cbn. rewrite is_null_del. exact Hinv.
Qed.

Lemma wf_c_swap c : wf_c c -> wf_c (c_swap c).
Proof.
  intros (H1 & H2 & H3). unfold c_swap. rewrite c_set_archive_spec. cbn.
  destruct (is_null (arch c)); repeat split; cbn; assumption.
Qed.

Lemma wf_c_set_archive c a : wf_c c -> wf_arch a -> wf_c (c_set_archive c a).
Proof.
  intros (H1 & H2 & H3) Ha. rewrite c_set_archive_spec.
  destruct (is_null (swp c)); repeat split; cbn; assumption.
Qed.

Lemma c_archived_on_wf c c1 : wf_c c -> c_archived_on c = Some c1 -> wf_c c1.
Proof.
  intros H E. unfold c_archived_on in E. destruct (negb (is_null (swp c))).
  - inversion E; subst. now apply wf_c_swap.
  - destruct (is_null (arch c)); inversion E; subst; exact H.
Qed.

Lemma cstep_wf c o : wf_c c -> cop_ok o -> wf_c (fst (cstep c o)).
Proof.
  intros H Hok. pose proof H as (H1 & H2 & H3).
  destruct o; cbn [cstep fst]; try exact H.
  - repeat split; cbn; try assumption. now apply NoDup_keys_set.
  - destruct (get (mem c) k); [|exact H]. repeat split; cbn; try assumption. now apply NoDup_keys_del.
  - repeat split; cbn; try assumption. constructor.
  - repeat split; cbn; try assumption. now apply NoDup_keys_update.
  - destruct (get (mem c) k); [|exact H]. repeat split; cbn; try assumption. now apply NoDup_keys_del.
  - now apply c_load_wf.
  - now apply c_dump_wf.
  - unfold c_sync. destruct clear.
    + apply c_dump_wf. repeat split; cbn; try assumption. apply wf_arch_clear.
    + apply c_load_wf. now apply c_dump_wf.
  - destruct flag as [[|]|]; cbn [fst]; try exact H.
    + destruct (c_archived_on c) eqn:E; cbn [fst]; [|exact H]. eapply c_archived_on_wf; eauto.
    + unfold c_archived_off. destruct (negb (is_null (arch c))); [now apply wf_c_swap|exact H].
  - unfold c_open. destruct (c_archived_on c) eqn:E; apply wf_c_set_archive; try exact Hok; try exact H.
    eapply c_archived_on_wf; eauto.
  - unfold c_drop. destruct (c_archived_on c) eqn:E; cbn [fst]; [|exact H].
    apply wf_c_set_archive; [eapply c_archived_on_wf; eauto|apply wf_arch_null].
  - repeat split; cbn; try assumption. now apply wf_arch_update.
  - destruct (a_get (arch c) k); [|exact H]. repeat split; cbn; try assumption. now apply wf_arch_del.
Qed.
