(* Facts about the insertion-ordered map M1. *)
From Klepto Require Import OMap.
From Coq Require Import Lia.

Lemma eqb_refl_z k : Z.eqb k k = true.
Proof. apply Z.eqb_refl. Qed.

Lemma get_set_same m k v : get (set m k v) k = Some v.
Proof.
  induction m as [|[k' v'] r IH]; cbn [set get].
  - now rewrite Z.eqb_refl.
  - destruct (Z.eqb k k') eqn:E; cbn [get].
    + now rewrite Z.eqb_refl.
    + now rewrite E.
Qed.

Lemma get_set_other m k v k' : k <> k' -> get (set m k v) k' = get m k'.
Proof.
  intros Hne. induction m as [|[k0 v0] r IH]; cbn [set get].
  - destruct (Z.eqb k' k) eqn:E; [apply Z.eqb_eq in E; congruence|reflexivity].
  - destruct (Z.eqb k k0) eqn:E; cbn [get].
    + apply Z.eqb_eq in E; subst k0.
      destruct (Z.eqb k' k) eqn:E2; [apply Z.eqb_eq in E2; congruence|reflexivity].
    + now rewrite IH.
Qed.

Lemma get_set m k v k' : get (set m k v) k' = if Z.eqb k' k then Some v else get m k'.
Proof.
  destruct (Z.eqb k' k) eqn:E.
  - apply Z.eqb_eq in E; subst; apply get_set_same.
  - apply get_set_other. intro; subst. now rewrite Z.eqb_refl in E.
Qed.

Lemma get_del_same m k : get (del m k) k = None.
Proof.
  induction m as [|[k' v'] r IH]; cbn [del get]; [reflexivity|].
  destruct (Z.eqb k k') eqn:E; cbn [get]; [exact IH|now rewrite E].
Qed.

Lemma get_del_other m k k' : k <> k' -> get (del m k) k' = get m k'.
Proof.
  intros Hne. induction m as [|[k0 v0] r IH]; cbn [del get]; [reflexivity|].
  destruct (Z.eqb k k0) eqn:E; cbn [get].
  - apply Z.eqb_eq in E; subst k0.
    destruct (Z.eqb k' k) eqn:E2; [apply Z.eqb_eq in E2; congruence|exact IH].
  - now rewrite IH.
Qed.

Lemma get_del m k k' : get (del m k) k' = if Z.eqb k' k then None else get m k'.
Proof.
  destruct (Z.eqb k' k) eqn:E.
  - apply Z.eqb_eq in E; subst; apply get_del_same.
  - apply get_del_other. intro; subst. now rewrite Z.eqb_refl in E.
Qed.

Lemma get_in_keys m k v : get m k = Some v -> In k (keys m).
Proof.
  induction m as [|[k' v'] r IH]; cbn [get keys map fst]; [discriminate|].
  destruct (Z.eqb k k') eqn:E; intros H.
  - apply Z.eqb_eq in E; subst; now left.
  - right; now apply IH.
Qed.

Lemma in_keys_get m k : In k (keys m) -> exists v, get m k = Some v.
Proof.
  induction m as [|[k' v'] r IH]; cbn [get keys map fst In]; [tauto|].
  intros [H|H].
  - subst; rewrite Z.eqb_refl; eauto.
  - destruct (Z.eqb k k'); eauto.
Qed.

Lemma get_none_not_in m k : get m k = None <-> ~ In k (keys m).
Proof.
  split.
  - intros H Hin. apply in_keys_get in Hin. destruct Hin as [v Hv]. congruence.
  - intros H. destruct (get m k) eqn:E; [|reflexivity]. exfalso; apply H; eapply get_in_keys; eauto.
Qed.

Lemma mem_key_true m k : mem_key m k = true <-> In k (keys m).
Proof.
  unfold mem_key. split.
  - destruct (get m k) eqn:E; [intros _; eapply get_in_keys; eauto|discriminate].
  - intros H. apply in_keys_get in H. destruct H as [v ->]. reflexivity.
Qed.

Lemma mem_key_false m k : mem_key m k = false <-> ~ In k (keys m).
Proof.
  rewrite <- mem_key_true. destruct (mem_key m k); intuition congruence.
Qed.

(* ---- keys of set / del *)
Lemma keys_set_in m k v : In k (keys m) -> keys (set m k v) = keys m.
Proof.
  induction m as [|[k' v'] r IH]; cbn [keys map fst In set]; [tauto|].
  intros H. destruct (Z.eqb k k') eqn:E; cbn [map fst].
  - apply Z.eqb_eq in E; now subst.
  - f_equal. apply IH. destruct H as [H|H]; [subst; rewrite Z.eqb_refl in E; discriminate|exact H].
Qed.

Lemma keys_set_notin m k v : ~ In k (keys m) -> keys (set m k v) = keys m ++ [k].
Proof.
  induction m as [|[k' v'] r IH]; cbn [keys map fst In set app]; [reflexivity|].
  intros H. destruct (Z.eqb k k') eqn:E; cbn [map fst].
  - apply Z.eqb_eq in E; subst; tauto.
  - f_equal. apply IH. tauto.
Qed.

Lemma in_keys_set m k v k' : In k' (keys (set m k v)) <-> k' = k \/ In k' (keys m).
Proof.
  destruct (in_dec Z.eq_dec k (keys m)) as [H|H].
  - rewrite keys_set_in by exact H. split; [tauto|]. intros [->|]; auto.
  - rewrite keys_set_notin by exact H. rewrite in_app_iff. cbn [In]. split; intros; intuition congruence.
Qed.

Lemma in_keys_del m k k' : In k' (keys (del m k)) <-> k' <> k /\ In k' (keys m).
Proof.
  induction m as [|[k0 v0] r IH]; cbn [del keys map fst In]; [tauto|].
  destruct (Z.eqb k k0) eqn:E.
  - apply Z.eqb_eq in E; subst k0. rewrite IH. split; [tauto|]. intros [H1 [H2|H2]]; [congruence|tauto].
  - cbn [keys map fst In]. fold (keys (del r k)). rewrite IH.
    assert (k <> k0) by (intro; subst; rewrite Z.eqb_refl in E; discriminate).
    split; intros; intuition congruence.
Qed.


Lemma NoDup_snoc (l : list key) x : NoDup l -> ~ In x l -> NoDup (l ++ [x]).
Proof.
  induction l as [|y r IH]; cbn [app]; intros Hnd Hnin.
  - constructor; [tauto|constructor].
  - inversion Hnd as [|y' r' Hy Hr]; subst. constructor.
    + rewrite in_app_iff. cbn [In]. intros [H|[H|[]]]; [tauto|subst; apply Hnin; now left].
    + apply IH; [exact Hr|]. intro; apply Hnin; now right.
Qed.

Lemma NoDup_keys_set m k v : NoDup (keys m) -> NoDup (keys (set m k v)).
Proof.
  intros H. destruct (in_dec Z.eq_dec k (keys m)) as [Hin|Hin].
  - now rewrite keys_set_in.
  - rewrite keys_set_notin by exact Hin. now apply NoDup_snoc.
Qed.

Lemma NoDup_keys_del m k : NoDup (keys m) -> NoDup (keys (del m k)).
Proof.
  induction m as [|[k0 v0] r IH]; cbn [del keys map fst]; intros H; [constructor|].
  inversion H as [|a l Ha Hl]; subst.
  destruct (Z.eqb k k0) eqn:E; [now apply IH|].
  cbn [keys map fst]. constructor; [|now apply IH].
  fold (keys (del r k)). rewrite in_keys_del. tauto.
Qed.

(* ---- sizes *)
Lemma length_keys m : length (keys m) = length m.
Proof. unfold keys; apply map_length. Qed.

Lemma length_set_in m k v : In k (keys m) -> length (set m k v) = length m.
Proof. intros H. rewrite <- !length_keys. now rewrite keys_set_in. Qed.

Lemma length_set_notin m k v : ~ In k (keys m) -> length (set m k v) = S (length m).
Proof.
  intros H. rewrite <- !length_keys. rewrite keys_set_notin by exact H.
  rewrite app_length. cbn. lia.
Qed.

Lemma length_del_le m k : (length (del m k) <= length m)%nat.
Proof.
  induction m as [|[k0 v0] r IH]; cbn [del length]; [lia|].
  destruct (Z.eqb k k0); cbn [length]; lia.
Qed.

Lemma length_del_notin m k : ~ In k (keys m) -> del m k = m.
Proof.
  induction m as [|[k0 v0] r IH]; cbn [del keys map fst In]; [reflexivity|].
  intros H. destruct (Z.eqb k k0) eqn:E.
  - apply Z.eqb_eq in E; subst; tauto.
  - f_equal. apply IH. tauto.
Qed.

Lemma length_del_in m k : NoDup (keys m) -> In k (keys m) -> S (length (del m k)) = length m.
Proof.
  induction m as [|[k0 v0] r IH]; cbn [del keys map fst In length]; [tauto|].
  intros Hnd Hin. inversion Hnd as [|a l Ha Hl]; subst.
  destruct (Z.eqb k k0) eqn:E.
  - apply Z.eqb_eq in E; subst k0. rewrite length_del_notin by exact Ha. reflexivity.
  - cbn [length]. f_equal. apply IH; [exact Hl|].
    destruct Hin as [Hin|Hin]; [subst; rewrite Z.eqb_refl in E; discriminate|exact Hin].
Qed.

(* ---- update *)
Lemma update_cons m kv m2 : update m (kv :: m2) = update (set m (fst kv) (snd kv)) m2.
Proof. reflexivity. Qed.

Lemma update_nil m : update m [] = m.
Proof. reflexivity. Qed.

Lemma update_app m a b : update m (a ++ b) = update (update m a) b.
Proof. unfold update. apply fold_left_app. Qed.

Lemma NoDup_keys_update m m2 : NoDup (keys m) -> NoDup (keys (update m m2)).
Proof.
  revert m. induction m2 as [|[k v] r IH]; intros m H; [exact H|].
  rewrite update_cons. apply IH. now apply NoDup_keys_set.
Qed.

Lemma in_keys_update m m2 k : In k (keys (update m m2)) <-> In k (keys m) \/ In k (keys m2).
Proof.
  revert m. induction m2 as [|[k0 v0] r IH]; intros m.
  - cbn. tauto.
  - rewrite update_cons, IH. cbn [fst snd keys map In]. rewrite in_keys_set.
    fold (keys r). split; intros; intuition congruence.
Qed.

(* with distinct keys in m2, a lookup in the overlay reads m2 first *)
Lemma get_update m m2 k : NoDup (keys m2) ->
  get (update m m2) k = match get m2 k with Some v => Some v | None => get m k end.
Proof.
  revert m. induction m2 as [|[k0 v0] r IH]; intros m Hnd; [reflexivity|].
  cbn [keys map fst] in Hnd. inversion Hnd as [|a l Ha Hl]; subst.
  rewrite update_cons, IH by exact Hl. cbn [fst snd get].
  destruct (Z.eqb k k0) eqn:E.
  - apply Z.eqb_eq in E; subst k0.
    assert (get r k = None) as -> by (now apply get_none_not_in).
    apply get_set_same.
  - destruct (get r k); [reflexivity|].
    apply get_set_other. intro; subst. now rewrite Z.eqb_refl in E.
Qed.

Lemma get_update_notin m m2 k : ~ In k (keys m2) -> get (update m m2) k = get m k.
Proof.
  revert m. induction m2 as [|[k0 v0] r IH]; intros m H; [reflexivity|].
  rewrite update_cons, IH.
  - cbn [fst snd]. apply get_set_other. intro; subst. apply H. now left.
  - intro; apply H. now right.
Qed.

Lemma length_update_ge m m2 : (length m <= length (update m m2))%nat.
Proof.
  revert m. induction m2 as [|[k0 v0] r IH]; intros m; [cbn; lia|].
  rewrite update_cons. etransitivity; [|apply IH]. cbn [fst snd].
  destruct (in_dec Z.eq_dec k0 (keys m)).
  - rewrite length_set_in by assumption. lia.
  - rewrite length_set_notin by assumption. lia.
Qed.

(* ---- counters *)
Lemma cnt_get_add_same c k d : cnt_get (cnt_add c k d) k = cnt_get c k + d.
Proof. unfold cnt_get, cnt_add. now rewrite get_set_same. Qed.

Lemma cnt_get_add_other c k d k' : k <> k' -> cnt_get (cnt_add c k d) k' = cnt_get c k'.
Proof. intros H. unfold cnt_get, cnt_add. now rewrite get_set_other. Qed.

Lemma cnt_get_del_same c k : cnt_get (del c k) k = 0.
Proof. unfold cnt_get. now rewrite get_del_same. Qed.

Lemma cnt_get_del_other c k k' : k <> k' -> cnt_get (del c k) k' = cnt_get c k'.
Proof. intros H. unfold cnt_get. now rewrite get_del_other. Qed.

Lemma size_nonneg m : 0 <= size m.
Proof. unfold size. lia. Qed.
