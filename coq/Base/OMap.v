(* M1: insertion-ordered finite map = the model of a Python dict with integer keys/values.
   Models only; proofs live in OMapFacts.v. *)
From Coq Require Export List ZArith Bool.
Export ListNotations.
Open Scope Z_scope.

Definition key := Z.
Definition val := Z.
Definition omap := list (key * val).

Fixpoint get (m : omap) (k : key) : option val :=
  match m with
  | [] => None
  | (k', v) :: r => if Z.eqb k k' then Some v else get r k
  end.

Definition mem_key (m : omap) (k : key) : bool :=
  match get m k with Some _ => true | None => false end.

(* d[k] = v : an existing key keeps its position, a new key is appended *)
Fixpoint set (m : omap) (k : key) (v : val) : omap :=
  match m with
  | [] => [(k, v)]
  | (k', v') :: r => if Z.eqb k k' then (k, v) :: r else (k', v') :: set r k v
  end.

(* del d[k] (tolerant version: missing key = no change) *)
Fixpoint del (m : omap) (k : key) : omap :=
  match m with
  | [] => []
  | (k', v') :: r => if Z.eqb k k' then del r k else (k', v') :: del r k
  end.

Definition keys (m : omap) : list key := map fst m.
Definition size (m : omap) : Z := Z.of_nat (length m).

(* d.update(m2) *)
Definition update (m m2 : omap) : omap :=
  fold_left (fun acc kv => set acc (fst kv) (snd kv)) m2 m.

(* Counter: missing keys read as 0 (klepto._cache.Counter.__missing__) *)
Definition cnt_get (c : omap) (k : key) : Z :=
  match get c k with Some n => n | None => 0 end.
Definition cnt_add (c : omap) (k : key) (d : Z) : omap := set c k (cnt_get c k + d).
