(* C09 / C10 / C11 / C17 on the model of the key pipeline. *)
From Klepto Require Import PyVal KFacts Keys KeygenFacts.
From Coq Require Import Lia Sorting.Permutation.

(* two dicts that are equal as finite maps *)
Definition map_eq (m1 m2 : kmap) : Prop := forall n, kget m1 n = kget m2 n.

Lemma map_eq_nil m1 m2 : map_eq m1 m2 -> (m1 = [] <-> m2 = []).
Proof.
  intros H. split; intros ->.
  - destruct m2 as [|[k v] r]; [reflexivity|]. specialize (H k). unfold kget in H. cbn in H. rewrite str_eqb_refl in H. discriminate.
  - destruct m1 as [|[k v] r]; [reflexivity|]. specialize (H k). unfold kget in H. cbn in H. rewrite str_eqb_refl in H. discriminate.
Qed.

(* the raw keymap reads the keyword dict only as a finite map *)
Theorem keymap_raw_map_eq k a m1 m2 : NoDup (kkeys m1) -> NoDup (kkeys m2) -> map_eq m1 m2 ->
  keymap_raw k a m1 = keymap_raw k a m2.
Proof.
  intros N1 N2 H. pose proof (sort_items_canonical m1 m2 N1 N2 H) as Hs. pose proof (map_eq_nil m1 m2 H) as Hn.
  unfold keymap_raw, encode, encrypt. rewrite Hs.
  destruct m1 as [|x1 r1]; destruct m2 as [|x2 r2]; try reflexivity.
  - exfalso. destruct Hn as [Hn _]. specialize (Hn eq_refl). discriminate.
  - exfalso. destruct Hn as [_ Hn]. specialize (Hn eq_refl). discriminate.
Qed.

Definition order_ok (sig : pysig) (ignored : list ign) (order : list str) : Prop :=
  forall n, In n order <-> In n (names_to_ignore (sig_explicit sig) ignored).

(* ================================================================ C09 + C17 *)
(* calls that Python binds identically *)
Definition same_binding (b1 b2 : binding) : Prop :=
  map_eq (b_named b1) (b_named b2) /\ b_extra_pos b1 = b_extra_pos b2 /\ map_eq (b_extra_kw b1) (b_extra_kw b2).

Lemma spec_map_same sig ignored b1 b2 : same_binding b1 b2 -> forall n, spec_map sig ignored b1 n = spec_map sig ignored b2 n.
Proof. intros (H1 & _ & H3) n. unfold spec_map. now rewrite (H1 n), (H3 n). Qed.

Lemma spec_args_same sig ignored b1 b2 : same_binding b1 b2 -> spec_args sig ignored b1 = spec_args sig ignored b2.
Proof. intros (_ & H2 & _). unfold spec_args. now rewrite H2. Qed.

(* Two calls binding the same values to the same parameters - positional or keyword, any keyword
   order, defaults spelled out or omitted - get the SAME raw key under every keymap configuration
   (flat or not, typed or not, sentinel or not), whatever the iteration order of the set of
   ignored names (i.e. whatever the interpreter's hash seed). *)
Theorem key_canonical sig ignored k order1 order2 c1 c2 b1 b2 :
  wf_sig sig -> wf_call c1 -> wf_call c2 -> order_ok sig ignored order1 -> order_ok sig ignored order2 ->
  bind sig c1 = Some b1 -> bind sig c2 = Some b2 -> same_binding b1 b2 ->
  keymap_raw k (fst (keygen_ord sig ignored order1 c1)) (snd (keygen_ord sig ignored order1 c1)) =
  keymap_raw k (fst (keygen_ord sig ignored order2 c2)) (snd (keygen_ord sig ignored order2 c2)).
Proof.
  intros Hwf Hc1 Hc2 Ho1 Ho2 Hb1 Hb2 Hs.
  destruct (keygen_spec sig ignored order1 c1 b1 Hwf Hc1 Ho1 Hb1) as (A1 & M1 & N1).
  destruct (keygen_spec sig ignored order2 c2 b2 Hwf Hc2 Ho2 Hb2) as (A2 & M2 & N2).
  rewrite A1, A2, (spec_args_same sig ignored b1 b2 Hs).
  apply keymap_raw_map_eq; try assumption.
  intros n. rewrite M1, M2. now apply spec_map_same.
Qed.

(* C17 in particular: the same call, two different iteration orders of the ignored-name set *)
Corollary key_independent_of_set_order sig ignored k order1 order2 c b :
  wf_sig sig -> wf_call c -> order_ok sig ignored order1 -> order_ok sig ignored order2 -> bind sig c = Some b ->
  keymap_raw k (fst (keygen_ord sig ignored order1 c)) (snd (keygen_ord sig ignored order1 c)) =
  keymap_raw k (fst (keygen_ord sig ignored order2 c)) (snd (keygen_ord sig ignored order2 c)).
Proof.
  intros. eapply key_canonical; eauto. repeat split; intros ?; reflexivity.
Qed.

(* ================================================================ C11 (a) *)
(* b1 and b2 differ only in arguments selected by the ignore specification *)
Definition differ_only_in_ignored (sig : pysig) (ignored : list ign) (b1 b2 : binding) : Prop :=
  (forall n, in_sig sig n = true -> selected sig ignored n = false -> kget (b_named b1) n = kget (b_named b2) n) /\
  (ig_star ignored = true \/
   (length (b_extra_pos b1) = length (b_extra_pos b2) /\
    forall j, nat_in (length (sig_explicit sig) + j) (ign_idx ignored) = true \/
              nth_error (b_extra_pos b1) j = nth_error (b_extra_pos b2) j)) /\
  (ig_starstar ignored = true \/
   forall n, in_sig sig n = false ->
     (kget (b_extra_kw b1) n = None <-> kget (b_extra_kw b2) n = None) /\
     (str_in n (ig_names1 ignored) = false -> kget (b_extra_kw b1) n = kget (b_extra_kw b2) n)).

Lemma mapi_mask_eq (idx : list nat) b l1 l2 : length l1 = length l2 ->
  (forall j, nat_in (b + j) idx = true \/ nth_error l1 j = nth_error l2 j) ->
  mapi (fun i v => if nat_in i idx then VNull else v) b l1 = mapi (fun i v => if nat_in i idx then VNull else v) b l2.
Proof.
  revert b l2. induction l1 as [|x r IH]; intros b [|y s] Hl H; cbn [mapi]; try reflexivity; try discriminate.
  f_equal.
  - destruct (H 0%nat) as [E|E]; [rewrite Nat.add_0_r in E; now rewrite E|]. cbn in E. inversion E. reflexivity.
  - apply IH; [cbn in Hl; lia|]. intros j. destruct (H (S j)) as [E|E]; [left|right; exact E].
    now replace (S b + j)%nat with (b + S j)%nat by lia.
Qed.

Theorem key_ignores sig ignored k order1 order2 c1 c2 b1 b2 :
  wf_sig sig -> wf_call c1 -> wf_call c2 -> order_ok sig ignored order1 -> order_ok sig ignored order2 ->
  bind sig c1 = Some b1 -> bind sig c2 = Some b2 -> differ_only_in_ignored sig ignored b1 b2 ->
  keymap_raw k (fst (keygen_ord sig ignored order1 c1)) (snd (keygen_ord sig ignored order1 c1)) =
  keymap_raw k (fst (keygen_ord sig ignored order2 c2)) (snd (keygen_ord sig ignored order2 c2)).
Proof.
  intros Hwf Hc1 Hc2 Ho1 Ho2 Hb1 Hb2 (D1 & D2 & D3).
  destruct (keygen_spec sig ignored order1 c1 b1 Hwf Hc1 Ho1 Hb1) as (A1 & M1 & N1).
  destruct (keygen_spec sig ignored order2 c2 b2 Hwf Hc2 Ho2 Hb2) as (A2 & M2 & N2).
  pose proof (bind_gives_facts sig c1 b1 Hwf Hc1 Hb1) as F1.
  pose proof (bind_gives_facts sig c2 b2 Hwf Hc2 Hb2) as F2.
  assert (HA : spec_args sig ignored b1 = spec_args sig ignored b2).
  { unfold spec_args. destruct (ig_star ignored) eqn:Es; [reflexivity|].
    destruct D2 as [D2|[Dl Dj]]; [discriminate|]. now apply mapi_mask_eq. }
  rewrite A1, A2, HA. apply keymap_raw_map_eq; try assumption.
  intros n. rewrite M1, M2. unfold spec_map. destruct (in_sig sig n) eqn:Ein.
  - pose proof (bf_bound _ _ _ F1 n Ein) as B1. pose proof (bf_bound _ _ _ F2 n Ein) as B2.
    destruct (selected sig ignored n) eqn:Es.
    + destruct (kget (b_named b1) n); [|congruence]. destruct (kget (b_named b2) n); [reflexivity|congruence].
    + now rewrite (D1 n Ein Es).
  - destruct (ig_starstar ignored) eqn:Ess.
    + destruct (kget (b_extra_kw b1) n); destruct (kget (b_extra_kw b2) n); reflexivity.
    + destruct D3 as [D3|D3]; [discriminate|]. destruct (D3 n Ein) as [Dn De].
      destruct (str_in n (ig_names1 ignored)) eqn:Esel.
      * destruct (kget (b_extra_kw b1) n) eqn:E1; destruct (kget (b_extra_kw b2) n) eqn:E2; try reflexivity.
        -- destruct Dn as [_ Dn]. specialize (Dn eq_refl). discriminate.
        -- destruct Dn as [Dn _]. specialize (Dn eq_refl). discriminate.
      * now rewrite (De eq_refl).
Qed.

(* ================================================================ C10 / C11 (b): discrimination *)
Lemma flatten_items_inj i1 i2 : flatten_items i1 = flatten_items i2 -> i1 = i2.
Proof.
  revert i2. induction i1 as [|[k v] r IH]; intros [|[k2 v2] r2]; cbn [flatten_items flat_map app]; try discriminate; [reflexivity|].
  intros H. inversion H; subst. f_equal. now apply IH.
Qed.

Lemma sort_items_map_eq m1 m2 : NoDup (kkeys m1) -> NoDup (kkeys m2) -> sort_items m1 = sort_items m2 -> map_eq m1 m2.
Proof. intros N1 N2 H n. rewrite <- (kget_sort_items m1 n N1), <- (kget_sort_items m2 n N2). now rewrite H. Qed.

Lemma sort_items_nil m : sort_items m = [] -> m = [].
Proof.
  intros H. pose proof (Permutation_length (sort_items_perm m)) as Hl. rewrite H in Hl. destruct m; [reflexivity|discriminate].
Qed.

(* the non-flat scheme loses nothing: equal keys => equal positional part and equal keyword map *)
Theorem encrypt_injective k a1 m1 a2 m2 : NoDup (kkeys m1) -> NoDup (kkeys m2) ->
  encrypt k a1 m1 = encrypt k a2 m2 -> a1 = a2 /\ map_eq m1 m2.
Proof.
  intros N1 N2. unfold encrypt. destruct (k_typed k); intros H; inversion H; subst; split; try reflexivity;
    now apply sort_items_map_eq.
Qed.

Lemma flatten_length_even items : Nat.even (length (flatten_items items)) = true.
Proof. induction items as [|[k v] r IH]; cbn [flatten_items flat_map app length]; [reflexivity|]. exact IH. Qed.

(* the flat scheme for a function without variadic positionals *)
Theorem encode_injective_no_varargs k m1 m2 : k_typed k = false -> NoDup (kkeys m1) -> NoDup (kkeys m2) ->
  encode k [] m1 = encode k [] m2 -> map_eq m1 m2.
Proof.
  intros Ht N1 N2. unfold encode. rewrite Ht. cbn [app].
  set (mk := if k_mark k then [VSent] else []).
  assert (Hshape : forall m, m <> [] ->
            match mk ++ flatten_items (sort_items m) with
            | [x] => if fasttype x then x else VTup (mk ++ flatten_items (sort_items m))
            | _ => VTup (mk ++ flatten_items (sort_items m))
            end = VTup (mk ++ flatten_items (sort_items m))).
  { intros m Hm. destruct (sort_items m) as [|[k0 v0] r] eqn:Es; [apply sort_items_nil in Es; congruence|].
    subst mk. destruct (k_mark k); cbn [flatten_items flat_map app]; reflexivity. }
  destruct m1 as [|x1 r1]; destruct m2 as [|x2 r2].
  - intros _ n. reflexivity.
  - rewrite (Hshape (x2 :: r2)) by discriminate. intros H. inversion H as [H1].
    destruct (sort_items (x2 :: r2)) as [|[k0 v0] r] eqn:Es; [apply sort_items_nil in Es; discriminate|].
    subst mk. destruct (k_mark k); cbn in H1; discriminate.
  - rewrite (Hshape (x1 :: r1)) by discriminate. intros H. inversion H as [H1].
    destruct (sort_items (x1 :: r1)) as [|[k0 v0] r] eqn:Es; [apply sort_items_nil in Es; discriminate|].
    subst mk. destruct (k_mark k); cbn in H1; discriminate.
  - rewrite (Hshape (x1 :: r1)), (Hshape (x2 :: r2)) by discriminate. intros H. inversion H as [H1].
    apply app_inv_head in H1. apply flatten_items_inj in H1. now apply sort_items_map_eq.
Qed.

(* with a sentinel configured (and no argument equal to it) the flat scheme separates the
   positional part from the keyword part unambiguously *)
Lemma split_at_mark (a1 a2 r1 r2 : list pyval) : ~ In VSent a1 -> ~ In VSent a2 ->
  a1 ++ VSent :: r1 = a2 ++ VSent :: r2 -> a1 = a2 /\ r1 = r2.
Proof.
  revert a2. induction a1 as [|x s IH]; intros [|y t] H1 H2 H; cbn [app] in H.
  - inversion H. auto.
  - inversion H; subst. exfalso. apply H2. now left.
  - inversion H; subst. exfalso. apply H1. now left.
  - inversion H; subst. destruct (IH t) as [E1 E2]; try assumption.
    + intro; apply H1; now right.
    + intro; apply H2; now right.
    + subst. auto.
Qed.

Theorem encode_injective_mark k a1 m1 a2 m2 : k_typed k = false -> k_mark k = true ->
  NoDup (kkeys m1) -> NoDup (kkeys m2) -> ~ In VSent a1 -> ~ In VSent a2 ->
  encode k a1 m1 = encode k a2 m2 -> a1 = a2 /\ map_eq m1 m2.
Proof.
  intros Ht Hm N1 N2 S1 S2. unfold encode. rewrite Ht, Hm.
  set (key := fun (a : list pyval) (m : kmap) => a ++ match m with [] => [] | _ => [VSent] ++ flatten_items (sort_items m) end).
  change (match key a1 m1 with [x] => if fasttype x then x else VTup (key a1 m1) | _ => VTup (key a1 m1) end =
          match key a2 m2 with [x] => if fasttype x then x else VTup (key a2 m2) | _ => VTup (key a2 m2) end -> a1 = a2 /\ map_eq m1 m2).
  assert (Hk : forall a m, (exists x, key a m = [x] /\ fasttype x = true /\
                                      match key a m with [x] => if fasttype x then x else VTup (key a m) | _ => VTup (key a m) end = x)
                           \/ match key a m with [x] => if fasttype x then x else VTup (key a m) | _ => VTup (key a m) end = VTup (key a m)).
  { intros a m. destruct (key a m) as [|x [|y r]]; [right; reflexivity| |right; reflexivity].
    destruct (fasttype x) eqn:Ef; [left; exists x; auto|right; reflexivity]. }
  assert (Hinj : key a1 m1 = key a2 m2 -> a1 = a2 /\ map_eq m1 m2).
  { unfold key. destruct m1 as [|x1 r1]; destruct m2 as [|x2 r2].
    - rewrite !app_nil_r. intros ->. split; [reflexivity|intros n; reflexivity].
    - rewrite app_nil_r. intros H. exfalso. apply S1. rewrite H. apply in_or_app. right. now left.
    - rewrite app_nil_r. intros H. exfalso. apply S2. rewrite <- H. apply in_or_app. right. now left.
    - cbn [app]. intros H. apply split_at_mark in H; try assumption. destruct H as [Ha Hf].
      split; [exact Ha|]. apply flatten_items_inj in Hf. now apply sort_items_map_eq. }
  destruct (Hk a1 m1) as [(x1 & K1 & F1 & R1)|R1]; destruct (Hk a2 m2) as [(x2 & K2 & F2 & R2)|R2]; rewrite R1, R2; intros H.
  - apply Hinj. rewrite K1, K2, H. reflexivity.
  - rewrite H in F1. cbn in F1. discriminate F1.
  - rewrite <- H in F2. cbn in F2. discriminate F2.
  - inversion H. now apply Hinj.
Qed.

(* from equal key material back to the bindings: every non-ignored argument is equal *)
Theorem spec_discriminates sig ignored b1 b2 c1 c2 : wf_sig sig -> wf_call c1 -> wf_call c2 ->
  bind sig c1 = Some b1 -> bind sig c2 = Some b2 ->
  spec_args sig ignored b1 = spec_args sig ignored b2 ->
  (forall n, spec_map sig ignored b1 n = spec_map sig ignored b2 n) ->
  (forall n, in_sig sig n = true -> selected sig ignored n = false -> kget (b_named b1) n = kget (b_named b2) n) /\
  (ig_starstar ignored = false -> forall n, in_sig sig n = false -> str_in n (ig_names1 ignored) = false ->
     kget (b_extra_kw b1) n = kget (b_extra_kw b2) n) /\
  (ig_star ignored = false -> length (b_extra_pos b1) = length (b_extra_pos b2) /\
     forall j, nat_in (length (sig_explicit sig) + j) (ign_idx ignored) = false ->
               nth_error (b_extra_pos b1) j = nth_error (b_extra_pos b2) j).
Proof.
  intros Hwf Hc1 Hc2 Hb1 Hb2 HA HM.
  pose proof (bind_gives_facts sig c1 b1 Hwf Hc1 Hb1) as F1.
  pose proof (bind_gives_facts sig c2 b2 Hwf Hc2 Hb2) as F2.
  split; [|split].
  - intros n Ein Es. specialize (HM n). unfold spec_map in HM. rewrite Ein, Es in HM.
    pose proof (bf_bound _ _ _ F1 n Ein) as B1. pose proof (bf_bound _ _ _ F2 n Ein) as B2.
    destruct (kget (b_named b1) n); destruct (kget (b_named b2) n); congruence.
  - intros Ess n Ein Es. specialize (HM n). unfold spec_map in HM. rewrite Ein, Ess, Es in HM.
    destruct (kget (b_extra_kw b1) n); destruct (kget (b_extra_kw b2) n); congruence.
  - intros Es. unfold spec_args in HA. rewrite Es in HA.
    assert (Hl : length (b_extra_pos b1) = length (b_extra_pos b2)).
    { apply (f_equal (@length pyval)) in HA. now rewrite !length_mapi in HA. }
    split; [exact Hl|]. intros j Hj.
    apply (f_equal (fun l => nth_error l j)) in HA. rewrite !nth_error_mapi, Hj in HA.
    destruct (nth_error (b_extra_pos b1) j); destruct (nth_error (b_extra_pos b2) j); cbn in HA; congruence.
Qed.

(* C10/C11(b), non-flat keymaps (typed or not): equal keys only for calls whose non-ignored
   arguments are all equal *)
Theorem key_discriminates_nonflat sig ignored k order1 order2 c1 c2 b1 b2 :
  k_flat k = false ->
  wf_sig sig -> wf_call c1 -> wf_call c2 -> order_ok sig ignored order1 -> order_ok sig ignored order2 ->
  bind sig c1 = Some b1 -> bind sig c2 = Some b2 ->
  keymap_raw k (fst (keygen_ord sig ignored order1 c1)) (snd (keygen_ord sig ignored order1 c1)) =
  keymap_raw k (fst (keygen_ord sig ignored order2 c2)) (snd (keygen_ord sig ignored order2 c2)) ->
  spec_args sig ignored b1 = spec_args sig ignored b2 /\ forall n, spec_map sig ignored b1 n = spec_map sig ignored b2 n.
Proof.
  intros Hf Hwf Hc1 Hc2 Ho1 Ho2 Hb1 Hb2.
  destruct (keygen_spec sig ignored order1 c1 b1 Hwf Hc1 Ho1 Hb1) as (A1 & M1 & N1).
  destruct (keygen_spec sig ignored order2 c2 b2 Hwf Hc2 Ho2 Hb2) as (A2 & M2 & N2).
  unfold keymap_raw. rewrite Hf. intros H. apply encrypt_injective in H; try assumption.
  destruct H as [Ha Hm]. split; [congruence|]. intros n. rewrite <- M1, <- M2. apply Hm.
Qed.

(* ... flat keymaps on a signature without variadic positionals ... *)
Theorem key_discriminates_flat_no_varargs sig ignored k order1 order2 c1 c2 b1 b2 :
  k_flat k = true -> k_typed k = false -> s_varargs sig = false ->
  wf_sig sig -> wf_call c1 -> wf_call c2 -> order_ok sig ignored order1 -> order_ok sig ignored order2 ->
  bind sig c1 = Some b1 -> bind sig c2 = Some b2 ->
  keymap_raw k (fst (keygen_ord sig ignored order1 c1)) (snd (keygen_ord sig ignored order1 c1)) =
  keymap_raw k (fst (keygen_ord sig ignored order2 c2)) (snd (keygen_ord sig ignored order2 c2)) ->
  spec_args sig ignored b1 = spec_args sig ignored b2 /\ forall n, spec_map sig ignored b1 n = spec_map sig ignored b2 n.
Proof.
  intros Hf Ht Hv Hwf Hc1 Hc2 Ho1 Ho2 Hb1 Hb2.
  destruct (keygen_spec sig ignored order1 c1 b1 Hwf Hc1 Ho1 Hb1) as (A1 & M1 & N1).
  destruct (keygen_spec sig ignored order2 c2 b2 Hwf Hc2 Ho2 Hb2) as (A2 & M2 & N2).
  pose proof (bind_gives_facts sig c1 b1 Hwf Hc1 Hb1) as F1.
  pose proof (bind_gives_facts sig c2 b2 Hwf Hc2 Hb2) as F2.
  assert (Hnil : forall c b, bind_facts sig c b -> spec_args sig ignored b = []).
  { intros c b F. unfold spec_args. destruct (ig_star ignored); [reflexivity|].
    rewrite (bf_extra_pos _ _ _ F). destruct (bf_pos _ _ _ F) as [Hl|Hl]; [|congruence].
    rewrite skipn_all2 by exact Hl. reflexivity. }
  rewrite A1, A2, (Hnil c1 b1 F1), (Hnil c2 b2 F2). unfold keymap_raw. rewrite Hf. intros H.
  apply encode_injective_no_varargs in H; try assumption.
  split; [reflexivity|]. intros n. rewrite <- M1, <- M2. apply H.
Qed.

(* ... and flat keymaps with a sentinel, for arguments that are not the sentinel itself *)
Theorem key_discriminates_flat_sentinel sig ignored k order1 order2 c1 c2 b1 b2 :
  k_flat k = true -> k_typed k = false -> k_mark k = true ->
  wf_sig sig -> wf_call c1 -> wf_call c2 -> order_ok sig ignored order1 -> order_ok sig ignored order2 ->
  bind sig c1 = Some b1 -> bind sig c2 = Some b2 ->
  ~ In VSent (spec_args sig ignored b1) -> ~ In VSent (spec_args sig ignored b2) ->
  keymap_raw k (fst (keygen_ord sig ignored order1 c1)) (snd (keygen_ord sig ignored order1 c1)) =
  keymap_raw k (fst (keygen_ord sig ignored order2 c2)) (snd (keygen_ord sig ignored order2 c2)) ->
  spec_args sig ignored b1 = spec_args sig ignored b2 /\ forall n, spec_map sig ignored b1 n = spec_map sig ignored b2 n.
Proof.
  intros Hf Ht Hm Hwf Hc1 Hc2 Ho1 Ho2 Hb1 Hb2 S1 S2.
  destruct (keygen_spec sig ignored order1 c1 b1 Hwf Hc1 Ho1 Hb1) as (A1 & M1 & N1).
  destruct (keygen_spec sig ignored order2 c2 b2 Hwf Hc2 Ho2 Hb2) as (A2 & M2 & N2).
  rewrite A1, A2. unfold keymap_raw. rewrite Hf. intros H.
  apply encode_injective_mark in H; try assumption.
  destruct H as [Ha Hmm]. split; [exact Ha|]. intros n. rewrite <- M1, <- M2. apply Hmm.
Qed.

(* typed=True: the types of all arguments are part of the key *)
Theorem typed_key_carries_types k a m : k_typed k = true -> k_flat k = false ->
  exists rest, keymap_raw k a m = VTup (VTup a :: VDict (sort_items m) :: VTup (types_of a) :: rest).
Proof. intros Ht Hf. unfold keymap_raw, encrypt. rewrite Hf, Ht. eexists. reflexivity. Qed.

Theorem typed_separates_types a1 a2 : types_of a1 <> types_of a2 -> forall k m1 m2,
  k_typed k = true -> k_flat k = false -> keymap_raw k a1 m1 <> keymap_raw k a2 m2.
Proof.
  intros Hne k m1 m2 Ht Hf. unfold keymap_raw, encrypt. rewrite Hf, Ht. intros H. inversion H. congruence.
Qed.
