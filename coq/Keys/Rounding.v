(* M5: klepto.rounding (simple_round / deep_round / shallow_round) on a value grammar.
   The leaf rounding function round(x, tol) is a parameter [rnd]: every theorem holds for any
   rnd; the correspondence check instantiates it with a table computed by an independent
   decimal-arithmetic oracle. *)
From Coq Require Export List ZArith Bool.
Export ListNotations.
Open Scope Z_scope.

(* containers deep_round rebuilds with type(j)(...) *)
Inductive ckind := KList | KTuple | KSet | KFrozen | KBytes
                 | KOpaque.   (* iterable whose type cannot be rebuilt from a tuple: range, namedtuple, ... *)

Inductive rval :=
| RFloat (bits : Z)          (* a binary64, by bit pattern *)
| RInt (z : Z) | RBool (b : bool) | RNone
| RStr (id : Z)              (* str / bytes-like text / exception instance: never iterated, by identity *)
| RObj (id : Z)              (* any other non-iterable object *)
| RSeq (k : ckind) (l : list rval)
| RDict (l : list (rval * rval)).

Section Rounding.
Variable rnd : Z -> Z.       (* round(x, tol) on bit patterns, for the configured tol *)

(* deep_round: floats at any depth inside lists, tuples, sets and dict VALUES *)
Fixpoint deep (v : rval) : rval :=
  match v with
  | RFloat b => RFloat (rnd b)
  | RSeq KOpaque l => RSeq KOpaque l      (* cannot be rebuilt: left as it is *)
  | RSeq k l => RSeq k (map deep l)
  | RDict l => RDict (map (fun kv => (fst kv, deep (snd kv))) l)
  | _ => v
  end.

(* simple_round: top-level floats only *)
Definition simple (v : rval) : rval := match v with RFloat b => RFloat (rnd b) | _ => v end.

(* shallow_round: top level and one level into each iterable *)
Definition shallow (v : rval) : rval :=
  match v with
  | RFloat b => RFloat (rnd b)
  | RSeq KOpaque l => v
  | RSeq k l => RSeq k (map simple l)
  | RDict l => RDict (map (fun kv => (fst kv, simple (snd kv))) l)
  | _ => v
  end.

Inductive mode := MSimple | MDeep | MShallow.

Definition round1 (m : mode) (v : rval) : rval :=
  match m with MSimple => simple v | MDeep => deep v | MShallow => shallow v end.

(* the rounded positional and keyword arguments; tol = None disables rounding *)
Definition round_call (tol_given : bool) (m : mode) (args : list rval) (kwds : list (Z * rval))
  : list rval * list (Z * rval) :=
  if tol_given then (map (round1 m) args, map (fun kv => (fst kv, round1 m (snd kv))) kwds)
  else (args, kwds).

(* ---------------------------------------------------------------- "only floats change" *)
(* v' is v with some float leaves replaced; nothing else differs: same shape, same non-float data *)
Inductive same_but_floats : rval -> rval -> Prop :=
| sf_float b b' : same_but_floats (RFloat b) (RFloat b')
| sf_int z : same_but_floats (RInt z) (RInt z)
| sf_bool b : same_but_floats (RBool b) (RBool b)
| sf_none : same_but_floats RNone RNone
| sf_str i : same_but_floats (RStr i) (RStr i)
| sf_obj i : same_but_floats (RObj i) (RObj i)
| sf_seq k l l' : Forall2 same_but_floats l l' -> same_but_floats (RSeq k l) (RSeq k l')
| sf_dict l l' : Forall2 (fun a b => fst a = fst b /\ same_but_floats (snd a) (snd b)) l l' ->
                 same_but_floats (RDict l) (RDict l').

Fixpoint has_float (v : rval) : bool :=
  match v with
  | RFloat _ => true
  | RSeq _ l => existsb has_float l
  | RDict l => existsb (fun kv => has_float (snd kv)) l
  | _ => false
  end.

End Rounding.
