(* Facts about the rounding model M5 (property C12). *)
From Klepto Require Import Rounding.

Section rval_induction.
  Variable P : rval -> Prop.
  Hypothesis Hfloat : forall b, P (RFloat b).
  Hypothesis Hint : forall z, P (RInt z).
  Hypothesis Hbool : forall b, P (RBool b).
  Hypothesis Hnone : P RNone.
  Hypothesis Hstr : forall i, P (RStr i).
  Hypothesis Hobj : forall i, P (RObj i).
  Hypothesis Hseq : forall k l, Forall P l -> P (RSeq k l).
  Hypothesis Hdict : forall l, Forall (fun kv => P (snd kv)) l -> P (RDict l).

  Fixpoint rval_ind2 (v : rval) : P v :=
    match v with
    | RFloat b => Hfloat b
    | RInt z => Hint z
    | RBool b => Hbool b
    | RNone => Hnone
    | RStr i => Hstr i
    | RObj i => Hobj i
    | RSeq k l => Hseq k l ((fix go (l : list rval) : Forall P l :=
                               match l with
                               | [] => Forall_nil P
                               | x :: r => Forall_cons x (rval_ind2 x) (go r)
                               end) l)
    | RDict l => Hdict l ((fix go (l : list (rval * rval)) : Forall (fun kv => P (snd kv)) l :=
                             match l with
                             | [] => Forall_nil _
                             | x :: r => Forall_cons x (rval_ind2 (snd x)) (go r)
                             end) l)
    end.
End rval_induction.

Section Facts.
Variable rnd : Z -> Z.

Lemma sbf_refl v : same_but_floats v v.
Proof.
  induction v using rval_ind2.
  1-6: constructor.
  - constructor. induction H; constructor; assumption.
  - constructor. induction H; constructor; [split; [reflexivity|assumption]|assumption].
Qed.

(* deep rounding changes nothing but float leaves - at any depth *)
Theorem deep_only_floats v : same_but_floats v (deep rnd v).
Proof.
  induction v using rval_ind2; cbn [deep].
  1-6: constructor.
  - destruct k; try (constructor; induction H; cbn [map]; constructor; assumption).
    apply sbf_refl.
  - constructor. induction H; cbn [map]; constructor; [split; [reflexivity|assumption]|assumption].
Qed.

Theorem simple_only_floats v : same_but_floats v (simple rnd v).
Proof. destruct v; cbn [simple]; try apply sbf_refl. constructor. Qed.

Theorem shallow_only_floats v : same_but_floats v (shallow rnd v).
Proof.
  destruct v; cbn [shallow]; try apply sbf_refl; [constructor| |].
  - destruct k; try apply sbf_refl; constructor; induction l as [|x r IH]; cbn [map]; constructor;
      try assumption; apply simple_only_floats.
  - constructor. induction l as [|x r IH]; cbn [map]; constructor; [|exact IH].
    split; [reflexivity|apply simple_only_floats].
Qed.

Theorem round1_only_floats m v : same_but_floats v (round1 rnd m v).
Proof. destruct m; cbn [round1]; [apply simple_only_floats|apply deep_only_floats|apply shallow_only_floats]. Qed.

(* data without floats is returned unchanged, whatever the depth *)
Theorem deep_no_float v : has_float v = false -> deep rnd v = v.
Proof.
  induction v using rval_ind2; cbn [deep has_float]; try reflexivity; try discriminate.
  - intros Hf. destruct k; try reflexivity; f_equal;
      (induction H as [|x r Hx Hr IH]; cbn [map existsb] in *; [reflexivity|];
       apply Bool.orb_false_iff in Hf; destruct Hf as [H1 H2]; f_equal; [now apply Hx|now apply IH]).
  - intros Hf. f_equal. induction H as [|x r Hx Hr IH]; cbn [map existsb] in *; [reflexivity|].
    apply Bool.orb_false_iff in Hf. destruct Hf as [H1 H2]. f_equal; [|now apply IH].
    destruct x as [kx vx]. cbn [fst snd] in *. f_equal. now apply Hx.
Qed.

(* integers, booleans, strings, None are never changed *)
Theorem scalars_untouched m :
  (forall z, round1 rnd m (RInt z) = RInt z) /\ (forall b, round1 rnd m (RBool b) = RBool b) /\
  (forall i, round1 rnd m (RStr i) = RStr i) /\ round1 rnd m RNone = RNone /\ (forall i, round1 rnd m (RObj i) = RObj i).
Proof. destruct m; repeat split. Qed.

(* depth: simple_round looks at the top level only; deep_round at every level *)
Theorem simple_is_top_level k l : simple rnd (RSeq k l) = RSeq k l /\ (forall d, simple rnd (RDict d) = RDict d).
Proof. split; reflexivity. Qed.

Theorem deep_reaches_every_level b :
  deep rnd (RSeq KList [RSeq KTuple [RDict [(RInt 1, RSeq KSet [RFloat b])]]]) =
  RSeq KList [RSeq KTuple [RDict [(RInt 1, RSeq KSet [RFloat (rnd b)])]]].
Proof. reflexivity. Qed.

(* tol = None disables rounding *)
Theorem tol_none_is_identity m a k : round_call rnd false m a k = (a, k).
Proof. reflexivity. Qed.

(* rounding never fails: round_call is a total function (there is no error value in its type) and
   keeps the shape of the call *)
Theorem round_call_shape tol m a k :
  length (fst (round_call rnd tol m a k)) = length a /\ map fst (snd (round_call rnd tol m a k)) = map fst k.
Proof.
  unfold round_call. destruct tol; cbn [fst snd]; [|split; reflexivity].
  rewrite map_length, map_map. split; reflexivity.
Qed.

(* the key is a function of the rounded arguments: with an information-preserving key function K,
   two calls share an entry exactly when they round to the same values *)
Theorem merge_iff_round_equal {T} (K : list rval * list (Z * rval) -> T) :
  (forall x y, K x = K y -> x = y) ->
  forall tol m a1 k1 a2 k2,
    K (round_call rnd tol m a1 k1) = K (round_call rnd tol m a2 k2) <->
    round_call rnd tol m a1 k1 = round_call rnd tol m a2 k2.
Proof. intros Hinj tol m a1 k1 a2 k2. split; [apply Hinj|intros ->; reflexivity]. Qed.

(* rounding an already rounded value changes nothing when round(., tol) is idempotent *)
Theorem deep_idempotent : (forall b, rnd (rnd b) = rnd b) -> forall v, deep rnd (deep rnd v) = deep rnd v.
Proof.
  intros Hi v. induction v using rval_ind2; cbn [deep]; try reflexivity.
  - now rewrite Hi.
  - destruct k; cbn [deep]; try reflexivity; f_equal;
      (induction H as [|x r Hx Hr IH]; cbn [map]; [reflexivity|]; f_equal; [exact Hx|exact IH]).
  - cbn [deep]. f_equal. induction H as [|x r Hx Hr IH]; cbn [map]; [reflexivity|].
    f_equal; [|exact IH]. destruct x as [kx vx]. cbn [fst snd] in *. f_equal. exact Hx.
Qed.

End Facts.
