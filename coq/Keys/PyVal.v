(* M4 base: a small universe of Python values, Python equality, ordered str-keyed dicts. Models only. *)
From Coq Require Export List ZArith Bool.
Export ListNotations.
Open Scope Z_scope.

Definition str := list Z.           (* a Python str as code points *)

Fixpoint str_eqb (a b : str) : bool :=
  match a, b with
  | [], [] => true
  | x :: r, y :: s => Z.eqb x y && str_eqb r s
  | _, _ => false
  end.

(* Python's str ordering: lexicographic by code point *)
Fixpoint str_ltb (a b : str) : bool :=
  match a, b with
  | [], [] => false
  | [], _ :: _ => true
  | _ :: _, [] => false
  | x :: r, y :: s => if Z.ltb x y then true else if Z.eqb x y then str_ltb r s else false
  end.

Inductive pyval :=
| VInt (z : Z)
| VBool (b : bool)
| VFlt (q : Z)                       (* the float q/4 *)
| VStr (s : str)
| VNone
| VNull                              (* klepto.NULL *)
| VSent                              (* the sentinel object configured on the keymap *)
| VTy (t : Z)                        (* a type object *)
| VTup (l : list pyval)
| VDict (l : list (str * pyval)).    (* a dict with str keys, insertion ordered *)

(* type(v), as an index *)
Definition ty_of (v : pyval) : Z :=
  match v with
  | VInt _ => 0 | VBool _ => 1 | VFlt _ => 2 | VStr _ => 3 | VNone => 4
  | VTup _ => 5 | VNull => 6 | VSent => 7 | VTy _ => 8 | VDict _ => 9
  end.

(* the types keymap.encode unwraps a 1-tuple for: int, str, bytes, frozenset, NoneType *)
Definition fasttype (v : pyval) : bool :=
  match v with VInt _ | VStr _ | VNone => true | _ => false end.

(* numeric tower: value * 4 *)
Definition num_of (v : pyval) : option Z :=
  match v with
  | VInt z => Some (4 * z)
  | VBool b => Some (if b then 4 else 0)
  | VFlt q => Some q
  | _ => None
  end.

Fixpoint assoc (k : str) (d : list (str * pyval)) : option pyval :=
  match d with
  | [] => None
  | (k', v) :: r => if str_eqb k k' then Some v else assoc k r
  end.

(* Python == on this universe (1 == 1.0 == True; dict equality ignores order) *)
Fixpoint py_eqb (a b : pyval) {struct a} : bool :=
  match a, b with
  | VStr x, VStr y => str_eqb x y
  | VNone, VNone => true
  | VNull, VNull => true
  | VSent, VSent => true
  | VTy x, VTy y => Z.eqb x y
  | VTup la, VTup lb =>
      (fix go (la lb : list pyval) : bool :=
         match la, lb with
         | [], [] => true
         | x :: xs, y :: ys => py_eqb x y && go xs ys
         | _, _ => false
         end) la lb
  | VDict da, VDict db =>
      Nat.eqb (length da) (length db) &&
      (fix go (da : list (str * pyval)) : bool :=
         match da with
         | [] => true
         | (k, v) :: r => match assoc k db with Some v' => py_eqb v v' | None => false end && go r
         end) da
  | _, _ =>
      match num_of a, num_of b with
      | Some x, Some y => Z.eqb x y
      | _, _ => false
      end
  end.

(* ---------------------------------------------------------------- ordered str-keyed dict *)
Definition kmap := list (str * pyval).

Definition kget (m : kmap) (k : str) : option pyval := assoc k m.

Fixpoint kset (m : kmap) (k : str) (v : pyval) : kmap :=
  match m with
  | [] => [(k, v)]
  | (k', v') :: r => if str_eqb k k' then (k, v) :: r else (k', v') :: kset r k v
  end.

Fixpoint kdel (m : kmap) (k : str) : kmap :=
  match m with
  | [] => []
  | (k', v') :: r => if str_eqb k k' then kdel r k else (k', v') :: kdel r k
  end.

Definition kupdate (m m2 : kmap) : kmap := fold_left (fun acc kv => kset acc (fst kv) (snd kv)) m2 m.
Definition kkeys (m : kmap) : list str := map fst m.
Definition kmem (m : kmap) (k : str) : bool := match kget m k with Some _ => true | None => false end.

Fixpoint str_in (k : str) (l : list str) : bool :=
  match l with [] => false | x :: r => str_eqb k x || str_in k r end.

(* sorted(list(kwds.items())): insertion sort by key (keys are distinct) *)
Fixpoint ins_item (x : str * pyval) (l : kmap) : kmap :=
  match l with
  | [] => [x]
  | y :: r => if str_ltb (fst x) (fst y) then x :: y :: r else y :: ins_item x r
  end.
Definition sort_items (m : kmap) : kmap := fold_left (fun acc x => ins_item x acc) m [].
