(* M6: klepto.validate / isvalid (_inspect.py:182-276) for plain Python functions, transcribed,
   and the proof that on signatures without keyword-only parameters it agrees with Python's binding. *)
From Klepto Require Import PyVal KFacts Keys KeygenFacts.
From Coq Require Import Lia.

Definition is_nil {A} (l : list A) : bool := match l with [] => true | _ => false end.

(* validate(func, *args, **kwds) for a plain function (no partial, not a method): the tests in
   the order of the source; true = returns None, false = raises TypeError *)
Definition validate_ok (sig : pysig) (c : call) : bool :=
  let '(args, kwds) := c in
  let named := sig_explicit sig in
  let defaults := sig_defaults sig in
  (* get any varargs; FAIL if func doesn't take varargs *)
  let var_args := skipn (length named) args in
  if negb (is_nil var_args) && negb (s_varargs sig) then false else
  (* check any varkwds; FAIL if func doesn't take varkwds *)
  let var_kwds := filter (fun k => negb (str_in k named)) (kkeys kwds) in
  if negb (is_nil var_kwds) && negb (s_varkw sig) then false else
  (* get user_args as a dict; check for duplicates *)
  let args_kwds := zip_names named args in
  if existsb (fun k => kmem kwds k) (kkeys args_kwds) then false else
  (* check if all required are provided *)
  let required := filter (fun n => negb (kmem defaults n)) named in
  let all := kupdate (kupdate defaults kwds) args_kwds in
  forallb (fun n => kmem all n) required.

Definition bind_ok (sig : pysig) (c : call) : bool := match bind sig c with Some _ => true | None => false end.

(* ---------------------------------------------------------------- when does bind succeed *)
Lemma kmem_kset m k v k' : kmem (kset m k v) k' = str_eqb k' k || kmem m k'.
Proof. unfold kmem. rewrite kget_kset. destruct (str_eqb k' k); reflexivity. Qed.

(* bind_kws succeeds iff no keyword hits a positionally filled parameter and every other keyword
   has somewhere to go (signatures without keyword-only parameters) *)
Lemma bind_kws_some sig npos kws : s_kwonly sig = [] -> NoDup (kkeys kws) -> forall named extra,
  (forall k, In k (kkeys kws) -> kmem named k = false \/ exists i, index_of k (sig_explicit sig) 0 = Some i /\ (i < npos)%nat) ->
  (forall k, In k (kkeys kws) -> kmem extra k = false) ->
  (bind_kws sig npos kws named extra <> None <->
   (forall k i, In k (kkeys kws) -> index_of k (sig_explicit sig) 0 = Some i -> (npos <= i)%nat) /\
   (s_varkw sig = true \/ forall k, In k (kkeys kws) -> In k (sig_explicit sig))).
Proof.
  intros Hko. induction kws as [|[k v] r IH]; intros Hnd named extra Hn He.
  - cbn. split; [intros _; split; [intros k i []|right; intros k []]|discriminate].
  - cbn [kkeys map fst] in Hnd. inversion Hnd as [|a q Ha Hq]; subst.
    cbn [bind_kws]. unfold sig_explicit in *. rewrite Hko. cbn [names_of map str_in].
    destruct (index_of k (names_of (s_params sig)) 0) as [i|] eqn:Ei.
    + destruct (Nat.ltb i npos) eqn:El.
      * apply Nat.ltb_lt in El. split; [congruence|]. intros [H _]. exfalso.
        specialize (H k i (or_introl eq_refl) Ei). lia.
      * apply Nat.ltb_ge in El.
        assert (Hm : kmem named k = false).
        { destruct (Hn k (or_introl eq_refl)) as [H|(j & Hj & Hlt)]; [exact H|]. rewrite Ei in Hj. inversion Hj. lia. }
        rewrite Hm. rewrite IH; try assumption.
        -- split.
           ++ intros [H1 H2]. split.
              ** intros k' j [E|Hin] Hj; [cbn in E; subst k'; rewrite Ei in Hj; inversion Hj; subst; exact El|now apply (H1 k' j)].
              ** destruct H2 as [H2|H2]; [now left|right]. intros k' [E|Hin]; [|now apply H2].
                 cbn in E. subst k'. eapply nth_error_In. pose proof (index_of_nth _ _ _ _ Ei) as Hx. exact Hx.
           ++ intros [H1 H2]. split.
              ** intros k' j Hin Hj. apply (H1 k' j); [now right|exact Hj].
              ** destruct H2 as [H2|H2]; [now left|right]. intros k' Hin. apply H2. now right.
        -- intros k' Hin. rewrite kmem_kset.
           assert (str_eqb k' k = false) as -> by (apply str_eqb_neq; intro; subst; contradiction). cbn [orb].
           apply Hn. now right.
        -- intros k' Hin. apply He. now right.
    + destruct (s_varkw sig) eqn:Ev.
      * assert (Hm : kmem extra k = false) by (apply He; now left). rewrite Hm. rewrite IH; try assumption.
        -- split.
           ++ intros [H1 _]. split; [|now left]. intros k' j [E|Hin] Hj; [cbn in E; subst k'; congruence|now apply (H1 k' j)].
           ++ intros [H1 _]. split; [|now left]. intros k' j Hin Hj. apply (H1 k' j); [now right|exact Hj].
        -- intros k' Hin. apply Hn. now right.
        -- intros k' Hin. rewrite kmem_kset.
           assert (str_eqb k' k = false) as -> by (apply str_eqb_neq; intro; subst; contradiction). cbn [orb].
           apply He. now right.
      * split; [congruence|]. intros [_ [H|H]]; [discriminate|]. exfalso.
        apply index_of_none in Ei. apply Ei. apply H. now left.
Qed.

Lemma kget_defaults_cons k d r m : ~ In k (names_of r) ->
  kget (defaults_of ((k, d) :: r)) m = if str_eqb m k then d else kget (defaults_of r) m.
Proof.
  intros Hk. unfold defaults_of. cbn [flat_map fst snd]. destruct d as [dv|]; cbn [app].
  - unfold kget. cbn [assoc]. destruct (str_eqb m k); reflexivity.
  - destruct (str_eqb m k) eqn:E; [|reflexivity]. apply str_eqb_spec in E. subst m.
    apply kget_none_notin. intros Hin. apply Hk. now apply kkeys_defaults_of.
Qed.

Lemma fill_defaults_some ps named : NoDup (names_of ps) -> forall acc,
  fill_defaults ps named acc <> None <->
  forall n, In n (names_of ps) -> kget named n <> None \/ kget (defaults_of ps) n <> None.
Proof.
  induction ps as [|[k d] r IH]; intros Hnd acc; cbn [fill_defaults names_of map fst In].
  - split; [intros _ n []|discriminate].
  - fold (names_of r). cbn [names_of map fst] in Hnd. inversion Hnd as [|a q Ha Hq]; subst. fold (names_of r) in *.
    assert (Hother : forall n, In n (names_of r) ->
              kget (defaults_of ((k, d) :: r)) n = kget (defaults_of r) n).
    { intros n Hin. rewrite kget_defaults_cons by exact Ha.
      assert (str_eqb n k = false) as -> by (apply str_eqb_neq; intro; subst; contradiction). reflexivity. }
    assert (Hk : kget (defaults_of ((k, d) :: r)) k = d) by (rewrite kget_defaults_cons by exact Ha; now rewrite str_eqb_refl).
    destruct (kget named k) as [v|] eqn:Ek.
    + rewrite (IH Hq). split.
      * intros H n [<-|Hin]; [left; congruence|]. rewrite (Hother n Hin). now apply H.
      * intros H n Hin. rewrite <- (Hother n Hin). apply H. now right.
    + destruct d as [dv|].
      * rewrite (IH Hq). split.
        -- intros H n [<-|Hin]; [right; rewrite Hk; discriminate|]. rewrite (Hother n Hin). now apply H.
        -- intros H n Hin. rewrite <- (Hother n Hin). apply H. now right.
      * split; [congruence|]. intros H. exfalso. destruct (H k (or_introl eq_refl)) as [A|A]; congruence.
Qed.

(* ---------------------------------------------------------------- validate = bind (no keyword-only parameters) *)
Lemma is_nil_skipn {A} n (l : list A) : is_nil (skipn n l) = Nat.leb (length l) n.
Proof.
  revert l. induction n as [|n IH]; intros [|x r]; cbn [skipn is_nil length Nat.leb]; try reflexivity. apply IH.
Qed.

Lemma forallb_filter_neg {A} (f g : A -> bool) l :
  forallb g (filter (fun x => negb (f x)) l) = forallb (fun x => f x || g x) l.
Proof.
  induction l as [|x r IH]; cbn [filter forallb]; [reflexivity|].
  destruct (f x); cbn [negb orb forallb]; [exact IH|now rewrite IH].
Qed.

Theorem validate_agrees_with_binding sig c : s_kwonly sig = [] -> wf_sig sig -> wf_call c ->
  validate_ok sig c = bind_ok sig c.
Proof.
  intros Hko Hwf Hc. destruct c as [args kwds]. unfold wf_call in Hc. cbn [snd] in Hc.
  pose proof (wf_sig_explicit sig Hwf) as HndE.
  assert (Hdefs : forall n, kget (sig_defaults sig) n = kget (defaults_of (s_params sig)) n).
  { intros n. unfold sig_defaults. rewrite Hko. reflexivity. }
  unfold validate_ok, bind_ok, bind. fold (sig_explicit sig).
  rewrite is_nil_skipn.
  assert (Hlen : (Nat.ltb (length (sig_explicit sig)) (length args) && negb (s_varargs sig)) =
                 (negb (Nat.leb (length args) (length (sig_explicit sig))) && negb (s_varargs sig))).
  { f_equal. rewrite Nat.ltb_antisym. reflexivity. }
  rewrite Hlen. destruct (negb (Nat.leb (length args) (length (sig_explicit sig))) && negb (s_varargs sig)) eqn:E1; [reflexivity|].
  (* the keyword distribution *)
  set (named0 := zip_names (sig_explicit sig) args).
  assert (Hn0 : forall k, kget named0 k = match index_of k (sig_explicit sig) 0 with Some i => nth_error args i | None => None end)
    by (intros k; subst named0; now apply kget_zip).
  assert (Hpre : forall k, In k (kkeys kwds) ->
            kmem named0 k = false \/ exists i, index_of k (sig_explicit sig) 0 = Some i /\ (i < length args)%nat).
  { intros k _. unfold kmem. rewrite Hn0. destruct (index_of k (sig_explicit sig) 0) as [i|] eqn:Ei; [|now left].
    destruct (nth_error args i) eqn:En; [|now left]. right. exists i. split; [reflexivity|]. apply nth_error_Some. congruence. }
  pose proof (bind_kws_some sig (length args) kwds Hko Hc named0 [] Hpre (fun k _ => eq_refl)) as Hsome.
  (* validate's two keyword tests *)
  set (var_kwds := filter (fun k => negb (str_in k (sig_explicit sig))) (kkeys kwds)).
  assert (Hvk : is_nil var_kwds = true <-> forall k, In k (kkeys kwds) -> In k (sig_explicit sig)).
  { subst var_kwds. generalize (kkeys kwds). intros l. induction l as [|x r IH]; cbn [filter]; [split; [intros _ k []|reflexivity]|].
    destruct (str_in x (sig_explicit sig)) eqn:Ex; cbn [negb].
    - rewrite IH. apply str_in_spec in Ex. split; [intros H k [<-|Hin]; auto|intros H k Hin; apply H; now right].
    - cbn [is_nil]. split; [discriminate|]. intros H. apply str_in_false in Ex. exfalso. apply Ex. apply H. now left. }
  assert (Hdup : existsb (fun k => kmem kwds k) (kkeys named0) = false <->
                 forall k i, In k (kkeys kwds) -> index_of k (sig_explicit sig) 0 = Some i -> (length args <= i)%nat).
  { split.
    - intros H k i Hin Hi. destruct (Nat.lt_ge_cases i (length args)) as [Hlt|Hge]; [|exact Hge]. exfalso.
      assert (Hk0 : In k (kkeys named0)).
      { destruct (nth_error args i) as [v|] eqn:En; [|apply nth_error_None in En; lia].
        apply (kget_in_keys named0 k v). now rewrite Hn0, Hi. }
      assert (Hex : existsb (fun k => kmem kwds k) (kkeys named0) = true).
      { apply existsb_exists. exists k. split; [exact Hk0|]. unfold kmem.
        destruct (kget kwds k) eqn:Eg; [reflexivity|]. apply kget_none_notin in Eg. contradiction. }
      congruence.
    - intros H. destruct (existsb (fun k => kmem kwds k) (kkeys named0)) eqn:Ex; [|reflexivity]. exfalso.
      apply existsb_exists in Ex. destruct Ex as (k & Hk0 & Hm).
      assert (Hkw : In k (kkeys kwds)).
      { unfold kmem in Hm. destruct (kget kwds k) eqn:Eg; [eapply kget_in_keys; eauto|discriminate]. }
      destruct (kget named0 k) as [v|] eqn:Eg; [|apply kget_none_notin in Eg; contradiction].
      rewrite Hn0 in Eg. destruct (index_of k (sig_explicit sig) 0) as [i|] eqn:Ei; [|discriminate].
      specialize (H k i Hkw Ei). assert (Hx : nth_error args i <> None) by congruence. apply nth_error_Some in Hx. lia. }
  destruct (negb (is_nil var_kwds) && negb (s_varkw sig)) eqn:E2.
  - (* an unexpected keyword: bind fails too *)
    apply andb_prop in E2. destruct E2 as [Ea Eb].
    destruct (bind_kws sig (length args) kwds named0 []) as [[n1 ex]|] eqn:Ek; [|reflexivity]. exfalso.
    assert (Hne : Some (n1, ex) <> None) by discriminate.
    apply Hsome in Hne. destruct Hne as [_ [Hv|Hv]].
    + rewrite Hv in Eb. discriminate.
    + apply Hvk in Hv. rewrite Hv in Ea. discriminate.
  - destruct (existsb (fun k => kmem kwds k) (kkeys named0)) eqn:E3.
    + (* duplicates: bind fails too *)
      destruct (bind_kws sig (length args) kwds named0 []) as [[n1 ex]|] eqn:Ek; [|reflexivity]. exfalso.
      assert (Hne : Some (n1, ex) <> None) by discriminate.
      apply Hsome in Hne. destruct Hne as [Hd _]. apply Hdup in Hd. congruence.
    + (* keyword distribution succeeds in both *)
      assert (Hok : bind_kws sig (length args) kwds named0 [] <> None).
      { apply Hsome. split; [now apply Hdup|].
        apply andb_false_iff in E2. destruct E2 as [E2|E2].
        - right. apply Hvk. now destruct (is_nil var_kwds).
        - left. now destruct (s_varkw sig). }
      destruct (bind_kws sig (length args) kwds named0 []) as [[n1 ex]|] eqn:Ek; [|congruence].
      destruct (bind_kws_spec sig (length args) kwds Hc _ _ _ _ Ek) as (A & _ & _ & _).
      rewrite Hko, app_nil_r.
      (* required parameters *)
      set (all := kupdate (kupdate (sig_defaults sig) kwds) named0).
      assert (Hall : forall n, kmem all n = true <-> kget named0 n <> None \/ kget kwds n <> None \/ kget (sig_defaults sig) n <> None).
      { intros n. subst all. unfold kmem. rewrite kget_kupdate.
        2:{ subst named0. rewrite kkeys_zip. now apply NoDup_firstn. }
        rewrite kget_kupdate by exact Hc.
        destruct (kget named0 n); [split; [intros _; left; discriminate|reflexivity]|].
        destruct (kget kwds n); [split; [intros _; right; left; discriminate|reflexivity]|].
        destruct (kget (sig_defaults sig) n); [split; [intros _; right; right; discriminate|reflexivity]|].
        split; [discriminate|intros [H|[H|H]]; congruence]. }
      rewrite forallb_filter_neg.
      assert (HndP : NoDup (names_of (s_params sig))) by exact HndE.
      destruct (fill_defaults (s_params sig) n1 []) as [nm|] eqn:Ef.
      * (* bind succeeds: every parameter is bound *)
        assert (Hne : fill_defaults (s_params sig) n1 [] <> None) by congruence.
        pose proof (proj1 (fill_defaults_some (s_params sig) n1 HndP []) Hne) as Hall2. clear Hne. rename Hall2 into Hne.
        apply forallb_forall. intros n Hin. unfold sig_explicit in Hin.
        destruct (kmem (sig_defaults sig) n) eqn:Em; [reflexivity|]. cbn [orb]. apply Hall.
        destruct (Hne n Hin) as [H|H].
        -- rewrite A in H. unfold in_sig in H. fold (sig_explicit sig) in H.
           assert (str_in n (sig_explicit sig) = true) as Hs by (now apply str_in_spec). rewrite Hs in H. cbn [orb] in H.
           destruct (kget kwds n); [right; left; discriminate|left; exact H].
        -- right. right. now rewrite Hdefs.
      * (* bind fails on a missing parameter: so does validate *)
        destruct (forallb (fun x => kmem (sig_defaults sig) x || kmem all x) (sig_explicit sig)) eqn:Ev; [|reflexivity]. exfalso.
        assert (Hne : fill_defaults (s_params sig) n1 [] <> None).
        { apply (proj2 (fill_defaults_some (s_params sig) n1 HndP [])). intros n Hin.
          pose proof (proj1 (forallb_forall _ _) Ev n Hin) as Hn. apply orb_prop in Hn. destruct Hn as [Hn|Hn].
          - right. rewrite <- Hdefs. unfold kmem in Hn. destruct (kget (sig_defaults sig) n); [discriminate|discriminate].
          - apply Hall in Hn. destruct Hn as [H|[H|H]].
            + left. rewrite A. destruct (kget kwds n); [destruct (in_sig sig n); [discriminate|exact H]|exact H].
            + left. rewrite A. unfold in_sig. fold (sig_explicit sig).
              assert (str_in n (sig_explicit sig) = true) as -> by (now apply str_in_spec). cbn [orb].
              destruct (kget kwds n); [discriminate|congruence].
            + right. now rewrite <- Hdefs. }
        congruence.
Qed.
