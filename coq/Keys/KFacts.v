(* Facts about strings, str-keyed dicts and sorting of items (M4 base). *)
From Klepto Require Import PyVal.
From Coq Require Import Lia Sorting.Permutation.

(* ---------------------------------------------------------------- strings *)
Lemma str_eqb_spec a b : str_eqb a b = true <-> a = b.
Proof.
  revert b. induction a as [|x r IH]; intros [|y s]; cbn [str_eqb]; split; try congruence; try discriminate.
  - intros H. apply andb_prop in H. destruct H as [H1 H2]. apply Z.eqb_eq in H1. apply IH in H2. congruence.
  - intros H. inversion H; subst. rewrite Z.eqb_refl. cbn. now apply IH.
Qed.

Lemma str_eqb_refl a : str_eqb a a = true.
Proof. now apply str_eqb_spec. Qed.

Lemma str_eqb_neq a b : str_eqb a b = false <-> a <> b.
Proof.
  split.
  - intros H E. apply str_eqb_spec in E. congruence.
  - intros H. destruct (str_eqb a b) eqn:E; [|reflexivity]. apply str_eqb_spec in E. contradiction.
Qed.

Lemma str_eqb_sym a b : str_eqb a b = str_eqb b a.
Proof.
  destruct (str_eqb a b) eqn:E.
  - apply str_eqb_spec in E. subst. symmetry. apply str_eqb_refl.
  - symmetry. apply str_eqb_neq. apply str_eqb_neq in E. congruence.
Qed.

Lemma str_dec (a b : str) : {a = b} + {a <> b}.
Proof. apply list_eq_dec. apply Z.eq_dec. Defined.

Lemma str_in_spec k l : str_in k l = true <-> In k l.
Proof.
  induction l as [|x r IH]; cbn [str_in In]; [split; [discriminate|tauto]|].
  rewrite orb_true_iff, IH, str_eqb_spec. split; intros [H|H]; auto.
Qed.

Lemma str_in_false k l : str_in k l = false <-> ~ In k l.
Proof. rewrite <- str_in_spec. destruct (str_in k l); split; congruence || tauto. Qed.

(* the order *)
Lemma str_ltb_irrefl a : str_ltb a a = false.
Proof. induction a as [|x r IH]; cbn [str_ltb]; [reflexivity|]. now rewrite Z.ltb_irrefl, Z.eqb_refl. Qed.

Lemma str_ltb_trans a b c : str_ltb a b = true -> str_ltb b c = true -> str_ltb a c = true.
Proof.
  revert b c. induction a as [|x r IH]; intros b c.
  - destruct b as [|y s]; [discriminate|]. destruct c as [|z t]; [discriminate|]. reflexivity.
  - destruct b as [|y s]; [discriminate|]. destruct c as [|z t]; [cbn; intros _ H; discriminate H|].
    cbn [str_ltb].
    destruct (Z.ltb x y) eqn:E1; destruct (Z.ltb y z) eqn:E2;
      try apply Z.ltb_lt in E1; try apply Z.ltb_lt in E2; try apply Z.ltb_ge in E1; try apply Z.ltb_ge in E2.
    + intros _ _. assert (Z.ltb x z = true) as -> by (apply Z.ltb_lt; lia). reflexivity.
    + intros _. destruct (Z.eqb y z) eqn:E3; [|discriminate]. apply Z.eqb_eq in E3. subst z. intros _.
      assert (Z.ltb x y = true) as -> by (apply Z.ltb_lt; lia). reflexivity.
    + destruct (Z.eqb x y) eqn:E3; [|discriminate]. apply Z.eqb_eq in E3. subst y. intros _ _.
      assert (Z.ltb x z = true) as -> by (apply Z.ltb_lt; lia). reflexivity.
    + destruct (Z.eqb x y) eqn:E3; [|discriminate]. destruct (Z.eqb y z) eqn:E4; [|discriminate].
      apply Z.eqb_eq in E3, E4. subst. rewrite Z.ltb_irrefl, Z.eqb_refl. apply IH.
Qed.

Lemma str_ltb_total a b : a <> b -> str_ltb a b = true \/ str_ltb b a = true.
Proof.
  revert b. induction a as [|x r IH]; intros b Hne.
  - destruct b as [|y s]; [congruence|]. left. reflexivity.
  - destruct b as [|y s]; [right; reflexivity|]. cbn [str_ltb].
    destruct (Z.ltb x y) eqn:E1; [auto|]. destruct (Z.ltb y x) eqn:E2; [auto|].
    apply Z.ltb_ge in E1, E2. assert (x = y) by lia. subst y. rewrite Z.eqb_refl.
    apply IH. congruence.
Qed.

Lemma str_ltb_asym a b : str_ltb a b = true -> str_ltb b a = false.
Proof.
  intros H. destruct (str_ltb b a) eqn:E; [|reflexivity].
  pose proof (str_ltb_trans a b a H E) as H2. rewrite str_ltb_irrefl in H2. discriminate.
Qed.

(* ---------------------------------------------------------------- dicts *)
Lemma kget_kset_same m k v : kget (kset m k v) k = Some v.
Proof.
  unfold kget. induction m as [|[k' v'] r IH]; cbn [kset assoc].
  - now rewrite str_eqb_refl.
  - destruct (str_eqb k k') eqn:E; cbn [assoc]; [now rewrite str_eqb_refl|now rewrite E].
Qed.

Lemma kget_kset_other m k v k' : k <> k' -> kget (kset m k v) k' = kget m k'.
Proof.
  intros Hne. unfold kget. induction m as [|[k0 v0] r IH]; cbn [kset assoc].
  - assert (str_eqb k' k = false) as -> by (apply str_eqb_neq; congruence). reflexivity.
  - destruct (str_eqb k k0) eqn:E; cbn [assoc].
    + apply str_eqb_spec in E. subst k0.
      assert (str_eqb k' k = false) as -> by (apply str_eqb_neq; congruence). reflexivity.
    + now rewrite IH.
Qed.

Lemma kget_kset m k v k' : kget (kset m k v) k' = if str_eqb k' k then Some v else kget m k'.
Proof.
  destruct (str_eqb k' k) eqn:E.
  - apply str_eqb_spec in E. subst. apply kget_kset_same.
  - apply kget_kset_other. apply str_eqb_neq in E. congruence.
Qed.

Lemma kget_kdel m k k' : kget (kdel m k) k' = if str_eqb k' k then None else kget m k'.
Proof.
  unfold kget. induction m as [|[k0 v0] r IH]; cbn [kdel assoc].
  - destruct (str_eqb k' k); reflexivity.
  - destruct (str_eqb k k0) eqn:E.
    + apply str_eqb_spec in E. subst k0. rewrite IH. destruct (str_eqb k' k); reflexivity.
    + cbn [assoc]. rewrite IH. destruct (str_eqb k' k) eqn:E2; [|reflexivity].
      apply str_eqb_spec in E2. subst k'. now rewrite E.
Qed.

Lemma kupdate_cons m kv m2 : kupdate m (kv :: m2) = kupdate (kset m (fst kv) (snd kv)) m2.
Proof. reflexivity. Qed.

Lemma kget_in_keys m k v : kget m k = Some v -> In k (kkeys m).
Proof.
  unfold kget. induction m as [|[k' v'] r IH]; cbn [assoc kkeys map fst]; [discriminate|].
  destruct (str_eqb k k') eqn:E; intros H.
  - apply str_eqb_spec in E. subst. now left.
  - right. now apply IH.
Qed.

Lemma kget_none_notin m k : kget m k = None <-> ~ In k (kkeys m).
Proof.
  unfold kget. induction m as [|[k' v'] r IH]; cbn [assoc kkeys map fst In]; [tauto|].
  destruct (str_eqb k k') eqn:E.
  - apply str_eqb_spec in E. subst. split; [discriminate|]. intros H. exfalso. apply H. now left.
  - apply str_eqb_neq in E. rewrite IH. split; [intros H [H1|H1]; [congruence|tauto]|tauto].
Qed.

(* later entries of the update win over earlier ones; with distinct keys: m2 first, then m *)
Lemma kget_kupdate m m2 k : NoDup (kkeys m2) ->
  kget (kupdate m m2) k = match kget m2 k with Some v => Some v | None => kget m k end.
Proof.
  revert m. induction m2 as [|[k0 v0] r IH]; intros m Hnd; [reflexivity|].
  cbn [kkeys map fst] in Hnd. inversion Hnd as [|a l Ha Hl]; subst.
  rewrite kupdate_cons, IH by exact Hl. cbn [fst snd]. unfold kget at 3. cbn [assoc].
  destruct (str_eqb k k0) eqn:E.
  - apply str_eqb_spec in E. subst k0.
    assert (kget r k = None) as -> by (now apply kget_none_notin). apply kget_kset_same.
  - fold (kget r k). destruct (kget r k); [reflexivity|]. apply kget_kset_other. apply str_eqb_neq in E. congruence.
Qed.

Lemma kkeys_kset_in m k v : In k (kkeys m) -> kkeys (kset m k v) = kkeys m.
Proof.
  induction m as [|[k' v'] r IH]; cbn [kkeys map fst In kset]; [tauto|].
  intros H. destruct (str_eqb k k') eqn:E; cbn [map fst].
  - apply str_eqb_spec in E. now subst.
  - f_equal. apply IH. destruct H as [H|H]; [subst; rewrite str_eqb_refl in E; discriminate|exact H].
Qed.

Lemma kkeys_kset_notin m k v : ~ In k (kkeys m) -> kkeys (kset m k v) = kkeys m ++ [k].
Proof.
  induction m as [|[k' v'] r IH]; cbn [kkeys map fst In kset app]; [reflexivity|].
  intros H. destruct (str_eqb k k') eqn:E; cbn [map fst].
  - apply str_eqb_spec in E. subst. tauto.
  - f_equal. apply IH. tauto.
Qed.

Lemma NoDup_snoc_str (l : list str) x : NoDup l -> ~ In x l -> NoDup (l ++ [x]).
Proof.
  induction l as [|y r IH]; cbn [app]; intros Hnd Hnin.
  - constructor; [tauto|constructor].
  - inversion Hnd as [|y' r' Hy Hr]; subst. constructor.
    + rewrite in_app_iff. cbn [In]. intros [H|[H|[]]]; [tauto|subst; apply Hnin; now left].
    + apply IH; [exact Hr|]. intro; apply Hnin; now right.
Qed.

Lemma NoDup_kkeys_kset m k v : NoDup (kkeys m) -> NoDup (kkeys (kset m k v)).
Proof.
  intros H. destruct (in_dec str_dec k (kkeys m)) as [i|n].
  - now rewrite kkeys_kset_in.
  - rewrite kkeys_kset_notin by exact n. now apply NoDup_snoc_str.
Qed.

Lemma in_kkeys_kdel m k k' : In k' (kkeys (kdel m k)) <-> k' <> k /\ In k' (kkeys m).
Proof.
  induction m as [|[k0 v0] r IH]; cbn [kdel kkeys map fst In]; [tauto|].
  destruct (str_eqb k k0) eqn:E.
  - apply str_eqb_spec in E. subst k0. rewrite IH. split; [tauto|]. intros [H1 [H2|H2]]; [congruence|tauto].
  - apply str_eqb_neq in E. cbn [kkeys map fst In]. fold (kkeys (kdel r k)). rewrite IH.
    split; intros; intuition congruence.
Qed.

Lemma NoDup_kkeys_kdel m k : NoDup (kkeys m) -> NoDup (kkeys (kdel m k)).
Proof.
  induction m as [|[k0 v0] r IH]; cbn [kdel kkeys map fst]; intros H; [constructor|].
  inversion H as [|a l Ha Hl]; subst.
  destruct (str_eqb k k0); [now apply IH|].
  cbn [kkeys map fst]. constructor; [|now apply IH]. fold (kkeys (kdel r k)). rewrite in_kkeys_kdel. tauto.
Qed.

Lemma NoDup_kkeys_kupdate m m2 : NoDup (kkeys m) -> NoDup (kkeys (kupdate m m2)).
Proof.
  revert m. induction m2 as [|[k v] r IH]; intros m H; [exact H|].
  rewrite kupdate_cons. apply IH. now apply NoDup_kkeys_kset.
Qed.

(* with distinct keys, lookup = membership of the pair *)
Lemma kget_in m k v : NoDup (kkeys m) -> (kget m k = Some v <-> In (k, v) m).
Proof.
  unfold kget. induction m as [|[k0 v0] r IH]; cbn [assoc kkeys map fst In]; intros Hnd; [split; [discriminate|tauto]|].
  inversion Hnd as [|a l Ha Hl]; subst.
  destruct (str_eqb k k0) eqn:E.
  - apply str_eqb_spec in E. subst k0. split.
    + intros H; inversion H; subst. now left.
    + intros [H|H]; [inversion H; reflexivity|]. exfalso. apply Ha. change (In k (map fst r)). now apply (in_map fst r (k, v)).
  - apply str_eqb_neq in E. rewrite (IH Hl). split; [tauto|]. intros [H|H]; [inversion H; congruence|exact H].
Qed.

(* ---------------------------------------------------------------- sorting items *)
Definition item_lt (x y : str * pyval) : Prop := str_ltb (fst x) (fst y) = true.

Inductive sorted_items : kmap -> Prop :=
| si_nil : sorted_items []
| si_cons x l : (forall y, In y l -> item_lt x y) -> sorted_items l -> sorted_items (x :: l).

Lemma ins_item_perm x l : Permutation (ins_item x l) (x :: l).
Proof.
  induction l as [|y r IH]; cbn [ins_item]; [apply Permutation_refl|].
  destruct (str_ltb (fst x) (fst y)); [apply Permutation_refl|].
  eapply perm_trans; [apply perm_skip, IH|apply perm_swap].
Qed.

Lemma ins_item_sorted x l : (forall y, In y l -> fst y <> fst x) -> sorted_items l -> sorted_items (ins_item x l).
Proof.
  induction l as [|y r IH]; intros Hne Hs; cbn [ins_item].
  - constructor; [intros ? []|constructor].
  - inversion Hs as [|y' r' Hy Hr]; subst.
    destruct (str_ltb (fst x) (fst y)) eqn:E.
    + constructor; [|exact Hs]. intros z [<-|Hz]; [exact E|].
      unfold item_lt. eapply str_ltb_trans; [exact E|]. now apply Hy.
    + assert (Hyx : str_ltb (fst y) (fst x) = true).
      { destruct (str_ltb_total (fst y) (fst x)) as [H|H]; [apply Hne; now left|exact H|congruence]. }
      constructor; [|apply IH; [intros z Hz; apply Hne; now right|exact Hr]].
      intros z Hz. apply (Permutation_in _ (ins_item_perm x r)) in Hz. destruct Hz as [<-|Hz]; [exact Hyx|now apply Hy].
Qed.

Lemma sort_aux_perm l acc : Permutation (fold_left (fun acc x => ins_item x acc) l acc) (acc ++ l).
Proof.
  revert acc. induction l as [|x r IH]; intros acc; cbn [fold_left].
  - rewrite app_nil_r. apply Permutation_refl.
  - eapply perm_trans; [apply IH|]. eapply perm_trans; [apply Permutation_app_tail, ins_item_perm|].
    cbn [app]. apply Permutation_middle.
Qed.

Lemma sort_items_perm m : Permutation (sort_items m) m.
Proof. unfold sort_items. apply (sort_aux_perm m []). Qed.

Lemma sort_aux_sorted l acc : NoDup (map fst (acc ++ l)) -> sorted_items acc ->
  sorted_items (fold_left (fun acc x => ins_item x acc) l acc).
Proof.
  revert acc. induction l as [|x r IH]; intros acc Hnd Hs; cbn [fold_left]; [exact Hs|].
  apply IH.
  - eapply Permutation_NoDup; [|exact Hnd]. apply Permutation_map.
    eapply perm_trans; [|apply Permutation_app_tail, Permutation_sym, ins_item_perm].
    cbn [app]. apply Permutation_sym, Permutation_middle.
  - apply ins_item_sorted; [|exact Hs]. intros y Hy E.
    rewrite map_app in Hnd. cbn [map] in Hnd. apply NoDup_remove_2 in Hnd. apply Hnd.
    apply in_or_app. left. rewrite <- E. now apply in_map.
Qed.

Lemma sort_items_sorted m : NoDup (kkeys m) -> sorted_items (sort_items m).
Proof. intros H. unfold sort_items. apply sort_aux_sorted; [exact H|constructor]. Qed.

(* a strictly sorted list is determined by its set of elements *)
Lemma sorted_items_unique l1 l2 : sorted_items l1 -> sorted_items l2 ->
  (forall x, In x l1 <-> In x l2) -> l1 = l2.
Proof.
  revert l2. induction l1 as [|a r IH]; intros l2 H1 H2 Heq.
  - destruct l2 as [|b s]; [reflexivity|]. exfalso. apply (Heq b). now left.
  - destruct l2 as [|b s]; [exfalso; apply (Heq a); now left|].
    inversion H1 as [|a' r' Ha Hr]; subst. inversion H2 as [|b' s' Hb Hs]; subst.
    assert (a = b).
    { destruct (proj1 (Heq a) (or_introl eq_refl)) as [E|Hin]; [congruence|].
      destruct (proj2 (Heq b) (or_introl eq_refl)) as [E|Hin2]; [congruence|].
      pose proof (Hb a Hin) as L1. pose proof (Ha b Hin2) as L2. unfold item_lt in *.
      rewrite (str_ltb_asym _ _ L1) in L2. discriminate. }
    subst b. f_equal. apply IH; try assumption.
    intros x. split; intros Hx.
    + destruct (proj1 (Heq x) (or_intror Hx)) as [E|Hin]; [|exact Hin].
      subst x. pose proof (Ha a Hx) as L. unfold item_lt in L. now rewrite str_ltb_irrefl in L.
    + destruct (proj2 (Heq x) (or_intror Hx)) as [E|Hin]; [|exact Hin].
      subst x. pose proof (Hb a Hx) as L. unfold item_lt in L. now rewrite str_ltb_irrefl in L.
Qed.

(* sorted(items) depends on the dict only as a finite map *)
Theorem sort_items_canonical m1 m2 : NoDup (kkeys m1) -> NoDup (kkeys m2) ->
  (forall k, kget m1 k = kget m2 k) -> sort_items m1 = sort_items m2.
Proof.
  intros N1 N2 Heq. apply sorted_items_unique; try (now apply sort_items_sorted).
  intros [k v]. split; intros H.
  - apply (Permutation_in _ (sort_items_perm m1)) in H. apply (kget_in m1 k v N1) in H.
    rewrite Heq in H. apply (kget_in m2 k v N2) in H. apply (Permutation_in _ (Permutation_sym (sort_items_perm m2))). exact H.
  - apply (Permutation_in _ (sort_items_perm m2)) in H. apply (kget_in m2 k v N2) in H.
    rewrite <- Heq in H. apply (kget_in m1 k v N1) in H. apply (Permutation_in _ (Permutation_sym (sort_items_perm m1))). exact H.
Qed.

Lemma kget_sort_items m k : NoDup (kkeys m) -> kget (sort_items m) k = kget m k.
Proof.
  intros Hnd.
  assert (Hnd2 : NoDup (kkeys (sort_items m))).
  { eapply Permutation_NoDup; [|exact Hnd]. apply Permutation_map. apply Permutation_sym, sort_items_perm. }
  destruct (kget m k) as [v|] eqn:E.
  - apply (kget_in _ _ _ Hnd2). apply (Permutation_in _ (Permutation_sym (sort_items_perm m))). now apply (kget_in m k v Hnd).
  - apply kget_none_notin. apply kget_none_notin in E. intros Hin. apply E.
    unfold kkeys in *. apply in_map_iff in Hin. destruct Hin as ([k' v'] & <- & Hin).
    apply (Permutation_in _ (sort_items_perm m)) in Hin. now apply (in_map fst m (k', v')).
Qed.
