(* M4: Python argument binding (the spec), klepto's _keygen (_inspect.py:390-488) and the raw
   keymap (keymaps.py:169-200), transcribed.  Models only. *)
From Klepto Require Export PyVal.

(* a function signature: positional-or-keyword parameters with optional defaults, *args,
   keyword-only parameters with optional defaults, **kwargs *)
Record pysig := mkSig {
  s_params : list (str * option pyval);
  s_varargs : bool;
  s_kwonly : list (str * option pyval);
  s_varkw : bool
}.

(* a call: positional values, then keywords in the caller's order (names distinct) *)
Definition call := (list pyval * kmap)%type.

Definition names_of (ps : list (str * option pyval)) : list str := map fst ps.

(* ---------------------------------------------------------------- Python's binding rules *)
Record binding := mkB {
  b_named : kmap;            (* every parameter (positional-or-keyword, then keyword-only) -> value *)
  b_extra_pos : list pyval;  (* what lands in *args *)
  b_extra_kw : kmap          (* what lands in **kwargs, caller order *)
}.

Fixpoint index_of (k : str) (l : list str) (i : nat) : option nat :=
  match l with
  | [] => None
  | x :: r => if str_eqb k x then Some i else index_of k r (S i)
  end.

(* distribute the caller's keywords: onto named parameters, keyword-only parameters or **kwargs *)
Fixpoint bind_kws (sig : pysig) (npos : nat) (kws : kmap) (named extra : kmap) : option (kmap * kmap) :=
  match kws with
  | [] => Some (named, extra)
  | (n, v) :: r =>
      match index_of n (names_of (s_params sig)) 0 with
      | Some i =>
          if Nat.ltb i npos then None                       (* multiple values for argument *)
          else if kmem named n then None                    (* repeated keyword *)
          else bind_kws sig npos r (kset named n v) extra
      | None =>
          if str_in n (names_of (s_kwonly sig)) then
            if kmem named n then None else bind_kws sig npos r (kset named n v) extra
          else if s_varkw sig then
            if kmem extra n then None else bind_kws sig npos r named (kset extra n v)
          else None                                          (* unexpected keyword argument *)
      end
  end.

(* fill what is still unbound from the defaults, in signature order; None = missing argument *)
Fixpoint fill_defaults (ps : list (str * option pyval)) (named : kmap) (acc : kmap) : option kmap :=
  match ps with
  | [] => Some acc
  | (n, d) :: r =>
      match kget named n with
      | Some v => fill_defaults r named (kset acc n v)
      | None => match d with
                | Some v => fill_defaults r named (kset acc n v)
                | None => None
                end
      end
  end.

Fixpoint zip_names (ns : list str) (vs : list pyval) : kmap :=
  match ns, vs with
  | n :: nr, v :: vr => (n, v) :: zip_names nr vr
  | _, _ => []
  end.

Definition bind (sig : pysig) (c : call) : option binding :=
  let '(pos, kws) := c in
  let names := names_of (s_params sig) in
  let np := length names in
  if Nat.ltb np (length pos) && negb (s_varargs sig) then None   (* too many positional arguments *)
  else
    let named0 := zip_names names pos in
    match bind_kws sig (length pos) kws named0 [] with
    | None => None
    | Some (named1, extra) =>
        match fill_defaults (s_params sig ++ s_kwonly sig) named1 [] with
        | None => None
        | Some named => Some (mkB named (skipn np pos) extra)
        end
    end.

(* ---------------------------------------------------------------- klepto._keygen *)
(* the ignore specification: parameter names (incl. "*" and "**") and positional indices *)
Inductive ign := IName (n : str) | IIdx (i : nat).

Definition star : str := [42].
Definition starstar : str := [42; 42].

Definition ign_names (l : list ign) : list str :=
  flat_map (fun x => match x with IName n => [n] | IIdx _ => [] end) l.
Definition ign_idx (l : list ign) : list nat :=
  flat_map (fun x => match x with IIdx i => [i] | IName _ => [] end) l.

Fixpoint nat_in (i : nat) (l : list nat) : bool :=
  match l with [] => false | x :: r => Nat.eqb i x || nat_in i r end.

(* signature(func, markup=False, variadic=False): explicit names and the defaults dict
   (positional defaults in order, then keyword-only defaults) *)
Definition sig_explicit (sig : pysig) : list str := names_of (s_params sig).
Definition defaults_of (ps : list (str * option pyval)) : kmap :=
  flat_map (fun p => match snd p with Some v => [(fst p, v)] | None => [] end) ps.
Definition sig_defaults (sig : pysig) : kmap :=
  kupdate (defaults_of (s_params sig)) (defaults_of (s_kwonly sig)).

Fixpoint mapi {A B} (f : nat -> A -> B) (i : nat) (l : list A) : list B :=
  match l with [] => [] | x :: r => f i x :: mapi f (S i) r end.

(* the decomposition of the ignore specification (names and indices cross-populated) *)
Definition ig_names1 (ignored : list ign) : list str :=
  filter (fun n => negb (str_eqb n star) && negb (str_eqb n starstar)) (ign_names ignored).
Definition ig_star (ignored : list ign) : bool := str_in star (ign_names ignored).
Definition ig_starstar (ignored : list ign) : bool := str_in starstar (ign_names ignored).
Definition indexed (explicit : list str) : list (nat * str) := combine (seq 0 (length explicit)) explicit.
Definition names_to_ignore (explicit : list str) (ignored : list ign) : list str :=
  ig_names1 ignored ++ flat_map (fun p => if nat_in (fst p) (ign_idx ignored) then [snd p] else []) (indexed explicit).
Definition index_to_ignore (explicit : list str) (ignored : list ign) : list nat :=
  ign_idx ignored ++ flat_map (fun p => if str_in (snd p) (ig_names1 ignored) then [fst p] else []) (indexed explicit).

(* [order]: the order in which the SET names_to_ignore is iterated - the one place where the
   interpreter's hash seed enters _keygen *)
Definition keygen_ord (sig : pysig) (ignored : list ign) (order : list str) (c : call) : list pyval * kmap :=
  let '(args, kwds) := c in
  let explicit := sig_explicit sig in
  (* mix-in the function's defaults to the user provided kwds *)
  let user_kwds := kupdate (sig_defaults sig) kwds in
  let idx := index_to_ignore explicit ignored in
  (* NULL out the ignored args *)
  let user_args := mapi (fun i v => if nat_in i idx then VNull else v) 0 args in
  let user_args := if ig_star ignored then firstn (length explicit) user_args else user_args in
  (* NULL out the ignored kwds that are present *)
  let _keys := kkeys user_kwds ++ explicit in
  let user_kwds := fold_left (fun m k => if str_in k _keys then kset m k VNull else m) order user_kwds in
  (* if ignoring **kwds, then pop all caller keywords that are neither explicitly named nor keyword-only *)
  let user_kwds := if ig_starstar ignored
                   then fold_left (fun m kv => if str_in (fst kv) explicit || str_in (fst kv) (names_of (s_kwonly sig))
                                               then m else kdel m (fst kv)) kwds user_kwds
                   else user_kwds in
  (* transfer all from user_args to user_kwds, except for any varargs *)
  let user_kwds := kupdate user_kwds (zip_names explicit user_args) in
  let user_args := skipn (length explicit) user_args in
  (user_args, user_kwds).

Definition keygen (sig : pysig) (ignored : list ign) (c : call) : list pyval * kmap :=
  keygen_ord sig ignored (names_to_ignore (sig_explicit sig) ignored) c.

(* ---------------------------------------------------------------- klepto.keymaps.keymap *)
Record kcfg := mkK { k_typed : bool; k_flat : bool; k_mark : bool (* a sentinel is configured *) }.

Definition flatten_items (items : kmap) : list pyval := flat_map (fun kv => [VStr (fst kv); snd kv]) items.
Definition types_of (l : list pyval) : list pyval := map (fun v => VTy (ty_of v)) l.

(* keymap.encode: the flat scheme *)
Definition encode (k : kcfg) (args : list pyval) (kwds : kmap) : pyval :=
  let mark := if k_mark k then [VSent] else [] in
  let items := sort_items kwds in
  let key := args ++ match kwds with [] => [] | _ => mark ++ flatten_items items end in
  if k_typed k then
    VTup (key ++ mark ++ types_of args ++ match kwds with [] => [] | _ => mark ++ types_of (map snd items) end)
  else
    match key with
    | [x] => if fasttype x then x else VTup key
    | _ => VTup key
    end.

(* keymap.encrypt: the non-flat scheme *)
Definition encrypt (k : kcfg) (args : list pyval) (kwds : kmap) : pyval :=
  let items := sort_items kwds in
  if k_typed k then
    VTup [VTup args; VDict items; VTup (types_of args); VTup (types_of (map snd items))]
  else VTup [VTup args; VDict items].

Definition keymap_raw (k : kcfg) (args : list pyval) (kwds : kmap) : pyval :=
  if k_flat k then encode k args kwds else encrypt k args kwds.

(* the whole key path of a decorated function: _keygen then the keymap *)
Definition key_of (sig : pysig) (ignored : list ign) (k : kcfg) (c : call) : pyval :=
  let '(a, m) := keygen sig ignored c in keymap_raw k a m.
