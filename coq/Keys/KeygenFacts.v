(* The output of klepto._keygen is a canonical form of Python's binding of the call (M4). *)
From Klepto Require Import PyVal KFacts Keys.
From Coq Require Import Lia Sorting.Permutation.

(* ---------------------------------------------------------------- generic list facts *)
Lemma nat_in_spec i l : nat_in i l = true <-> In i l.
Proof.
  induction l as [|x r IH]; cbn [nat_in In]; [split; [discriminate|tauto]|].
  rewrite orb_true_iff, IH, Nat.eqb_eq. split; intros [H|H]; auto.
Qed.

Lemma nat_in_app i a b : nat_in i (a ++ b) = nat_in i a || nat_in i b.
Proof. induction a as [|x r IH]; cbn [nat_in app]; [reflexivity|]. rewrite IH. now rewrite orb_assoc. Qed.

Lemma str_in_app k a b : str_in k (a ++ b) = str_in k a || str_in k b.
Proof. induction a as [|x r IH]; cbn [str_in app]; [reflexivity|]. rewrite IH. now rewrite orb_assoc. Qed.

Lemma index_of_ge k l i j : index_of k l i = Some j -> (i <= j)%nat.
Proof.
  revert i. induction l as [|x r IH]; intros i; cbn [index_of]; [discriminate|].
  destruct (str_eqb k x); [intros E; inversion E; lia|]. intros H. apply IH in H. lia.
Qed.

Lemma index_of_nth k l i j : index_of k l i = Some j -> nth_error l (j - i) = Some k.
Proof.
  revert i. induction l as [|x r IH]; intros i; cbn [index_of]; [discriminate|].
  destruct (str_eqb k x) eqn:E.
  - intros H; inversion H; subst. rewrite Nat.sub_diag. cbn. apply str_eqb_spec in E. now subst.
  - intros H. pose proof (index_of_ge _ _ _ _ H). specialize (IH _ H).
    replace (j - i)%nat with (S (j - S i)) by lia. exact IH.
Qed.

Lemma index_of_none k l i : index_of k l i = None <-> ~ In k l.
Proof.
  revert i. induction l as [|x r IH]; intros i; cbn [index_of In]; [tauto|].
  destruct (str_eqb k x) eqn:E.
  - apply str_eqb_spec in E. subst. split; [discriminate|]. intros H. exfalso. apply H. now left.
  - apply str_eqb_neq in E. rewrite IH. split; [intros H [H1|H1]; [congruence|tauto]|tauto].
Qed.

Lemma index_of_nodup l i k : NoDup l -> nth_error l i = Some k -> index_of k l 0 = Some i.
Proof.
  assert (G : forall l i k b, NoDup l -> nth_error l i = Some k -> index_of k l b = Some (b + i)%nat).
  { clear. induction l as [|x r IH]; intros i k b Hnd Hn; [destruct i; discriminate|].
    inversion Hnd as [|a q Ha Hq]; subst. destruct i as [|i]; cbn in Hn; cbn [index_of].
    - inversion Hn; subst. rewrite str_eqb_refl. f_equal. lia.
    - assert (str_eqb k x = false) as ->.
      { apply str_eqb_neq. intro; subst. apply Ha. eapply nth_error_In; eauto. }
      rewrite (IH i k (S b) Hq Hn). f_equal. lia. }
  intros Hnd Hn. now rewrite (G l i k 0%nat Hnd Hn).
Qed.

(* ---------------------------------------------------------------- zip_names *)
Lemma kget_zip ns vs k : NoDup ns ->
  kget (zip_names ns vs) k =
  match index_of k ns 0 with
  | Some i => nth_error vs i
  | None => None
  end.
Proof.
  assert (G : forall ns vs b, NoDup ns ->
              kget (zip_names ns vs) k = match index_of k ns b with Some i => nth_error vs (i - b) | None => None end).
  { clear. induction ns as [|n r IH]; intros vs b Hnd; cbn [zip_names index_of]; [reflexivity|].
    inversion Hnd as [|a q Ha Hq]; subst.
    destruct vs as [|v vr].
    - cbn. destruct (str_eqb k n); [now destruct (b - b)%nat|].
      destruct (index_of k r (S b)) eqn:E; [|reflexivity]. now destruct (n0 - b)%nat.
    - unfold kget. cbn [assoc]. destruct (str_eqb k n) eqn:E.
      + now rewrite Nat.sub_diag.
      + fold (kget (zip_names r vr) k). rewrite (IH vr (S b) Hq).
        destruct (index_of k r (S b)) eqn:E2; [|reflexivity].
        pose proof (index_of_ge _ _ _ _ E2). replace (n0 - b)%nat with (S (n0 - S b)) by lia. reflexivity. }
  intros Hnd. rewrite (G ns vs 0%nat Hnd). destruct (index_of k ns 0); [now rewrite Nat.sub_0_r|reflexivity].
Qed.

Lemma kkeys_zip ns vs : kkeys (zip_names ns vs) = firstn (length vs) ns.
Proof.
  revert vs. induction ns as [|n r IH]; intros [|v vr]; cbn [zip_names kkeys map firstn length]; try reflexivity.
  cbn. f_equal. apply IH.
Qed.

Lemma NoDup_firstn {A} n (l : list A) : NoDup l -> NoDup (firstn n l).
Proof.
  revert l. induction n as [|n IH]; intros [|a r] H; cbn [firstn]; try constructor.
  - inversion H; subst. intro Hin. match goal with Hn : ~ In a r |- _ => apply Hn end.
    clear - Hin. revert r Hin. induction n as [|n IH]; intros [|b r] Hin; cbn [firstn] in Hin; try destruct Hin.
    + now left.
    + right. now apply IH.
  - inversion H; subst. now apply IH.
Qed.

(* ---------------------------------------------------------------- mapi *)
Lemma nth_error_mapi {A B} (f : nat -> A -> B) b l i :
  nth_error (mapi f b l) i = option_map (f (b + i)%nat) (nth_error l i).
Proof.
  revert b i. induction l as [|x r IH]; intros b [|i]; cbn [mapi nth_error option_map]; try reflexivity.
  - now rewrite Nat.add_0_r.
  - rewrite IH. now replace (S b + i)%nat with (b + S i)%nat by lia.
Qed.

Lemma length_mapi {A B} (f : nat -> A -> B) b l : length (mapi f b l) = length l.
Proof. revert b. induction l as [|x r IH]; intros b; cbn [mapi length]; [reflexivity|]. now rewrite IH. Qed.

Lemma skipn_mapi {A B} (f : nat -> A -> B) b n l : skipn n (mapi f b l) = mapi f (b + n) (skipn n l).
Proof.
  revert b l. induction n as [|n IH]; intros b l; cbn [skipn]; [now rewrite Nat.add_0_r|].
  destruct l as [|x r]; cbn [mapi skipn]; [reflexivity|]. rewrite IH. now replace (S b + n)%nat with (b + S n)%nat by lia.
Qed.

(* ---------------------------------------------------------------- the two folds of _keygen *)
(* NULL out: fold (fun m k => if str_in k ks then kset m k VNull else m) *)
Lemma kget_fold_null ks order m k :
  kget (fold_left (fun m k => if str_in k ks then kset m k VNull else m) order m) k =
  if str_in k order && str_in k ks then Some VNull else kget m k.
Proof.
  revert m. induction order as [|x r IH]; intros m; cbn [fold_left str_in]; [reflexivity|].
  rewrite IH. destruct (str_eqb k x) eqn:E.
  - apply str_eqb_spec in E. subst x. cbn [orb].
    destruct (str_in k ks) eqn:E2; [|rewrite !andb_false_r; reflexivity].
    rewrite kget_kset_same. now destruct (str_in k r).
  - cbn [orb]. destruct (str_in k r && str_in k ks); [reflexivity|].
    destruct (str_in x ks); [|reflexivity]. apply kget_kset_other. apply str_eqb_neq in E. congruence.
Qed.

Lemma NoDup_fold_null ks order m : NoDup (kkeys m) ->
  NoDup (kkeys (fold_left (fun m k => if str_in k ks then kset m k VNull else m) order m)).
Proof.
  revert m. induction order as [|x r IH]; intros m H; cbn [fold_left]; [exact H|].
  apply IH. destruct (str_in x ks); [now apply NoDup_kkeys_kset|exact H].
Qed.

(* pop: fold (fun m kv => if keep (fst kv) then m else kdel m (fst kv)) *)
Lemma kget_fold_pop (keep : str -> bool) kws m k :
  kget (fold_left (fun (m : kmap) (kv : str * pyval) => if keep (fst kv) then m else kdel m (fst kv)) kws m) k =
  if str_in k (kkeys kws) && negb (keep k) then None else kget m k.
Proof.
  revert m. induction kws as [|[x v] r IH]; intros m; cbn [fold_left kkeys map fst str_in]; [reflexivity|].
  rewrite IH. fold (kkeys r). destruct (str_eqb k x) eqn:E.
  - apply str_eqb_spec in E. subst x. cbn [orb fst].
    destruct (keep k) eqn:E2; cbn [negb]; [rewrite !andb_false_r; reflexivity|].
    rewrite !andb_true_r. destruct (str_in k (kkeys r)); [reflexivity|]. rewrite kget_kdel. now rewrite str_eqb_refl.
  - cbn [orb fst]. destruct (str_in k (kkeys r) && negb (keep k)); [reflexivity|].
    destruct (keep x); [reflexivity|]. rewrite kget_kdel. now rewrite E.
Qed.

Lemma NoDup_fold_pop (keep : str -> bool) kws m : NoDup (kkeys m) ->
  NoDup (kkeys (fold_left (fun (m : kmap) (kv : str * pyval) => if keep (fst kv) then m else kdel m (fst kv)) kws m)).
Proof.
  revert m. induction kws as [|[x v] r IH]; intros m H; cbn [fold_left]; [exact H|].
  apply IH. cbn [fst]. destruct (keep x); [exact H|now apply NoDup_kkeys_kdel].
Qed.

(* ---------------------------------------------------------------- cross-population of the ignore spec *)
Lemma in_indexed l i k : In (i, k) (indexed l) <-> nth_error l i = Some k.
Proof.
  unfold indexed.
  assert (G : forall (l : list str) b i (k : str), In (i, k) (combine (seq b (length l)) l) <-> (b <= i)%nat /\ nth_error l (i - b) = Some k).
  { clear. induction l as [|x r IH]; intros b i k; cbn [length seq combine In].
    - split; [tauto|]. intros [_ H]. destruct (i - b)%nat; discriminate.
    - rewrite IH. split.
      + intros [H|[H1 H2]]; [inversion H; subst; rewrite Nat.sub_diag; cbn; auto|].
        split; [lia|]. replace (i - b)%nat with (S (i - S b)) by lia. exact H2.
      + intros [H1 H2]. destruct (Nat.eq_dec i b) as [->|Hne].
        * rewrite Nat.sub_diag in H2. cbn in H2. inversion H2. now left.
        * right. split; [lia|]. replace (i - b)%nat with (S (i - S b)) in H2 by lia. exact H2. }
  rewrite G. rewrite Nat.sub_0_r. split; [tauto|]. intros H. split; [lia|exact H].
Qed.

(* whether the ignore specification selects a named parameter (by name or by index) *)
Definition selected (sig : pysig) (ignored : list ign) (n : str) : bool :=
  str_in n (ig_names1 ignored) ||
  match index_of n (sig_explicit sig) 0 with Some i => nat_in i (ign_idx ignored) | None => false end.

Lemma names_to_ignore_spec sig ignored n : NoDup (sig_explicit sig) ->
  str_in n (names_to_ignore (sig_explicit sig) ignored) = selected sig ignored n.
Proof.
  intros Hnd. unfold names_to_ignore, selected. rewrite str_in_app. f_equal.
  set (E := sig_explicit sig) in *.
  destruct (str_in n (flat_map (fun p => if nat_in (fst p) (ign_idx ignored) then [snd p] else []) (indexed E))) eqn:H.
  - apply str_in_spec in H. apply in_flat_map in H. destruct H as ([i k] & Hin & Hk). cbn [fst snd] in Hk.
    destruct (nat_in i (ign_idx ignored)) eqn:Hi; [|destruct Hk]. destruct Hk as [<-|[]].
    apply in_indexed in Hin. rewrite (index_of_nodup E i k Hnd Hin). now rewrite Hi.
  - destruct (index_of n E 0) as [i|] eqn:Ei; [|reflexivity].
    destruct (nat_in i (ign_idx ignored)) eqn:Hi; [|reflexivity].
    exfalso. apply str_in_false in H. apply H. apply in_flat_map. exists (i, n). split.
    + apply in_indexed. pose proof (index_of_nth _ _ _ _ Ei) as Hn. now rewrite Nat.sub_0_r in Hn.
    + cbn [fst snd]. rewrite Hi. now left.
Qed.

Lemma index_to_ignore_spec sig ignored i : NoDup (sig_explicit sig) ->
  nat_in i (index_to_ignore (sig_explicit sig) ignored) =
  nat_in i (ign_idx ignored) ||
  match nth_error (sig_explicit sig) i with Some n => str_in n (ig_names1 ignored) | None => false end.
Proof.
  intros Hnd. unfold index_to_ignore. rewrite nat_in_app. f_equal.
  set (E := sig_explicit sig) in *.
  destruct (nat_in i (flat_map (fun p => if str_in (snd p) (ig_names1 ignored) then [fst p] else []) (indexed E))) eqn:H.
  - apply nat_in_spec in H. apply in_flat_map in H. destruct H as ([j k] & Hin & Hk). cbn [fst snd] in Hk.
    destruct (str_in k (ig_names1 ignored)) eqn:Hs; [|destruct Hk]. destruct Hk as [<-|[]].
    apply in_indexed in Hin. now rewrite Hin, Hs.
  - destruct (nth_error E i) as [n|] eqn:En; [|reflexivity].
    destruct (str_in n (ig_names1 ignored)) eqn:Hs; [|reflexivity].
    exfalso. assert (Hf : nat_in i (flat_map (fun p => if str_in (snd p) (ig_names1 ignored) then [fst p] else []) (indexed E)) = true).
    { apply nat_in_spec. apply in_flat_map. exists (i, n). split; [now apply in_indexed|]. cbn [fst snd]. rewrite Hs. now left. }
    congruence.
Qed.

(* for a named parameter at position i the two views coincide *)
Lemma selected_at sig ignored i n : NoDup (sig_explicit sig) -> nth_error (sig_explicit sig) i = Some n ->
  nat_in i (index_to_ignore (sig_explicit sig) ignored) = selected sig ignored n.
Proof.
  intros Hnd Hn. rewrite index_to_ignore_spec by exact Hnd. rewrite Hn. unfold selected.
  rewrite (index_of_nodup _ _ _ Hnd Hn). apply orb_comm.
Qed.

(* ---------------------------------------------------------------- facts about Python's binding *)
Definition wf_sig (sig : pysig) : Prop := NoDup (names_of (s_params sig) ++ names_of (s_kwonly sig)).
Definition wf_call (c : call) : Prop := NoDup (kkeys (snd c)).
Definition in_sig (sig : pysig) (n : str) : bool :=
  str_in n (sig_explicit sig) || str_in n (names_of (s_kwonly sig)).

Lemma NoDup_app_l {A} (a b : list A) : NoDup (a ++ b) -> NoDup a.
Proof.
  induction a as [|x r IH]; cbn [app]; intros H; [constructor|]. inversion H; subst.
  constructor; [|now apply IH]. intro Hin. match goal with Hn : ~ In x (r ++ b) |- _ => apply Hn end. apply in_or_app. now left.
Qed.
Lemma NoDup_app_r {A} (a b : list A) : NoDup (a ++ b) -> NoDup b.
Proof. induction a as [|x r IH]; cbn [app]; intros H; [exact H|]. inversion H; subst. now apply IH. Qed.

Lemma wf_sig_explicit sig : wf_sig sig -> NoDup (sig_explicit sig).
Proof. unfold wf_sig, sig_explicit. apply NoDup_app_l. Qed.

Lemma wf_sig_disjoint sig n : wf_sig sig -> In n (sig_explicit sig) -> ~ In n (names_of (s_kwonly sig)).
Proof.
  unfold wf_sig, sig_explicit. generalize (names_of (s_params sig)) (names_of (s_kwonly sig)).
  intros a b H. induction a as [|x r IH]; cbn [app In] in *; [tauto|].
  inversion H as [|y q Hy Hq]; subst. intros [->|Hin] Hb; [apply Hy; apply in_or_app; now right|now apply IH].
Qed.

Lemma kmem_spec m k : kmem m k = true <-> kget m k <> None.
Proof. unfold kmem. destruct (kget m k); split; congruence. Qed.

Lemma bind_kws_spec sig npos kws : NoDup (kkeys kws) -> forall named extra named' extra',
  bind_kws sig npos kws named extra = Some (named', extra') ->
  (forall n, kget named' n = match kget kws n with
                             | Some v => if in_sig sig n then Some v else kget named n
                             | None => kget named n end) /\
  (forall n, kget extra' n = match kget kws n with
                             | Some v => if in_sig sig n then kget extra n else Some v
                             | None => kget extra n end) /\
  (forall n v i, kget kws n = Some v -> index_of n (sig_explicit sig) 0 = Some i -> (npos <= i)%nat) /\
  (forall n v, kget kws n = Some v -> in_sig sig n = false -> s_varkw sig = true).
Proof.
  induction kws as [|[k v] r IH]; intros Hnd named extra named' extra' Hb.
  - cbn in Hb. inversion Hb; subst. repeat split; intros; try reflexivity; discriminate.
  - cbn [kkeys map fst] in Hnd. inversion Hnd as [|a q Ha Hq]; subst. cbn [bind_kws] in Hb.
    assert (Hrk : kget r k = None) by (now apply kget_none_notin).
    unfold in_sig, sig_explicit in *.
    destruct (index_of k (names_of (s_params sig)) 0) as [i|] eqn:Ei.
    + assert (HinE : str_in k (names_of (s_params sig)) = true).
      { apply str_in_spec. pose proof (index_of_nth _ _ _ _ Ei) as Hn. eapply nth_error_In; eauto. }
      destruct (Nat.ltb i npos) eqn:El; [discriminate|]. apply Nat.ltb_ge in El.
      destruct (kmem named k) eqn:Em; [discriminate|].
      destruct (IH Hq _ _ _ _ Hb) as (A & B & C & D). repeat split.
      * intros n. rewrite A. unfold kget at 2 4. cbn [assoc]. fold (kget r n). destruct (str_eqb n k) eqn:E.
        -- apply str_eqb_spec in E. subst n. rewrite Hrk, HinE. cbn [orb]. apply kget_kset_same.
        -- destruct (kget r n); [destruct (str_in n _ || str_in n _); [reflexivity|]|];
             (apply kget_kset_other; apply str_eqb_neq in E; congruence).
      * intros n. rewrite B. unfold kget at 2 4. cbn [assoc]. fold (kget r n). destruct (str_eqb n k) eqn:E; [|reflexivity].
        apply str_eqb_spec in E. subst n. now rewrite Hrk, HinE.
      * intros n w j. unfold kget. cbn [assoc]. fold (kget r n). destruct (str_eqb n k) eqn:E.
        -- apply str_eqb_spec in E. subst n. intros _ Hj. congruence.
        -- apply C.
      * intros n w. unfold kget. cbn [assoc]. fold (kget r n). destruct (str_eqb n k) eqn:E; [|apply D].
        apply str_eqb_spec in E. subst n. rewrite HinE. discriminate.
    + assert (HninE : str_in k (names_of (s_params sig)) = false) by (apply str_in_false; now apply index_of_none in Ei).
      destruct (str_in k (names_of (s_kwonly sig))) eqn:Ek.
      * destruct (kmem named k) eqn:Em; [discriminate|].
        destruct (IH Hq _ _ _ _ Hb) as (A & B & C & D). repeat split.
        -- intros n. rewrite A. unfold kget at 2 4. cbn [assoc]. fold (kget r n). destruct (str_eqb n k) eqn:E.
           ++ apply str_eqb_spec in E. subst n. rewrite Hrk, HninE, Ek. cbn [orb]. apply kget_kset_same.
           ++ destruct (kget r n); [destruct (str_in n _ || str_in n _); [reflexivity|]|];
                (apply kget_kset_other; apply str_eqb_neq in E; congruence).
        -- intros n. rewrite B. unfold kget at 2 4. cbn [assoc]. fold (kget r n). destruct (str_eqb n k) eqn:E; [|reflexivity].
           apply str_eqb_spec in E. subst n. now rewrite Hrk, HninE, Ek.
        -- intros n w j. unfold kget. cbn [assoc]. fold (kget r n). destruct (str_eqb n k) eqn:E; [|apply C].
           apply str_eqb_spec in E. subst n. intros _ Hj. congruence.
        -- intros n w. unfold kget. cbn [assoc]. fold (kget r n). destruct (str_eqb n k) eqn:E; [|apply D].
           apply str_eqb_spec in E. subst n. rewrite HninE, Ek. discriminate.
      * destruct (s_varkw sig) eqn:Ev; [|discriminate]. destruct (kmem extra k) eqn:Em; [discriminate|].
        destruct (IH Hq _ _ _ _ Hb) as (A & B & C & D). repeat split.
        -- intros n. rewrite A. unfold kget at 2 4. cbn [assoc]. fold (kget r n). destruct (str_eqb n k) eqn:E; [|reflexivity].
           apply str_eqb_spec in E. subst n. now rewrite Hrk, HninE, Ek.
        -- intros n. rewrite B. unfold kget at 2 4. cbn [assoc]. fold (kget r n). destruct (str_eqb n k) eqn:E.
           ++ apply str_eqb_spec in E. subst n. rewrite Hrk, HninE, Ek. cbn [orb]. apply kget_kset_same.
           ++ destruct (kget r n); [destruct (str_in n _ || str_in n _); [|reflexivity]|];
                (apply kget_kset_other; apply str_eqb_neq in E; congruence).
        -- intros n w j. unfold kget. cbn [assoc]. fold (kget r n). destruct (str_eqb n k) eqn:E; [|apply C].
           apply str_eqb_spec in E. subst n. intros _ Hj. congruence.
Qed.

Lemma fill_defaults_spec ps named : NoDup (names_of ps) -> forall acc acc',
  fill_defaults ps named acc = Some acc' ->
  forall n, kget acc' n =
    if str_in n (names_of ps)
    then match kget named n with Some v => Some v | None => kget (defaults_of ps) n end
    else kget acc n.
Proof.
  induction ps as [|[k d] r IH]; intros Hnd acc acc' H n; cbn [fill_defaults] in H.
  - inversion H; subst. reflexivity.
  - cbn [names_of map fst] in Hnd. inversion Hnd as [|a q Ha Hq]; subst. fold (names_of r) in *.
    cbn [names_of map fst str_in]. fold (names_of r).
    assert (Hd : forall m, kget (defaults_of ((k, d) :: r)) m =
                 if str_eqb m k then d else kget (defaults_of r) m).
    { intros m. unfold defaults_of. cbn [flat_map fst snd]. destruct d as [dv|]; cbn [app].
      - unfold kget. cbn [assoc]. destruct (str_eqb m k); reflexivity.
      - destruct (str_eqb m k) eqn:E; [|reflexivity]. apply str_eqb_spec in E. subst m.
        apply kget_none_notin. intros Hin. apply Ha. unfold kkeys in Hin. apply in_map_iff in Hin.
        destruct Hin as ([k' v'] & <- & Hin). apply in_flat_map in Hin. destruct Hin as ([k2 d2] & Hin2 & Hx).
        cbn [fst snd] in Hx. destruct d2; [|destruct Hx]. destruct Hx as [Hx|[]]. inversion Hx; subst.
        now apply (in_map fst r (k', Some v')). }
    rewrite Hd.
    destruct (kget named k) as [v|] eqn:Ek.
    + rewrite (IH Hq _ _ H n). destruct (str_eqb n k) eqn:E.
      * apply str_eqb_spec in E. subst n. cbn [orb]. rewrite Ek.
        assert (str_in k (names_of r) = false) as -> by (now apply str_in_false). apply kget_kset_same.
      * cbn [orb]. destruct (str_in n (names_of r)); [reflexivity|]. apply kget_kset_other. apply str_eqb_neq in E. congruence.
    + destruct d as [dv|]; [|discriminate]. rewrite (IH Hq _ _ H n). destruct (str_eqb n k) eqn:E.
      * apply str_eqb_spec in E. subst n. cbn [orb]. rewrite Ek.
        assert (str_in k (names_of r) = false) as -> by (now apply str_in_false). apply kget_kset_same.
      * cbn [orb]. destruct (str_in n (names_of r)); [reflexivity|]. apply kget_kset_other. apply str_eqb_neq in E. congruence.
Qed.

(* a successful fill binds every parameter *)
Lemma fill_defaults_total ps named acc acc' : fill_defaults ps named acc = Some acc' ->
  forall n, In n (names_of ps) -> kget named n <> None \/ kget (defaults_of ps) n <> None.
Proof.
  revert acc. induction ps as [|[k d] r IH]; intros acc H n Hin; [destruct Hin|].
  cbn [fill_defaults] in H. cbn [names_of map fst In] in Hin. fold (names_of r) in Hin.
  assert (Hd : forall m, m <> k -> kget (defaults_of r) m <> None -> kget (defaults_of ((k, d) :: r)) m <> None).
  { intros m Hm. unfold defaults_of. cbn [flat_map fst snd]. destruct d; cbn [app]; [|tauto].
    unfold kget. cbn [assoc]. assert (str_eqb m k = false) as -> by (now apply str_eqb_neq). tauto. }
  destruct (str_dec n k) as [->|Hne].
  - destruct (kget named k) eqn:Ek; [left; congruence|]. destruct d as [dv|]; [|discriminate].
    right. unfold defaults_of. cbn [flat_map fst snd app]. unfold kget. cbn [assoc]. rewrite str_eqb_refl. discriminate.
  - destruct Hin as [E|Hin]; [congruence|].
    destruct (kget named k) eqn:Ek.
    + destruct (IH _ H n Hin) as [A|A]; [now left|right; now apply Hd].
    + destruct d as [dv|]; [|discriminate]. destruct (IH _ H n Hin) as [A|A]; [now left|right; now apply Hd].
Qed.

(* ---------------------------------------------------------------- what bind returns, read as maps *)
Lemma kkeys_defaults_of ps n : In n (kkeys (defaults_of ps)) -> In n (names_of ps).
Proof.
  unfold kkeys, defaults_of, names_of. intros H. apply in_map_iff in H. destruct H as ([k v] & <- & Hin).
  apply in_flat_map in Hin. destruct Hin as ([k2 d2] & Hin2 & Hx). cbn [fst snd] in Hx.
  destruct d2; [|destruct Hx]. destruct Hx as [Hx|[]]. inversion Hx; subst. now apply (in_map fst ps (k, Some v)).
Qed.

Lemma NoDup_defaults_of ps : NoDup (names_of ps) -> NoDup (kkeys (defaults_of ps)).
Proof.
  induction ps as [|[k d] r IH]; cbn [names_of map fst]; intros H; [constructor|].
  inversion H as [|a q Ha Hq]; subst. unfold defaults_of. cbn [flat_map fst snd].
  destruct d; cbn [app kkeys map fst]; [|now apply IH]. constructor; [|now apply IH].
  intros Hin. apply Ha. now apply kkeys_defaults_of.
Qed.

Lemma defaults_app a b : defaults_of (a ++ b) = defaults_of a ++ defaults_of b.
Proof. unfold defaults_of. apply flat_map_app. Qed.

Lemma kget_app_disjoint (a b : kmap) k : kget (a ++ b) k = match kget a k with Some v => Some v | None => kget b k end.
Proof.
  unfold kget. induction a as [|[k' v'] r IH]; cbn [app assoc]; [reflexivity|]. destruct (str_eqb k k'); [reflexivity|exact IH].
Qed.

(* sig_defaults as a map: positional defaults, then keyword-only defaults *)
Lemma kget_sig_defaults sig n : wf_sig sig ->
  kget (sig_defaults sig) n = kget (defaults_of (s_params sig ++ s_kwonly sig)) n.
Proof.
  intros Hwf. unfold sig_defaults. rewrite kget_kupdate.
  - rewrite defaults_app, kget_app_disjoint.
    destruct (kget (defaults_of (s_kwonly sig)) n) as [v|] eqn:E.
    + destruct (kget (defaults_of (s_params sig)) n) as [w|] eqn:E2; [|reflexivity].
      exfalso. apply kget_in_keys, kkeys_defaults_of in E. apply kget_in_keys, kkeys_defaults_of in E2.
      exact (wf_sig_disjoint sig n Hwf E2 E).
    + destruct (kget (defaults_of (s_params sig)) n); reflexivity.
  - apply NoDup_defaults_of. unfold wf_sig in Hwf. now apply NoDup_app_r in Hwf.
Qed.

Lemma NoDup_sig_defaults sig : wf_sig sig -> NoDup (kkeys (sig_defaults sig)).
Proof.
  intros Hwf. unfold sig_defaults. apply NoDup_kkeys_kupdate. apply NoDup_defaults_of.
  unfold wf_sig in Hwf. now apply NoDup_app_l in Hwf.
Qed.

Lemma names_of_app a b : names_of (a ++ b) = names_of a ++ names_of b.
Proof. unfold names_of. apply map_app. Qed.

Record bind_facts (sig : pysig) (c : call) (b : binding) : Prop := {
  bf_pos : (length (fst c) <= length (sig_explicit sig))%nat \/ s_varargs sig = true;
  bf_kw_after : forall n v i, kget (snd c) n = Some v -> index_of n (sig_explicit sig) 0 = Some i -> (length (fst c) <= i)%nat;
  bf_named : forall n, kget (b_named b) n =
               if in_sig sig n then
                 match index_of n (sig_explicit sig) 0 with
                 | Some i => match nth_error (fst c) i with
                             | Some v => Some v
                             | None => match kget (snd c) n with Some v => Some v | None => kget (sig_defaults sig) n end
                             end
                 | None => match kget (snd c) n with Some v => Some v | None => kget (sig_defaults sig) n end
                 end
               else None;
  bf_bound : forall n, in_sig sig n = true -> kget (b_named b) n <> None;
  bf_extra_pos : b_extra_pos b = skipn (length (sig_explicit sig)) (fst c);
  bf_extra_kw : forall n, kget (b_extra_kw b) n = if in_sig sig n then None else kget (snd c) n
}.

Lemma bind_gives_facts sig c b : wf_sig sig -> wf_call c -> bind sig c = Some b -> bind_facts sig c b.
Proof.
  intros Hwf Hc Hb. destruct c as [pos kws]. unfold wf_call in Hc. cbn [snd fst] in *.
  unfold bind in Hb. fold (sig_explicit sig) in Hb.
  destruct (Nat.ltb (length (sig_explicit sig)) (length pos) && negb (s_varargs sig)) eqn:Elen; [discriminate|].
  destruct (bind_kws sig (length pos) kws (zip_names (sig_explicit sig) pos) []) as [[named1 extra]|] eqn:Ek; [|discriminate].
  destruct (fill_defaults (s_params sig ++ s_kwonly sig) named1 []) as [named|] eqn:Ef; [|discriminate].
  inversion Hb; subst b. clear Hb.
  destruct (bind_kws_spec sig (length pos) kws Hc _ _ _ _ Ek) as (A & B & C & D).
  pose proof (wf_sig_explicit sig Hwf) as HndE.
  assert (Hnames : names_of (s_params sig ++ s_kwonly sig) = sig_explicit sig ++ names_of (s_kwonly sig))
    by (rewrite names_of_app; reflexivity).
  assert (HndAll : NoDup (names_of (s_params sig ++ s_kwonly sig))) by (rewrite names_of_app; exact Hwf).
  pose proof (fill_defaults_spec _ named1 HndAll [] named Ef) as F.
  assert (Hins : forall n, str_in n (names_of (s_params sig ++ s_kwonly sig)) = in_sig sig n).
  { intros n. rewrite Hnames, str_in_app. reflexivity. }
  constructor; cbn [fst snd b_named b_extra_pos b_extra_kw].
  - apply andb_false_iff in Elen. destruct Elen as [E|E].
    + left. apply Nat.ltb_ge in E. exact E.
    + right. now destruct (s_varargs sig).
  - intros n v i Hk Hi. eapply C; eauto.
  - intros n. rewrite F, Hins. destruct (in_sig sig n) eqn:Ein; [|reflexivity].
    rewrite A. rewrite kget_zip by exact HndE. rewrite Ein.
    rewrite <- kget_sig_defaults by exact Hwf.
    destruct (index_of n (sig_explicit sig) 0) as [i|] eqn:Ei.
    + destruct (nth_error pos i) as [v|] eqn:En.
      * destruct (kget kws n) as [w|] eqn:Ew; [|reflexivity].
        exfalso. pose proof (C n w i Ew Ei) as Hle. apply nth_error_None in Hle. congruence.
      * destruct (kget kws n); reflexivity.
    + destruct (kget kws n); reflexivity.
  - intros n Hin. rewrite F, Hins, Hin.
    assert (Hn : In n (names_of (s_params sig ++ s_kwonly sig))) by (apply str_in_spec; now rewrite Hins).
    destruct (fill_defaults_total _ _ _ _ Ef n Hn) as [H|H].
    + destruct (kget named1 n); congruence.
    + destruct (kget named1 n); [discriminate|exact H].
  - reflexivity.
  - intros n. rewrite B. cbn. destruct (kget kws n); destruct (in_sig sig n); reflexivity.
Qed.

(* ---------------------------------------------------------------- the specification of the key material *)
Definition spec_map (sig : pysig) (ignored : list ign) (b : binding) (n : str) : option pyval :=
  if in_sig sig n then
    match kget (b_named b) n with
    | Some v => Some (if selected sig ignored n then VNull else v)
    | None => None
    end
  else
    match kget (b_extra_kw b) n with
    | Some v => if ig_starstar ignored then None else Some (if str_in n (ig_names1 ignored) then VNull else v)
    | None => None
    end.

Definition spec_args (sig : pysig) (ignored : list ign) (b : binding) : list pyval :=
  if ig_star ignored then []
  else mapi (fun i v => if nat_in i (ign_idx ignored) then VNull else v) (length (sig_explicit sig)) (b_extra_pos b).

Lemma firstn_skipn_nil {A} n (l : list A) : skipn n (firstn n l) = [].
Proof. revert l. induction n as [|n IH]; intros [|x r]; cbn [firstn skipn]; auto. Qed.

Lemma nth_error_firstn {A} n (l : list A) i : (i < n)%nat -> nth_error (firstn n l) i = nth_error l i.
Proof.
  revert l i. induction n as [|n IH]; intros l i H; [lia|]. destruct l as [|x r]; [now destruct i|].
  destruct i as [|i]; cbn [firstn nth_error]; [reflexivity|]. apply IH. lia.
Qed.

(* THE key lemma: whatever order the set of ignored names is iterated in, _keygen returns the
   extra positionals (masked / clipped) and, as a finite map, exactly the binding with the ignored
   parameters replaced by NULL *)
Theorem keygen_spec sig ignored order c b : wf_sig sig -> wf_call c ->
  (forall n, In n order <-> In n (names_to_ignore (sig_explicit sig) ignored)) ->
  bind sig c = Some b ->
  fst (keygen_ord sig ignored order c) = spec_args sig ignored b /\
  (forall n, kget (snd (keygen_ord sig ignored order c)) n = spec_map sig ignored b n) /\
  NoDup (kkeys (snd (keygen_ord sig ignored order c))).
Proof.
  intros Hwf Hc Hord Hb. pose proof (bind_gives_facts sig c b Hwf Hc Hb) as BF.
  destruct c as [args kwds]. unfold wf_call in Hc. cbn [fst snd] in *.
  pose proof (wf_sig_explicit sig Hwf) as HndE.
  unfold keygen_ord.
  set (idx := index_to_ignore (sig_explicit sig) ignored).
  set (ua0 := mapi (fun i v => if nat_in i idx then VNull else v) 0 args).
  set (ua := if ig_star ignored then firstn (length (sig_explicit sig)) ua0 else ua0).
  set (m0 := kupdate (sig_defaults sig) kwds).
  set (m1 := fold_left (fun m k => if str_in k (kkeys m0 ++ (sig_explicit sig)) then kset m k VNull else m) order m0).
  set (m2 := if ig_starstar ignored
             then fold_left (fun (m : kmap) (kv : str * pyval) =>
                    if str_in (fst kv) (sig_explicit sig) || str_in (fst kv) (names_of (s_kwonly sig)) then m else kdel m (fst kv)) kwds m1
             else m1).
  cbn [fst snd].
  assert (Hsel : forall n, str_in n order = selected sig ignored n).
  { intros n. rewrite <- (names_to_ignore_spec sig ignored n HndE).
    destruct (str_in n order) eqn:E1; destruct (str_in n (names_to_ignore (sig_explicit sig) ignored)) eqn:E2; try reflexivity.
    - apply str_in_spec in E1. apply Hord in E1. apply str_in_spec in E1. congruence.
    - apply str_in_spec in E2. apply Hord in E2. apply str_in_spec in E2. congruence. }
  assert (Hm0 : forall n, kget m0 n = match kget kwds n with Some v => Some v | None => kget (sig_defaults sig) n end).
  { intros n. subst m0. now apply kget_kupdate. }
  assert (Hnd0 : NoDup (kkeys m0)) by (subst m0; apply NoDup_kkeys_kupdate; now apply NoDup_sig_defaults).
  assert (Hm1 : forall n, kget m1 n = if selected sig ignored n && str_in n (kkeys m0 ++ (sig_explicit sig)) then Some VNull else kget m0 n).
  { intros n. subst m1. rewrite kget_fold_null, Hsel. reflexivity. }
  assert (Hnd1 : NoDup (kkeys m1)) by (subst m1; now apply NoDup_fold_null).
  assert (Hm2 : forall n, kget m2 n = if ig_starstar ignored && (str_in n (kkeys kwds) && negb (in_sig sig n)) then None else kget m1 n).
  { intros n. subst m2. destruct (ig_starstar ignored); [|reflexivity]. cbn [andb].
    rewrite (kget_fold_pop (fun k => str_in k (sig_explicit sig) || str_in k (names_of (s_kwonly sig))) kwds m1 n). reflexivity. }
  assert (Hnd2 : NoDup (kkeys m2)).
  { subst m2. destruct (ig_starstar ignored); [|exact Hnd1].
    apply (NoDup_fold_pop (fun k => str_in k (sig_explicit sig) || str_in k (names_of (s_kwonly sig)))). exact Hnd1. }
  assert (Hlen0 : length ua0 = length args) by (subst ua0; apply length_mapi).
  split; [|split].
  - (* the positional part *)
    unfold spec_args. rewrite (bf_extra_pos _ _ _ BF). cbn [fst]. subst ua.
    destruct (ig_star ignored); [apply firstn_skipn_nil|].
    subst ua0. rewrite skipn_mapi. cbn [Nat.add].
    assert (Hext : forall l b0, (length (sig_explicit sig) <= b0)%nat ->
                   mapi (fun i v => if nat_in i idx then VNull else v) b0 l =
                   mapi (fun i v => if nat_in i (ign_idx ignored) then VNull else v) b0 l).
    { induction l as [|x r IH]; intros b0 Hb0; cbn [mapi]; [reflexivity|]. f_equal; [|apply IH; lia].
      subst idx. rewrite index_to_ignore_spec by exact HndE.
      assert (nth_error (sig_explicit sig) b0 = None) as -> by (apply nth_error_None; lia). now rewrite orb_false_r. }
    apply Hext. lia.
  - (* the keyword part, as a finite map *)
    intros n. rewrite kget_kupdate.
    2:{ rewrite kkeys_zip. now apply NoDup_firstn. }
    rewrite kget_zip by exact HndE. unfold spec_map. rewrite (bf_named _ _ _ BF), (bf_extra_kw _ _ _ BF). cbn [fst snd].
    assert (Hkw_in : forall v, kget kwds n = Some v -> str_in n (kkeys kwds) = true).
    { intros v Hv. apply str_in_spec. eapply kget_in_keys; eauto. }
    assert (Hkw_none : kget kwds n = None -> str_in n (kkeys kwds) = false).
    { intros Hv. apply str_in_false. now apply kget_none_notin. }
    destruct (index_of n (sig_explicit sig) 0) as [i|] eqn:Ei.
    + (* a positional-or-keyword parameter *)
      assert (HinE : str_in n (sig_explicit sig) = true).
      { apply str_in_spec. pose proof (index_of_nth _ _ _ _ Ei) as Hn. eapply nth_error_In; eauto. }
      assert (Hin : in_sig sig n = true) by (unfold in_sig; fold (sig_explicit sig); now rewrite HinE).
      assert (Hnth : nth_error (sig_explicit sig) i = Some n).
      { pose proof (index_of_nth _ _ _ _ Ei) as Hn. now rewrite Nat.sub_0_r in Hn. }
      assert (Hi : (i < length (sig_explicit sig))%nat) by (apply nth_error_Some; congruence).
      rewrite Hin.
      assert (Hua : nth_error ua i = option_map (fun v => if selected sig ignored n then VNull else v) (nth_error args i)).
      { subst ua. assert (H0 : nth_error ua0 i = option_map (fun v => if selected sig ignored n then VNull else v) (nth_error args i)).
        { subst ua0. rewrite nth_error_mapi. cbn [Nat.add]. subst idx. now rewrite (selected_at sig ignored i n HndE Hnth). }
        destruct (ig_star ignored); [rewrite nth_error_firstn by exact Hi|]; exact H0. }
      rewrite Hua. destruct (nth_error args i) as [v|] eqn:Ea; cbn [option_map]; [reflexivity|].
      rewrite Hm2, Hin. cbn [negb]. rewrite andb_false_r, andb_false_r. rewrite Hm1, str_in_app, HinE, orb_true_r, andb_true_r.
      rewrite Hm0.
      pose proof (bf_bound _ _ _ BF n Hin) as Hbound. rewrite (bf_named _ _ _ BF) in Hbound. cbn [fst snd] in Hbound.
      rewrite Hin, Ei, Ea in Hbound.
      destruct (kget kwds n) as [w|]; [destruct (selected sig ignored n); reflexivity|].
      destruct (kget (sig_defaults sig) n) as [w|]; [destruct (selected sig ignored n); reflexivity|congruence].
    + (* not positional-or-keyword *)
      assert (HninE : str_in n (sig_explicit sig) = false) by (apply str_in_false; now apply index_of_none in Ei).
      rewrite Hm2, Hm1, Hm0, str_in_app, HninE, orb_false_r.
      destruct (in_sig sig n) eqn:Hin.
      * (* keyword-only *)
        cbn [negb]. rewrite andb_false_r, andb_false_r.
        pose proof (bf_bound _ _ _ BF n Hin) as Hbound. rewrite (bf_named _ _ _ BF) in Hbound. cbn [fst snd] in Hbound.
        rewrite Hin, Ei in Hbound.
        assert (Hk0 : str_in n (kkeys m0) = true).
        { apply str_in_spec. destruct (kget m0 n) as [w|] eqn:Em; [eapply kget_in_keys; eauto|].
          rewrite Hm0 in Em. destruct (kget kwds n); [discriminate|]. congruence. }
        rewrite Hk0, andb_true_r.
        destruct (kget kwds n) as [w|]; [destruct (selected sig ignored n); reflexivity|].
        destruct (kget (sig_defaults sig) n) as [w|]; [destruct (selected sig ignored n); reflexivity|congruence].
      * (* an extra keyword (or nothing at all) *)
        cbn [negb]. rewrite andb_true_r.
        assert (Hd : kget (sig_defaults sig) n = None).
        { rewrite kget_sig_defaults by exact Hwf. apply kget_none_notin. intros Hk. apply kkeys_defaults_of in Hk.
          rewrite names_of_app in Hk. apply str_in_spec in Hk. rewrite str_in_app in Hk. unfold in_sig in Hin.
          unfold sig_explicit in *. congruence. }
        assert (Hs : selected sig ignored n = str_in n (ig_names1 ignored)).
        { unfold selected. rewrite Ei. apply orb_false_r. }
        rewrite Hd, Hs.
        destruct (kget kwds n) as [w|] eqn:Ew.
        -- rewrite (Hkw_in w eq_refl). rewrite andb_true_r.
           assert (Hk0 : str_in n (kkeys m0) = true).
           { apply str_in_spec. apply (kget_in_keys m0 n w). now rewrite Hm0, Ew. }
           rewrite Hk0, andb_true_r. destruct (ig_starstar ignored); [reflexivity|].
           destruct (str_in n (ig_names1 ignored)); reflexivity.
        -- rewrite (Hkw_none eq_refl), andb_false_r.
           assert (Hk0 : str_in n (kkeys m0) = false).
           { apply str_in_false. apply kget_none_notin. now rewrite Hm0, Ew, Hd. }
           rewrite Hk0, andb_false_r. reflexivity.
  - apply NoDup_kkeys_kupdate. exact Hnd2.
Qed.
