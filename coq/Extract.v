(* Extraction of the executable models for the correspondence check.
   Only ExtrOcamlBasic is used: Z / positive / nat stay extracted inductives; no Extract Constant. *)
Require Import ExtrOcamlBasic.
From Klepto Require Import CacheCore Keys Rounding Validate DictSpec Backends DirStep SqlCrash.
Extraction "model.ml" step cstep c_set_archive init_state dispatch bind keygen key_of py_eqb round_call validate_ok bind_ok dstep sql_step dir_step sql_stmts.
