(* C17  Keys are stable across interpreter sessions (partial). *)
From Klepto Require Import PyVal KFacts Keys KeygenFacts KeyProps.

(* The only inputs of the key pipeline that depend on the interpreter process are (1) the iteration
   order of the SET of ignored names inside _keygen and (2) the order in which the caller wrote
   keywords.  The structured key depends on neither: *)
Theorem C17_independent_of_set_order : forall sig ignored k order1 order2 c b,
  wf_sig sig -> wf_call c -> order_ok sig ignored order1 -> order_ok sig ignored order2 -> bind sig c = Some b ->
  keymap_raw k (fst (keygen_ord sig ignored order1 c)) (snd (keygen_ord sig ignored order1 c)) =
  keymap_raw k (fst (keygen_ord sig ignored order2 c)) (snd (keygen_ord sig ignored order2 c)).
Proof. exact key_independent_of_set_order. Qed.

Theorem C17_independent_of_keyword_order : forall sig ignored k order1 order2 c1 c2 b1 b2,
  wf_sig sig -> wf_call c1 -> wf_call c2 -> order_ok sig ignored order1 -> order_ok sig ignored order2 ->
  bind sig c1 = Some b1 -> bind sig c2 = Some b2 -> same_binding b1 b2 ->
  keymap_raw k (fst (keygen_ord sig ignored order1 c1)) (snd (keygen_ord sig ignored order1 c1)) =
  keymap_raw k (fst (keygen_ord sig ignored order2 c2)) (snd (keygen_ord sig ignored order2 c2)).
Proof. exact key_canonical. Qed.

(* the raw keymap itself reads the keyword dict only as a finite map (its order is irrelevant) *)
Theorem C17_keymap_ignores_dict_order : forall k a m1 m2, NoDup (kkeys m1) -> NoDup (kkeys m2) -> map_eq m1 m2 ->
  keymap_raw k a m1 = keymap_raw k a m2.
Proof. exact keymap_raw_map_eq. Qed.

(* non-vacuity: def f(x, y, z), ignore=('x','y','z'): the three NULLs are inserted in set order;
   two different orders give the same non-flat key (the case that differed before the fix for D3/D14) *)
Definition s3 := mkSig [([120], None); ([121], None); ([122], None)] false [] false.
Example C17_witness :
  let ig := [IName [120]; IName [121]; IName [122]] in let c : call := ([VInt 1; VInt 2; VInt 3], []) in
  let k := mkK false false false in
  keymap_raw k (fst (keygen_ord s3 ig [[121]; [120]; [122]] c)) (snd (keygen_ord s3 ig [[121]; [120]; [122]] c)) =
  keymap_raw k (fst (keygen_ord s3 ig [[122]; [121]; [120]] c)) (snd (keygen_ord s3 ig [[122]; [121]; [120]] c)) /\
  snd (keygen_ord s3 ig [[121]; [120]; [122]] c) <> snd (keygen_ord s3 ig [[122]; [121]; [120]] c).
Proof. cbv zeta. split; vm_compute; congruence. Qed.

Print Assumptions C17_independent_of_set_order.
Print Assumptions C17_independent_of_keyword_order.
Print Assumptions C17_keymap_ignores_dict_order.
