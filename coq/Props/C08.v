(* C08  Cache/archive synchronisation algebra (dump, load, sync, toggle).
   Only statements, each closed by a lemma of Cache/SyncLaws.v, with Print Assumptions. *)
From Klepto Require Import OMap CacheDict CacheDictFacts SyncLaws.

(* plain dict operations on the cache never touch the archive *)
Theorem C08_dict_ops_never_touch_archive : forall c o, is_dict_op o = true ->
  arch (fst (cstep c o)) = arch c /\ swp (fst (cstep c o)) = swp c.
Proof. exact dict_ops_frame. Qed.

(* dump(): archive agrees with the cache on every cached key, other archive entries left alone *)
Theorem C08_dump_all : forall c, wf_c c -> is_null (arch c) = false ->
  let c' := fst (cstep c (CDump [])) in
  mem c' = mem c /\ swp c' = swp c /\
  forall k, a_get (arch c') k = over (a_get (arch c)) (get (mem c)) k.
Proof. exact dump_all_law. Qed.

Theorem C08_dump_keys : forall c ks, ks <> [] -> is_null (arch c) = false ->
  let c' := fst (cstep c (CDump ks)) in
  mem c' = mem c /\ swp c' = swp c /\
  forall k, a_get (arch c') k = if in_dec Z.eq_dec k ks then over (a_get (arch c)) (get (mem c)) k
                                else a_get (arch c) k.
Proof. exact dump_keys_law. Qed.

(* load(): cache agrees with the archive on every archived key; load(k...) only on those, absent ones ignored *)
Theorem C08_load_all : forall c, wf_c c ->
  let c' := fst (cstep c (CLoad [])) in
  arch c' = arch c /\ swp c' = swp c /\
  forall k, get (mem c') k = over (get (mem c)) (a_get (arch c)) k.
Proof. exact load_all_law. Qed.

Theorem C08_load_keys : forall c ks, ks <> [] ->
  let c' := fst (cstep c (CLoad ks)) in
  arch c' = arch c /\ swp c' = swp c /\
  forall k, get (mem c') k = if in_dec Z.eq_dec k ks then over (get (mem c)) (a_get (arch c)) k
                             else get (mem c) k.
Proof. exact load_keys_law. Qed.

(* sync(): both sides equal the archive overlaid by the cache; sync(clear=True): archive equals the cache *)
Theorem C08_sync : forall c, wf_c c -> is_null (arch c) = false ->
  let c' := fst (cstep c (CSync false)) in
  swp c' = swp c /\
  (forall k, a_get (arch c') k = over (a_get (arch c)) (get (mem c)) k) /\
  (forall k, get (mem c') k = over (a_get (arch c)) (get (mem c)) k).
Proof. exact sync_law. Qed.

Theorem C08_sync_clear : forall c, wf_c c -> is_null (arch c) = false ->
  let c' := fst (cstep c (CSync true)) in
  mem c' = mem c /\ swp c' = swp c /\ forall k, a_get (arch c') k = get (mem c) k.
Proof. exact sync_clear_law. Qed.

(* while archiving is switched off dump/load/sync do nothing ... *)
Theorem C08_off_is_identity : forall c o, is_null (arch c) = true -> is_sync_op o = true -> fst (cstep c o) = c.
Proof. exact off_is_identity. Qed.

(* ... the parked archive is untouched by any history of cache mutations and dump/load/sync,
   and switching back on restores exactly it *)
Theorem C08_parked_untouched_then_restored : forall ops c, swap_inv c -> is_null (arch c) = false ->
  forallb off_op ops = true ->
  exists c', c_archived_on (crun (c_archived_off c) ops) = Some c' /\ arch c' = arch c /\ swp c' = ANull.
Proof. exact off_then_on. Qed.

(* a null archive always stays empty *)
Theorem C08_null_stays_empty : forall c o, is_null (arch c) = true ->
  (off_op o = true \/ exists k v, o = CArchSet k v) -> a_contents (arch (fst (cstep c o))) = [].
Proof. exact null_arch_ops. Qed.

(* state invariants for every history *)
Theorem C08_never_two_archives : forall ops c, swap_inv c -> swap_inv (crun c ops).
Proof. exact swap_inv_run. Qed.

Theorem C08_wellformed_forever : forall ops c, wf_c c -> Forall cop_ok ops -> wf_c (crun c ops).
Proof. exact wf_run. Qed.

(* non-vacuity: a concrete state meeting the hypotheses, and the laws evaluated on it *)
Example C08_witness :
  let c := mkC [(1, 10); (2, 20)] (AStore [(2, 99); (3, 30)]) ANull in
  wf_c c /\ swap_inv c /\ is_null (arch c) = false /\
  a_contents (arch (fst (cstep c (CDump [])))) = [(2, 20); (3, 30); (1, 10)] /\
  mem (fst (cstep c (CLoad []))) = [(1, 10); (2, 99); (3, 30)] /\
  mem (fst (cstep c (CSync false))) = [(1, 10); (2, 20); (3, 30)] /\
  a_contents (arch (fst (cstep c (CSync true)))) = [(1, 10); (2, 20)].
Proof.
  cbv zeta. repeat split; try reflexivity; try (left; reflexivity);
    repeat constructor; cbn; intuition discriminate.
Qed.

(* the property setter cache.archive = a *)
Theorem C08_set_archive : forall c a,
  mem (c_set_archive c a) = mem c /\ arch (c_set_archive c a) = a /\
  swp (c_set_archive c a) = (if is_null (swp c) then swp c else arch c).
Proof. exact set_archive_law. Qed.

Print Assumptions C08_dict_ops_never_touch_archive.
Print Assumptions C08_dump_all.
Print Assumptions C08_dump_keys.
Print Assumptions C08_load_all.
Print Assumptions C08_load_keys.
Print Assumptions C08_sync.
Print Assumptions C08_sync_clear.
Print Assumptions C08_off_is_identity.
Print Assumptions C08_parked_untouched_then_restored.
Print Assumptions C08_null_stays_empty.
Print Assumptions C08_never_two_archives.
Print Assumptions C08_wellformed_forever.
Print Assumptions C08_set_archive.
