(* C11  Ignored arguments never influence the key; all others still do. *)
From Klepto Require Import PyVal KFacts Keys KeygenFacts KeyProps.

(* (a) calls that differ only in arguments selected by the ignore specification - by name, by
   positional index (cross-populated with the name), '*' for all extra positionals, '**' for all
   extra keywords - share one key, under every raw keymap configuration *)
Theorem C11_ignored_do_not_matter : forall sig ignored k order1 order2 c1 c2 b1 b2,
  wf_sig sig -> wf_call c1 -> wf_call c2 -> order_ok sig ignored order1 -> order_ok sig ignored order2 ->
  bind sig c1 = Some b1 -> bind sig c2 = Some b2 -> differ_only_in_ignored sig ignored b1 b2 ->
  keymap_raw k (fst (keygen_ord sig ignored order1 c1)) (snd (keygen_ord sig ignored order1 c1)) =
  keymap_raw k (fst (keygen_ord sig ignored order2 c2)) (snd (keygen_ord sig ignored order2 c2)).
Proof. exact key_ignores. Qed.

(* (b) every argument not selected still discriminates: equal key material forces all non-ignored
   arguments to be equal (combine with the injectivity theorems of C10 for the keymap) *)
Theorem C11_others_still_discriminate : forall sig ignored b1 b2 c1 c2, wf_sig sig -> wf_call c1 -> wf_call c2 ->
  bind sig c1 = Some b1 -> bind sig c2 = Some b2 ->
  spec_args sig ignored b1 = spec_args sig ignored b2 ->
  (forall n, spec_map sig ignored b1 n = spec_map sig ignored b2 n) ->
  (forall n, in_sig sig n = true -> selected sig ignored n = false -> kget (b_named b1) n = kget (b_named b2) n) /\
  (ig_starstar ignored = false -> forall n, in_sig sig n = false -> str_in n (ig_names1 ignored) = false ->
     kget (b_extra_kw b1) n = kget (b_extra_kw b2) n) /\
  (ig_star ignored = false -> length (b_extra_pos b1) = length (b_extra_pos b2) /\
     forall j, nat_in (length (sig_explicit sig) + j) (ign_idx ignored) = false ->
               nth_error (b_extra_pos b1) j = nth_error (b_extra_pos b2) j).
Proof. exact spec_discriminates. Qed.

(* the selection made by names and by indices coincide on named parameters *)
Theorem C11_index_and_name_agree : forall sig ignored i n, NoDup (sig_explicit sig) -> nth_error (sig_explicit sig) i = Some n ->
  nat_in i (index_to_ignore (sig_explicit sig) ignored) = selected sig ignored n.
Proof. exact selected_at. Qed.

(* non-vacuity, including the keyword-only case repaired by the fix for D4:
   def f(a, *, k=3, **kw), ignore='**': f(1, k=5) and f(1, k=7) now get different keys, while
   f(1, k=5, e=1) and f(1, k=5, e=2) share one *)
Definition sa := [97]. Definition sk := [107]. Definition se := [101].
Definition sig4 := mkSig [(sa, None)] false [(sk, Some (VInt 3))] true.
Example C11_witness :
  let ig := [IName starstar] in let k := mkK false true false in
  key_of sig4 ig k ([VInt 1], [(sk, VInt 5)]) <> key_of sig4 ig k ([VInt 1], [(sk, VInt 7)]) /\
  key_of sig4 ig k ([VInt 1], [(sk, VInt 5); (se, VInt 1)]) = key_of sig4 ig k ([VInt 1], [(sk, VInt 5); (se, VInt 2)]) /\
  key_of sig4 [IIdx 0] k ([VInt 1], []) = key_of sig4 [IName sa] k ([], [(sa, VInt 9)]).
Proof. cbv zeta. repeat split; vm_compute; congruence. Qed.

Print Assumptions C11_ignored_do_not_matter.
Print Assumptions C11_others_still_discriminate.
Print Assumptions C11_index_and_name_agree.
