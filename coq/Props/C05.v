(* C05  Capacity: a bounded cache never grows past its bound.
   Only statements, each closed by a lemma of Cache/CoreSize.v / CoreStep.v, with Print Assumptions. *)
From Klepto Require Import OMap CacheDict CacheDictFacts CacheCore CoreInv CoreStep CoreSize.

(* the bookkeeping invariant holds initially and is preserved by EVERY operation of every
   decorator, including bulk load and clear (so it holds in every reachable state) *)
Theorem C05_wf_initial : forall c c0, wf_c c0 -> WF c (init_state c0).
Proof. exact WF_init_any. Qed.

Theorem C05_wf_reachable : forall c ops s, WF c s -> Forall op_ok ops -> WF c (run c s ops).
Proof. exact WF_run. Qed.

(* after every call: resident <= max(maxsize, resident before), for all four bounded algorithms,
   standard and safe, archived or not, purge or not, also from over-full states (after load()) *)
Theorem C05_bounded : forall c s kr fr orc, WF c s -> bounded (c_alg c) = true -> orc_ok c s kr orc ->
  size (smem (fst (call c s kr fr orc))) <= Z.max (c_max c) (size (smem s)).
Proof. exact call_size_bounded. Qed.

(* the eviction loops terminate with a victim: no IndexError escapes *)
Theorem C05_no_index_error : forall c s kr fr orc ev, WF c s -> bounded (c_alg c) = true -> orc_ok c s kr orc ->
  snd (call c s kr fr orc) <> ORaise EIndexError ev.
Proof. exact call_never_index_error. Qed.

(* a cache that starts within its bound never exceeds maxsize (histories without bulk load) *)
Theorem C05_never_exceeds : forall c ops s, bounded (c_alg c) = true -> WF c s ->
  size (smem s) <= c_max c -> hist_ok c s ops -> size (smem (run c s ops)) <= c_max c.
Proof. exact never_exceeds. Qed.

(* maxsize=0 keeps nothing resident *)
Theorem C05_maxsize_zero : forall c s kr fr orc, c_alg c = NO ->
  size (smem (fst (call c s kr fr orc))) <= size (smem s) /\
  (forall k v ev, kr = KOk k -> snd (call c s kr fr orc) = ORet v ev -> smem (fst (call c s kr fr orc)) = []).
Proof. exact call_size_no. Qed.

(* maxsize=None never evicts *)
Theorem C05_maxsize_none : forall c s kr fr orc, c_alg c = INF ->
  forall k v, get (smem s) k = Some v -> get (smem (fst (call c s kr fr orc))) k = Some v.
Proof. exact call_inf_monotone. Qed.

(* purge enabled on an archived cache: an overflow empties the in-memory cache *)
Theorem C05_purge_empties : forall c s k fr orc v ev, bounded (c_alg c) = true -> c_purge c = true ->
  archived_ c s = true -> get (smem s) k = None -> size (smem s) + 1 > c_max c ->
  snd (call c s (KOk k) fr orc) = ORet v ev -> smem (fst (call c s (KOk k) fr orc)) = [].
Proof. exact call_purge_empties. Qed.

(* however maxsize is passed: the algorithm selected depends on the value only *)
Theorem C05_dispatch : forall a, bounded a = true ->
  dispatch a (MInt 0) = (NO, 0) /\ dispatch a MNone = (INF, -1) /\
  forall n, n <> 0 -> dispatch a (MInt n) = (a, n).
Proof.
  intros a Ha. destruct a; try discriminate; (split; [reflexivity|split; [reflexivity|]]);
    intros n Hn; cbn; destruct (Z.eqb_spec n 0); congruence.
Qed.

(* non-vacuity: an over-full LRU state (3 entries bulk loaded into a maxsize-2 cache) meets the
   hypotheses; a new key is inserted and evicted again, the size stays 3 *)
Example C05_witness :
  let c := mkCfg LRU 2 false false false in
  let s := mkS (mkC [(1, 11); (2, 12); (3, 13)] ANull ANull) [] [] [] 0 0 0 in
  WF c s /\ orc_ok c s (KOk 4) 0 /\
  size (smem (fst (call c s (KOk 4) (Ret 14) 0))) = 3 /\
  size (smem (run c (init_state (mkC [] ANull ANull))
                 [Call (KOk 1) (Ret 11) 0; Call (KOk 2) (Ret 12) 0; Call (KOk 3) (Ret 13) 0])) = 2.
Proof.
  cbv zeta. split; [|split; [|split]].
  - split.
    + unfold wf_c; cbn. repeat split; repeat constructor; cbn; intuition discriminate.
    + cbn. split; [intros k; reflexivity|intros k []].
  - intros H; discriminate H.
  - vm_compute. reflexivity.
  - vm_compute. reflexivity.
Qed.

Print Assumptions C05_wf_initial.
Print Assumptions C05_wf_reachable.
Print Assumptions C05_bounded.
Print Assumptions C05_no_index_error.
Print Assumptions C05_never_exceeds.
Print Assumptions C05_maxsize_zero.
Print Assumptions C05_maxsize_none.
Print Assumptions C05_purge_empties.
Print Assumptions C05_dispatch.
