(* placeholder until the proofs land *)
From Klepto Require Import CacheCore.
