(* C03  Every archive type refines a Python dict.
   Only statements, each closed by a lemma of Store/*.v, with Print Assumptions. *)
From Klepto Require Import OMap OMapFacts DictSpec DictFacts FileArch Backends DirStep.

(* the specification depends only on the contents of the dict (iteration order aside) *)
Theorem C03_spec_is_a_function_of_contents : forall a b o, wf a -> wf b -> same_contents a b ->
  same_contents (fst (dstep a o)) (fst (dstep b o)) /\ out_equiv (snd (dstep a o)) (snd (dstep b o)) /\
  wf (fst (dstep a o)) /\ wf (fst (dstep b o)).
Proof. exact dstep_same_contents. Qed.

(* single file: every operation returns what a dict returns and leaves the dict's contents *)
Theorem C03_file_refines_dict : forall fs o,
  snd (file_step fs o) = snd (dstep (asdict fs) o) /\ asdict (fst (file_step fs o)) = fst (dstep (asdict fs) o).
Proof. exact file_refines_dict. Qed.

Theorem C03_file_histories : forall ops fs, asdict (file_run fs ops) = drun (asdict fs) ops.
Proof. exact file_run_refines_dict. Qed.

Theorem C03_file_failed_op_unchanged : forall fs o, snd (file_step fs o) = RKeyError -> fst (file_step fs o) = fs.
Proof. exact file_failed_op_unchanged. Qed.

(* SQL table (append-only rows, last row wins, delete removes every row of the key) *)
Theorem C03_sql_refines_dict : forall r o,
  same_contents (sql_abs (fst (sql_step r o))) (fst (dstep (sql_abs r) o)) /\
  out_equiv (snd (sql_step r o)) (snd (dstep (sql_abs r) o)).
Proof. exact sql_refines_dict. Qed.

Theorem C03_sql_histories : forall ops r m, wf m -> same_contents (sql_abs r) m ->
  same_contents (sql_abs (sql_run r ops)) (drun m ops).
Proof. exact sql_run_refines_dict. Qed.

Theorem C03_sql_failed_op_unchanged : forall r o, snd (sql_step r o) = RKeyError -> fst (sql_step r o) = r.
Proof. exact sql_failed_op_unchanged. Qed.

(* directory: one entry directory per key NAME.  Where the naming is injective (universe D) the
   primitives _lookup / _store / _rmdir / __asdict__ are dict get / set / del / items ... *)
Theorem C03_dir_lookup : forall fname (D : key -> Prop),
  (forall a b, D a -> D b -> fname a = fname b -> a = b) ->
  forall st k, dir_inv fname D st -> D k -> dir_lookup fname st k = get (dir_abs st) k.
Proof. exact dir_lookup_refines. Qed.

Theorem C03_dir_store : forall fname (D : key -> Prop),
  (forall a b, D a -> D b -> fname a = fname b -> a = b) ->
  forall st k v k', dir_inv fname D st -> D k -> D k' ->
  dir_inv fname D (dir_store fname st k v) /\
  get (dir_abs (dir_store fname st k v)) k' = get (set (dir_abs st) k v) k'.
Proof. exact dir_store_law. Qed.

Theorem C03_dir_rmdir : forall fname (D : key -> Prop),
  (forall a b, D a -> D b -> fname a = fname b -> a = b) ->
  forall st k k', dir_inv fname D st -> D k -> D k' ->
  dir_inv fname D (dir_rmdir fname st k) /\
  get (dir_abs (dir_rmdir fname st k)) k' = get (del (dir_abs st) k) k'.
Proof. exact dir_rmdir_law. Qed.

Theorem C03_dir_listing : forall fname (D : key -> Prop) st, dir_inv fname D st -> dir_asdict fname st = dir_abs st.
Proof. exact dir_asdict_abs. Qed.

(* the whole mapping protocol of the directory archive (dir_step) refines the dict, operation by
   operation and for every history, as long as the keys used come from a universe D on which the
   naming is injective *)
Theorem C03_dir_refines_dict : forall fname (D : key -> Prop),
  (forall a b, D a -> D b -> fname a = fname b -> a = b) ->
  forall st o, dir_inv fname D st -> op_in D o ->
  dir_inv fname D (fst (dir_step fname st o)) /\
  same_contents (dir_abs (fst (dir_step fname st o))) (fst (dstep (dir_abs st) o)) /\
  out_equiv (snd (dir_step fname st o)) (snd (dstep (dir_abs st) o)).
Proof. exact dir_refines_dict. Qed.

Theorem C03_dir_histories : forall fname (D : key -> Prop),
  (forall a b, D a -> D b -> fname a = fname b -> a = b) ->
  forall ops st m, dir_inv fname D st -> Forall (op_in D) ops -> wf m -> same_contents (dir_abs st) m ->
  dir_inv fname D (dir_run fname st ops) /\ same_contents (dir_abs (dir_run fname st ops)) (drun m ops).
Proof. exact dir_run_refines_dict. Qed.

Theorem C03_dir_failed_op_unchanged : forall fname st o,
  snd (dir_step fname st o) = RKeyError -> fst (dir_step fname st o) = st.
Proof. exact dir_failed_op_unchanged. Qed.

(* ... and where two distinct keys share a name, "distinct keys never alias" is refuted:
   the known finding K1 (str(key) naming: 0 and '0', 1.0 and '1.0', 'a-b' and 'a_b') *)
Theorem C03_dir_alias_refuted : forall fname k1 k2 a b, k1 <> k2 -> fname k1 = fname k2 -> a <> b ->
  dir_lookup fname (dir_store fname (dir_store fname [] k1 a) k2 b) k1 = Some b /\
  get (fst (dstep (fst (dstep [] (DSet k1 a))) (DSet k2 b))) k1 = Some a.
Proof. exact dir_alias_breaks_dict. Qed.

(* null archive: a dict that discards every write *)
Theorem C03_null_discards_writes : forall ops, null_run ops = [].
Proof. exact null_discards_writes. Qed.
Theorem C03_null_answers_as_empty_dict : forall ops o, snd (null_step (null_run ops) o) = snd (dstep [] o).
Proof. exact null_answers_as_empty_dict. Qed.

(* archives under other names are never changed; copy(name) is equal, then independent *)
Theorem C03_other_names_untouched : forall S n o n', n' <> n -> fst (space_step S n o) n' = S n'.
Proof. exact space_frame. Qed.
Theorem C03_copy_equal_then_independent : forall S src dst o, src <> dst ->
  space_copy S src dst dst = S src /\
  fst (space_step (space_copy S src dst) dst o) src = S src /\
  fst (space_step (space_copy S src dst) src o) dst = S src.
Proof. exact space_copy_equal_then_independent. Qed.

(* non-vacuity: a two-entry directory satisfies the invariant under the identity naming *)
Example C03_dir_inv_inhabited :
  dir_inv (fun k => k) (fun _ => True) (dir_store (fun k => k) (dir_store (fun k => k) [] 1 10) 2 20).
Proof. split; cbn; [repeat constructor; cbn; intuition discriminate|intros e [<-|[<-|[]]]; cbn; auto]. Qed.
Example C03_sql_example : get (sql_abs (sql_run [] [DSet 1 10; DSet 1 11; DSet 2 20; DDel 2])) 1 = Some 11.
Proof. reflexivity. Qed.

Print Assumptions C03_spec_is_a_function_of_contents.
Print Assumptions C03_file_refines_dict.
Print Assumptions C03_file_histories.
Print Assumptions C03_file_failed_op_unchanged.
Print Assumptions C03_sql_refines_dict.
Print Assumptions C03_sql_histories.
Print Assumptions C03_sql_failed_op_unchanged.
Print Assumptions C03_dir_lookup.
Print Assumptions C03_dir_store.
Print Assumptions C03_dir_rmdir.
Print Assumptions C03_dir_listing.
Print Assumptions C03_dir_refines_dict.
Print Assumptions C03_dir_histories.
Print Assumptions C03_dir_failed_op_unchanged.
Print Assumptions C03_dir_alias_refuted.
Print Assumptions C03_null_discards_writes.
Print Assumptions C03_null_answers_as_empty_dict.
Print Assumptions C03_other_names_untouched.
Print Assumptions C03_copy_equal_then_independent.
