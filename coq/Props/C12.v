(* C12  Rounding tolerance merges nearby calls but never alters what the function sees. *)
From Klepto Require Import Rounding RoundingFacts.

(* rnd : the leaf rounding round(x, tol) - arbitrary: the theorems hold for every rounding function.
   (In the cache decorators the rounded arguments feed only the key path; that the wrapped function
   receives the caller's original objects is checked on the implementation by identity.) *)
Section C12.
Variable rnd : Z -> Z.

(* whatever the mode, rounding changes nothing but float leaves: same shape, integers, booleans,
   strings, None, other objects and dict KEYS untouched *)
Theorem C12_only_floats_change : forall m v, same_but_floats v (round1 rnd m v).
Proof. exact (round1_only_floats rnd). Qed.

Theorem C12_scalars_untouched : forall m,
  (forall z, round1 rnd m (RInt z) = RInt z) /\ (forall b, round1 rnd m (RBool b) = RBool b) /\
  (forall i, round1 rnd m (RStr i) = RStr i) /\ round1 rnd m RNone = RNone /\ (forall i, round1 rnd m (RObj i) = RObj i).
Proof. exact (scalars_untouched rnd). Qed.

(* data that contains no float is returned unchanged by deep rounding, at any depth *)
Theorem C12_no_float_no_change : forall v, has_float v = false -> deep rnd v = v.
Proof. exact (deep_no_float rnd). Qed.

(* default: top-level floats only; deep=True: floats at any depth inside lists, tuples, sets, dicts *)
Theorem C12_simple_is_top_level : forall k l, simple rnd (RSeq k l) = RSeq k l /\ (forall d, simple rnd (RDict d) = RDict d).
Proof. exact (simple_is_top_level rnd). Qed.

Theorem C12_deep_reaches_every_level : forall b,
  deep rnd (RSeq KList [RSeq KTuple [RDict [(RInt 1, RSeq KSet [RFloat b])]]]) =
  RSeq KList [RSeq KTuple [RDict [(RInt 1, RSeq KSet [RFloat (rnd b)])]]].
Proof. exact (deep_reaches_every_level rnd). Qed.

(* tol=None disables rounding *)
Theorem C12_tol_none : forall m a k, round_call rnd false m a k = (a, k).
Proof. exact (tol_none_is_identity rnd). Qed.

(* rounding never makes a valid call fail: it is total and keeps the shape of the call *)
Theorem C12_total_and_shape : forall tol m a k,
  length (fst (round_call rnd tol m a k)) = length a /\ map fst (snd (round_call rnd tol m a k)) = map fst k.
Proof. exact (round_call_shape rnd). Qed.

(* calls share an entry exactly when their arguments round to the same values (K: any
   information-preserving key function, see C10) *)
Theorem C12_merge_iff_round_equal : forall {T} (K : list rval * list (Z * rval) -> T),
  (forall x y, K x = K y -> x = y) ->
  forall tol m a1 k1 a2 k2,
    K (round_call rnd tol m a1 k1) = K (round_call rnd tol m a2 k2) <->
    round_call rnd tol m a1 k1 = round_call rnd tol m a2 k2.
Proof. exact (@merge_iff_round_equal rnd). Qed.

Theorem C12_idempotent : (forall b, rnd (rnd b) = rnd b) -> forall v, deep rnd (deep rnd v) = deep rnd v.
Proof. exact (deep_idempotent rnd). Qed.
End C12.

Example C12_witness :
  let rnd := fun b => b + 1000 in
  round_call rnd true MDeep [RFloat 1; RSeq KList [RFloat 2; RStr 7; RDict [(RInt 1, RFloat 3)]]; RSeq KOpaque [RFloat 4]] [(5, RInt 9)] =
  ([RFloat 1001; RSeq KList [RFloat 1002; RStr 7; RDict [(RInt 1, RFloat 1003)]]; RSeq KOpaque [RFloat 4]], [(5, RInt 9)]) /\
  round_call rnd true MSimple [RFloat 1; RSeq KList [RFloat 2]] [] = ([RFloat 1001; RSeq KList [RFloat 2]], []).
Proof. cbv zeta. split; reflexivity. Qed.

Print Assumptions C12_only_floats_change.
Print Assumptions C12_scalars_untouched.
Print Assumptions C12_no_float_no_change.
Print Assumptions C12_simple_is_top_level.
Print Assumptions C12_deep_reaches_every_level.
Print Assumptions C12_tol_none.
Print Assumptions C12_total_and_shape.
Print Assumptions C12_merge_iff_round_equal.
Print Assumptions C12_idempotent.
