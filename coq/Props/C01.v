(* placeholder *) From Klepto Require Import CacheCore.
