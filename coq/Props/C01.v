(* C01  Memoization transparency: a cached call returns what the function returns. *)
From Klepto Require Import OMap CacheDict CacheDictFacts CacheCore CoreInv CoreStep CoreSize CoreExn CoreStore.

Section C01.
(* g : the deterministic user function as seen through an information-preserving keymap (every
   argument tuple whose key is k yields g k; discharged for klepto's keymaps by C10/C11/C12). *)
Variable g : key -> fres.

(* one call, from ANY well-formed state whose stored entries are values of g: the call returns
   g's value or raises g's exception - whether answered from memory, loaded from the archive or
   computed - for all 12 decorators, every maxsize and purge setting, archived or not *)
Theorem C01_call_transparent : forall c s kr fr orc,
  WF c s -> Consistent g s -> (forall k, kr = KOk k -> fr = g k) ->
  transparent_out fr (snd (call c s kr fr orc)) /\ Consistent g (fst (call c s kr fr orc)).
Proof. exact (call_transparent g). Qed.

(* every operation keeps the invariant (externally supplied archives / entries must hold values of g) *)
Theorem C01_invariant : forall c s o, WF c s -> Consistent g s -> op_consistent g o ->
  Consistent g (fst (step c s o)).
Proof. exact (Consistent_step g). Qed.

(* every call of every history, interleaved in any way with load/dump/clear/archive toggling/
   archive replacement/lookup/key/info, is transparent *)
Theorem C01_history : forall c ops s, WF c s -> Consistent g s ->
  Forall op_ok ops -> Forall (op_consistent g) ops -> all_transparent c s ops.
Proof. exact (history_transparent g). Qed.
End C01.

(* non-vacuity: hypotheses are met by a populated state; an evict-then-reload history returns g *)
Example C01_witness :
  let g := fun k => if Z.eqb k 9 then Raise else Ret (100 + k) in
  let c := mkCfg LRU 1 false false false in
  let s0 := init_state (mkC [] (AStore [(5, 105)]) ANull) in
  Consistent g s0 /\ WF c s0 /\
  all_transparent c s0 [Call (KOk 1) (g 1) 0; Call (KOk 2) (g 2) 0; Call (KOk 1) (g 1) 0; Call (KOk 5) (g 5) 0;
                        Call (KOk 9) (g 9) 0; Dump []; Clear false; Call (KOk 2) (g 2) 0].
Proof.
  cbv zeta. split; [|split].
  - unfold Consistent, consistent_arch, consistent_map; cbn. repeat split; intros k v; try discriminate.
    destruct (Z.eqb k 5) eqn:E; [|discriminate]. apply Z.eqb_eq in E; subst. intros H; inversion H; reflexivity.
  - apply WF_init_any. unfold wf_c, wf_arch; cbn. repeat split; repeat constructor; cbn; intuition discriminate.
  - vm_compute. repeat split; reflexivity.
Qed.

Print Assumptions C01_call_transparent.
Print Assumptions C01_invariant.
Print Assumptions C01_history.
