(* C07  Nothing is lost on eviction: leaving memory means being in the archive. *)
From Klepto Require Import OMap CacheDict CacheDictFacts CacheCore CoreInv CoreStep CoreSize CoreExn CoreStore.

(* one call, any decorator (bounded algorithms, no_cache, inf; standard and safe; purge on/off),
   archive attached: (1) the archive stays attached, memory and archive keep agreeing,
   (2) no archived entry is changed or removed, (3) whatever was retrievable (memory or archive)
   still is, with the same value - so an entry that leaves memory by eviction or purge IS in the
   archive - and (4) the result computed by the call is retrievable afterwards.
   (no_cache's memory is only a staging area: for it (3) is stated on the archive, clause (2).) *)
Theorem C07_call : forall c s kr fr orc, WF c s -> archived_ c s = true -> agree s ->
  let s' := fst (call c s kr fr orc) in
  archived_ c s' = true /\ agree s' /\
  (forall x v, a_get (arch (cs s)) x = Some v -> a_get (arch (cs s')) x = Some v) /\
  (c_alg c <> NO -> forall x v, retr s x v -> retr s' x v) /\
  (forall k v ev, kr = KOk k -> snd (call c s kr fr orc) = ORet v ev ->
     (ev = 0 /\ retr s k v) \/
     (ev = 1 /\ fr = Ret v /\ get (smem s) k = None /\ a_get (arch (cs s)) k = None /\ retr s' k v)).
Proof. exact call_keeps. Qed.

(* over whole histories of cache traffic (calls, load, dump, introspection) *)
Theorem C07_history : forall c ops s, forallb traffic ops = true -> Good c s ->
  Good c (run c s ops) /\
  (forall x v, a_get (arch (cs s)) x = Some v -> a_get (arch (cs (run c s ops))) x = Some v) /\
  (c_alg c <> NO -> forall x v, retr s x v -> retr (run c s ops) x v).
Proof. exact history_keeps. Qed.

Example C07_witness :
  let c := mkCfg LFU 2 false false false in
  let s0 := init_state (mkC [] (AStore []) ANull) in
  let s := run c s0 [Call (KOk 1) (Ret 11) 0; Call (KOk 2) (Ret 12) 0; Call (KOk 2) (Ret 12) 0; Call (KOk 3) (Ret 13) 0] in
  Good c s0 /\ smem s = [(2, 12)] /\ a_contents (arch (cs s)) = [(1, 11); (3, 13)].
Proof.
  cbv zeta. split; [|split].
  - split; [|split].
    + apply WF_init_any. unfold wf_c, wf_arch; cbn. repeat split; repeat constructor.
    + reflexivity.
    + intros k v v'. cbn. discriminate.
  - vm_compute. reflexivity.
  - vm_compute. reflexivity.
Qed.

Print Assumptions C07_call.
Print Assumptions C07_history.
