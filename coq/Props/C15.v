(* C15  Statistics are an exact account of what happened. *)
From Klepto Require Import OMap CacheDict CacheCore CoreInv CoreStep CoreSize CoreExn.

(* Ground truth is read off the state BEFORE the call (classify): Hit = key resident;
   Loaded = not resident but held by the attached archive (no_cache: any retrieved result);
   Evaluated otherwise.  Every completed call increments exactly that counter by one; a call that
   raises changes no counter. *)
Theorem C15_stats_exact : forall c s kr fr orc,
  stats_claim (fst (call c s kr fr orc)) (snd (call c s kr fr orc)) (bump s (classify c s kr)) (stats s).
Proof. exact stats_exact. Qed.

(* hit + miss + load = number of completed calls *)
Theorem C15_total : forall c s kr fr orc,
  match snd (call c s kr fr orc) with
  | ORet _ _ => total (fst (call c s kr fr orc)) = total s + 1
  | ORaise EIndexError _ => True
  | _ => total (fst (call c s kr fr orc)) = total s
  end.
Proof. exact total_exact. Qed.

(* size = resident entries, maxsize = configured bound *)
Theorem C15_info : forall c s,
  step c s Info = (s, OInfo (hits s) (misses s) (loads s) (info_max c) (size (smem s))).
Proof. exact info_spec. Qed.

(* clear() empties the memory cache and zeroes the counters, clear(keepstats=True) keeps them *)
Theorem C15_clear : forall c s keep, c_alg c <> NO ->
  smem (do_clear c s keep) = [] /\ stats (do_clear c s keep) = if keep then stats s else (0, 0, 0).
Proof. exact clear_spec. Qed.

(* load/dump/archive toggling/lookup/key never touch the counters *)
Theorem C15_frame : forall c s o, (forall kr fr orc, o <> Call kr fr orc) -> (forall keep, o <> Clear keep) ->
  stats (fst (step c s o)) = stats s.
Proof. exact stats_frame. Qed.

Example C15_witness :
  let c := mkCfg MRU 2 false false false in
  let s0 := init_state (mkC [] (AStore [(3, 13)]) ANull) in
  let s := run c s0 [Call (KOk 1) (Ret 11) 0; Call (KOk 1) (Ret 11) 0; Call (KOk 3) (Ret 13) 0;
                     Call (KOk 9) Raise 0; Call (KOk 4) (Ret 14) 0] in
  stats s = (1, 2, 1) /\ classify c s0 (KOk 3) = Loaded /\ classify c s0 (KOk 1) = Evaluated.
Proof. cbv zeta. repeat split; vm_compute; reflexivity. Qed.

Print Assumptions C15_stats_exact.
Print Assumptions C15_total.
Print Assumptions C15_info.
Print Assumptions C15_clear.
Print Assumptions C15_frame.
