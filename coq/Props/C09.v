(* placeholder *) From Klepto Require Import Keys.
