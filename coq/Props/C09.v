(* C09  Key canonicalisation: equivalent calls map to one key. *)
From Klepto Require Import PyVal KFacts Keys KeygenFacts KeyProps.

(* _keygen returns, as (extra positionals, finite map), exactly Python's binding of the call with
   the ignored parameters replaced by NULL - for every signature (positional-or-keyword parameters
   with/without defaults, *args, keyword-only parameters, **kwargs), every ignore specification,
   every valid call and every iteration order of the ignored-name set *)
Theorem C09_keygen_is_the_binding : forall sig ignored order c b, wf_sig sig -> wf_call c ->
  (forall n, In n order <-> In n (names_to_ignore (sig_explicit sig) ignored)) ->
  bind sig c = Some b ->
  fst (keygen_ord sig ignored order c) = spec_args sig ignored b /\
  (forall n, kget (snd (keygen_ord sig ignored order c)) n = spec_map sig ignored b n) /\
  NoDup (kkeys (snd (keygen_ord sig ignored order c))).
Proof. exact keygen_spec. Qed.

(* Two calls that bind the same values to the same parameters (positional or keyword, any keyword
   order, defaults spelled out or omitted) produce the SAME structured key under every raw keymap
   configuration - flat or not, typed or not, with or without sentinel.  Serialising keymaps
   (string / pickle / named hash) apply a function to this key, hence agree as well. *)
Theorem C09_key_canonical : forall sig ignored k order1 order2 c1 c2 b1 b2,
  wf_sig sig -> wf_call c1 -> wf_call c2 -> order_ok sig ignored order1 -> order_ok sig ignored order2 ->
  bind sig c1 = Some b1 -> bind sig c2 = Some b2 -> same_binding b1 b2 ->
  keymap_raw k (fst (keygen_ord sig ignored order1 c1)) (snd (keygen_ord sig ignored order1 c1)) =
  keymap_raw k (fst (keygen_ord sig ignored order2 c2)) (snd (keygen_ord sig ignored order2 c2)).
Proof. exact key_canonical. Qed.

(* non-vacuity: def f(x, y=3, *args, k, m=5, **kw); f(1, k=7, z=9) and f(k=7, z=9, y=3, x=1)
   are valid, bind identically, and get one key under all 8 raw keymap configurations *)
Definition sx := [120]. Definition sy := [121]. Definition sk := [107]. Definition sm := [109]. Definition sz := [122].
Definition sig0 := mkSig [(sx, None); (sy, Some (VInt 3))] true [(sk, None); (sm, Some (VInt 5))] true.
Definition call1 : call := ([VInt 1], [(sk, VInt 7); (sz, VInt 9)]).
Definition call2 : call := ([], [(sk, VInt 7); (sz, VInt 9); (sy, VInt 3); (sx, VInt 1)]).

Example C09_witness :
  wf_sig sig0 /\ wf_call call1 /\ wf_call call2 /\
  (exists b1 b2, bind sig0 call1 = Some b1 /\ bind sig0 call2 = Some b2 /\ same_binding b1 b2) /\
  forallb (fun k => py_eqb (key_of sig0 [] k call1) (key_of sig0 [] k call2))
          [mkK false true false; mkK false true true; mkK true true false; mkK true true true;
           mkK false false false; mkK false false true; mkK true false false; mkK true false true] = true /\
  key_of sig0 [] (mkK false true false) call1 =
    VTup [VStr sk; VInt 7; VStr sm; VInt 5; VStr sx; VInt 1; VStr sy; VInt 3; VStr sz; VInt 9].
Proof.
  split; [|split; [|split; [|split; [|split]]]].
  - unfold wf_sig, sig0, names_of; cbn. repeat constructor; cbn; intuition discriminate.
  - unfold wf_call, call1; cbn. repeat constructor; cbn; intuition discriminate.
  - unfold wf_call, call2; cbn. repeat constructor; cbn; intuition discriminate.
  - eexists. eexists. split; [vm_compute; reflexivity|]. split; [vm_compute; reflexivity|].
    unfold same_binding, map_eq. repeat split; intros n; cbn [b_named b_extra_kw kget assoc];
      repeat (destruct (str_eqb n _); [reflexivity|]); reflexivity.
  - vm_compute. reflexivity.
  - vm_compute. reflexivity.
Qed.

Print Assumptions C09_keygen_is_the_binding.
Print Assumptions C09_key_canonical.
