(* C02  Compute-once: the function runs only when no stored result is retrievable. *)
From Klepto Require Import OMap CacheDict CacheDictFacts CacheCore CoreInv CoreStep CoreSize CoreExn CoreStore.

(* (a) every configuration, every state: at most one evaluation per call, and an evaluation only
       when the key is in neither the memory cache nor the attached archive *)
Theorem C02_eval_only_if_absent : forall c s k fr orc,
  match snd (call c s (KOk k) fr orc) with
  | ORet _ ev | ORaise _ ev =>
      (ev = 0 \/ ev = 1) /\
      (ev = 1 -> get (smem s) k = None /\ (archived_ c s = true -> a_get (arch (cs s)) k = None))
  | _ => False
  end.
Proof. exact eval_only_if_absent. Qed.

(* (b) a lossless archive attached: over any history of calls / load / dump / introspection, across
       evictions and purges, each key is evaluated at most once *)
Theorem C02_at_most_once : forall c ops s k, forallb traffic ops = true -> Good c s -> evals c s ops k <= 1.
Proof. exact evaluated_at_most_once. Qed.

(* (c) a second decorator instance / later session on the same archive (any state whose archive
       holds the key, e.g. empty memory) never re-evaluates a key that has reached the archive *)
Theorem C02_second_session : forall c ops s k, forallb traffic ops = true -> Good c s -> has c s k -> evals c s ops k = 0.
Proof. exact held_never_evaluated. Qed.

(* a computed result is retrievable right after the call that computed it *)
Theorem C02_computed_is_kept : forall c s kr fr orc, WF c s -> archived_ c s = true -> agree s ->
  forall k v ev, kr = KOk k -> snd (call c s kr fr orc) = ORet v ev ->
     (ev = 0 /\ retr s k v) \/
     (ev = 1 /\ fr = Ret v /\ get (smem s) k = None /\ a_get (arch (cs s)) k = None /\ retr (fst (call c s kr fr orc)) k v).
Proof. intros c s kr fr orc Hwf Har Hag. exact (proj2 (proj2 (proj2 (proj2 (call_keeps c s kr fr orc Hwf Har Hag))))). Qed.

Example C02_witness :
  let c := mkCfg RR 1 true false false in
  let s0 := init_state (mkC [] (AStore [(5, 105)]) ANull) in
  Good c s0 /\ has c s0 5 /\
  evals c s0 [Call (KOk 1) (Ret 101) 1; Call (KOk 2) (Ret 102) 1; Call (KOk 1) (Ret 101) 2; Call (KOk 1) (Ret 101) 2] 1 = 1.
Proof.
  cbv zeta. split; [|split].
  - split; [|split].
    + apply WF_init_any. unfold wf_c, wf_arch; cbn. repeat split; repeat constructor; cbn; intuition discriminate.
    + reflexivity.
    + intros k v v'. cbn. discriminate.
  - exists 105. left. reflexivity.
  - vm_compute. reflexivity.
Qed.

Print Assumptions C02_eval_only_if_absent.
Print Assumptions C02_at_most_once.
Print Assumptions C02_second_session.
Print Assumptions C02_computed_is_kept.
