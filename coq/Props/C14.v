(* C14  Concurrent processes: no lost entries, no phantom or torn reads.
   Only statements, each closed by a lemma of Store/*.v, with Print Assumptions. *)
From Klepto Require Import OMap OMapFacts DictSpec FileArch FileConc DirProto.
From Klepto Require Backends SqlConc.

(* single file: a reader scheduled at any point of a save sees a complete earlier or later dictionary *)
Theorem C14_file_reader_sees_complete : forall fs m n,
  asdict (frun fs (firstn n (save m))) = asdict fs \/ asdict (frun fs (firstn n (save m))) = m.
Proof. exact file_reader_sees_complete. Qed.

(* ... which the remove-then-rename protocol did not guarantee *)
Theorem C14_file_remove_then_rename_reader_refuted :
  exists fs m n, asdict (frun fs (firstn n (save_old m))) <> asdict fs /\ asdict (frun fs (firstn n (save_old m))) <> m.
Proof. exact file_old_protocol_reader_refuted. Qed.

(* merely opening the archive re-saves what was read: an opener that read before a writer's save and
   saves after it puts the old dictionary back - a completed write is lost (known finding K11) *)
Theorem C14_file_opener_loses_write_refuted :
  exists fs m, let opened_late := frun (frun fs (save m)) (save (asdict fs)) in asdict opened_late <> m.
Proof. exact file_opener_loses_write_refuted. Qed.

(* two processes on one file, each with its own local copy and temporary file: under EVERY interleaving
   of a writer with a reader the reader sees the complete earlier or later dictionary and the
   writer's result stands; readers never disturb anything *)
Theorem C14_file_writer_reader_all_interleavings : forall m f l, pinter (writer f) reader l ->
  view (prun (start m) l) = f m /\ (loc2 (prun (start m) l) = m \/ loc2 (prun (start m) l) = f m).
Proof. exact writer_reader_all_interleavings. Qed.

Theorem C14_file_readers_only : forall m l, pinter reader reader l -> view (prun (start m) l) = m.
Proof. exact reader_reader_all_interleavings. Qed.

(* the opener (constructor: read, then save what was read) against a writer: an interleaving exists in
   which the completed write is lost; run one after the other nothing is lost (K11) *)
Theorem C14_file_writer_opener_lost_write_refuted :
  exists m f l, pinter (writer f) opener l /\ view (prun (start m) l) <> f m.
Proof. exact writer_opener_lost_write_refuted. Qed.

Theorem C14_file_writer_opener_serial : forall m f,
  view (prun (start m) (map (pair true) (writer f) ++ map (pair false) opener)) = f m /\
  view (prun (start m) (map (pair false) opener ++ map (pair true) (writer f))) = f m.
Proof. exact writer_opener_serial. Qed.

(* directory: a process whose names nobody else touches ends as if it had run alone, whatever the schedule *)
Theorem C14_dir_isolated_process : forall (S : dname -> Prop) l1 l2 l,
  interleave l1 l2 l ->
  (forall a, In a l1 -> forall m, In m (touches a) -> S m) ->
  (forall b, In b l2 -> forall m, In m (touches b) -> ~ S m) ->
  forall fs fs', agree_on S fs fs' -> agree_on S (DirProto.drun fs l) (DirProto.drun fs' l1).
Proof. exact interleave_isolated. Qed.

(* two writers on different keys: under every interleaving both entries land, nothing else changes *)
Theorem C14_dir_concurrent_stores_both_land : forall fs n1 k1 v1 t1 u1 n2 k2 v2 t2 u2 l,
  n1 <> n2 -> NoDup [t1; u1; t2; u2] -> fs (NTemp u1) = None -> fs (NTemp u2) = None ->
  interleave (store n1 k1 v1 t1 u1) (store n2 k2 v2 t2 u2) l ->
  entry (DirProto.drun fs l) n1 = Some (Complete k1 v1) /\ entry (DirProto.drun fs l) n2 = Some (Complete k2 v2) /\
  forall n', n' <> n1 -> n' <> n2 -> entry (DirProto.drun fs l) n' = entry fs n'.
Proof. exact concurrent_stores_both_land. Qed.

(* a reader at any point of a store: archive readable, other entries unchanged, the key old / new / (overwrite) absent *)
Theorem C14_dir_reader_during_store : forall fs n k v t t2 i, t <> t2 -> readable fs ->
  let st := DirProto.drun fs (firstn i (store n k v t t2)) in
  readable st /\ (forall n', n' <> n -> entry st n' = entry fs n') /\
  (entry st n = entry fs n \/ entry st n = Some (Complete k v) \/ entry st n = None).
Proof. exact store_crash. Qed.

(* what a reader cannot rely on: an entry it has listed may be gone when it opens it (known finding K10) *)
Theorem C14_dir_list_then_lookup_race_refuted :
  exists fs n t, readable fs /\ entry fs n <> None /\ entry (DirProto.drun fs (firstn 1 (remove n t))) n = None.
Proof. exact reader_list_then_lookup_race_refuted. Qed.

(* SQL table (every operation is one transaction): ANY schedule of whole operations of ANY number of
   processes.  If process p names only keys of a region S and nobody else names a key of S, then p
   is answered exactly as if it ran alone and the table ends, on S, exactly as if p had run alone *)
Theorem C14_sql_isolated_process : forall (S : key -> Prop) p l, SqlConc.disciplined S p l -> forall r r',
  (forall k, S k -> Backends.sql_select r k = Backends.sql_select r' k) ->
  snd (SqlConc.sql_sched p r l) = snd (SqlConc.sql_alone r' (SqlConc.mine p l)) /\
  forall k, S k -> Backends.sql_select (fst (SqlConc.sql_sched p r l)) k =
                   Backends.sql_select (fst (SqlConc.sql_alone r' (SqlConc.mine p l))) k.
Proof. exact SqlConc.sql_isolated. Qed.

(* the same for the dict specification itself, hence for every store that refines it per operation *)
Theorem C14_atomic_store_isolated_process : forall (S : key -> Prop) (T : Type) (step : T -> dop -> T * dout) (abs : T -> omap),
  (forall t o, same_contents (abs (fst (step t o))) (fst (dstep (abs t) o)) /\
               DictFacts.out_equiv (snd (step t o)) (snd (dstep (abs t) o))) ->
  forall p l, SqlConc.disciplined S p l -> forall t u, SqlConc.agree_on S (abs t) (abs u) ->
  snd (SqlConc.run_sched T step p t l) = snd (SqlConc.run_alone T step u (SqlConc.mine p l)) /\
  SqlConc.agree_on S (abs (fst (SqlConc.run_sched T step p t l))) (abs (fst (SqlConc.run_alone T step u (SqlConc.mine p l)))).
Proof. exact SqlConc.isolated. Qed.

Theorem C14_sql_two_writers_both_land : forall r k1 v1 k2 v2, k1 <> k2 ->
  forall l, l = [(1%nat, DSet k1 v1); (2%nat, DSet k2 v2)] \/ l = [(2%nat, DSet k2 v2); (1%nat, DSet k1 v1)] ->
  let r' := fst (SqlConc.sql_sched 0%nat r l) in
  Backends.sql_select r' k1 = Some v1 /\ Backends.sql_select r' k2 = Some v2 /\
  forall k, k <> k1 -> k <> k2 -> Backends.sql_select r' k = Backends.sql_select r k.
Proof. exact SqlConc.sql_two_writers. Qed.

(* the discipline is necessary: a concurrent clear() is a whole-store operation *)
Theorem C14_sql_clear_breaks_isolation_refuted :
  exists l, SqlConc.mine 1%nat l = [DSet 1 10; DGet 1] /\
    snd (SqlConc.sql_alone [] (SqlConc.mine 1%nat l)) = [RUnit; RVal (Some 10)] /\
    snd (SqlConc.sql_sched 1%nat [] l) = [RUnit; RKeyError].
Proof. exact SqlConc.sql_clear_not_isolated. Qed.

(* non-vacuity: a three-process schedule that meets the discipline for process 1 with S = {1, 2} *)
Example C14_sql_discipline_witness :
  SqlConc.disciplined (fun k => k = 1 \/ k = 2) 1%nat
    [(1%nat, DSet 1 10); (2%nat, DSet 5 50); (3%nat, DDel 7); (1%nat, DUpdate [(2, 20)]); (2%nat, DPop 5 None); (1%nat, DGet 2)].
Proof.
  intros q o H. cbn in H.
  repeat (destruct H as [H|H];
    [injection H as <- <-; cbn; first [ now auto | (intros [X|X]; discriminate X) | (intros k [<-|[]]; now auto) ]|]).
  contradiction.
Qed.

Example C14_interleaving_exists :
  interleave (store 1 1 10 100 101) (store 2 2 20 200 201)
    [MkTemp 100; MkTemp 200; Fill 200 2 20; Fill 100 1 10; MoveAside 1 101; MoveAside 2 201; RmTemp 201; MoveIn 200 2; RmTemp 101; MoveIn 100 1].
Proof. unfold store. repeat constructor. Qed.

Print Assumptions C14_file_reader_sees_complete.
Print Assumptions C14_file_remove_then_rename_reader_refuted.
Print Assumptions C14_file_opener_loses_write_refuted.
Print Assumptions C14_dir_isolated_process.
Print Assumptions C14_dir_concurrent_stores_both_land.
Print Assumptions C14_dir_reader_during_store.
Print Assumptions C14_dir_list_then_lookup_race_refuted.
Print Assumptions C14_file_writer_reader_all_interleavings.
Print Assumptions C14_file_readers_only.
Print Assumptions C14_file_writer_opener_lost_write_refuted.
Print Assumptions C14_file_writer_opener_serial.
Print Assumptions C14_sql_isolated_process.
Print Assumptions C14_atomic_store_isolated_process.
Print Assumptions C14_sql_two_writers_both_land.
Print Assumptions C14_sql_clear_breaks_isolation_refuted.
