(* C19  validate/isvalid agree with Python's own argument binding. *)
From Klepto Require Import PyVal KFacts Keys KeygenFacts Validate.

(* On every plain function signature WITHOUT keyword-only parameters - required and defaulted
   positional-or-keyword parameters, *args, **kwargs - and for every call, validate() accepts the
   call exactly when Python's binding succeeds *)
Theorem C19_fragment : forall sig c, s_kwonly sig = [] -> wf_sig sig -> wf_call c ->
  validate_ok sig c = bind_ok sig c.
Proof. exact validate_agrees_with_binding. Qed.

(* Outside that fragment the full statement is FALSE of the faithful model (and of klepto):
   with keyword-only parameters a valid call is rejected and an invalid call is accepted.
   def f(x, y, z=3, *, k, m=5):  f(1, 2, k=1) is valid but rejected;  f(1, 2) lacks k but is accepted. *)
Definition sK := mkSig [([120], None); ([121], None); ([122], Some (VInt 3))] false [([107], None); ([109], Some (VInt 5))] false.
Theorem C19_refuted_keyword_only :
  wf_sig sK /\
  (validate_ok sK ([VInt 1; VInt 2], [([107], VInt 1)]) = false /\ bind_ok sK ([VInt 1; VInt 2], [([107], VInt 1)]) = true) /\
  (validate_ok sK ([VInt 1; VInt 2], []) = true /\ bind_ok sK ([VInt 1; VInt 2], []) = false).
Proof.
  split; [|split; split; vm_compute; reflexivity].
  unfold wf_sig, sK, names_of; cbn. repeat constructor; cbn; intuition discriminate.
Qed.

(* non-vacuity of the fragment theorem: def f(x, y=3, *args, **kw) with valid and invalid calls *)
Definition sF := mkSig [([120], None); ([121], Some (VInt 3))] true [] true.
Example C19_witness :
  wf_sig sF /\ s_kwonly sF = [] /\
  map (validate_ok sF) [([VInt 1], []); ([], []); ([VInt 1; VInt 2; VInt 9], [([122], VInt 0)]); ([VInt 1], [([120], VInt 2)])]
    = [true; false; true; false] /\
  map (bind_ok sF) [([VInt 1], []); ([], []); ([VInt 1; VInt 2; VInt 9], [([122], VInt 0)]); ([VInt 1], [([120], VInt 2)])]
    = [true; false; true; false].
Proof.
  split; [|split; [reflexivity|split; vm_compute; reflexivity]].
  unfold wf_sig, sF, names_of; cbn. repeat constructor; cbn; intuition discriminate.
Qed.

Print Assumptions C19_fragment.
Print Assumptions C19_refuted_keyword_only.
