(* C16  Exceptions pass through untouched; safe caches degrade to plain evaluation. *)
From Klepto Require Import OMap CacheDict CacheCore CoreInv CoreStep CoreSize CoreExn.

(* The wrapped function raises (fr = Raise).  For every configuration (12 decorators, maxsize,
   purge, archive attached or not), every key outcome and EVERY state: either a stored result is
   returned and the function is not evaluated, or the exception propagates after exactly one
   evaluation and the state - memory, archive, parked archive, eviction queue, refcounts, use
   counts and statistics - is identical to the state before the call. *)
Theorem C16_raise_is_identity : forall c s kr orc,
  match snd (call c s kr Raise orc) with
  | ORaise EUser ev => ev = 1 /\ fst (call c s kr Raise orc) = s
  | ORaise ETypeError ev => ev = 0 /\ fst (call c s kr Raise orc) = s /\ c_safe c = false
  | ORet _ ev => ev = 0
  | ORaise EIndexError ev => ev = 0
  | _ => False
  end.
Proof. exact raise_is_identity. Qed.

(* ... and under the bookkeeping invariant (every reachable state) the IndexError case is impossible *)
Theorem C16_no_other_exception : forall c s kr fr orc ev, WF c s -> bounded (c_alg c) = true -> orc_ok c s kr orc ->
  snd (call c s kr fr orc) <> ORaise EIndexError ev.
Proof. exact call_never_index_error. Qed.

(* safe decorators: a key that cannot be built or hashed => one plain evaluation, its result returned *)
Theorem C16_safe_fallback : forall c s kr fr orc, c_safe c = true -> kr <> KOk 0 -> (forall k, kr <> KOk k) ->
  match fr with
  | Ret v => snd (call c s kr fr orc) = ORet v 1
  | Raise => snd (call c s kr fr orc) = ORaise EUser 1 /\ fst (call c s kr fr orc) = s
  end.
Proof. exact safe_fallback. Qed.

Theorem C16_safe_never_key_error : forall c s kr fr orc ev, c_safe c = true ->
  snd (call c s kr fr orc) <> ORaise ETypeError ev.
Proof. exact safe_never_key_error. Qed.

(* standard decorators fail before evaluating, state untouched *)
Theorem C16_std_key_failure : forall c s kr fr orc, c_safe c = false -> (forall k, kr <> KOk k) ->
  call c s kr fr orc = (s, ORaise ETypeError 0).
Proof. exact std_key_failure. Qed.

(* non-vacuity: a populated LRU state with pending bookkeeping; a raising miss leaves it identical *)
Example C16_witness :
  let c := mkCfg LRU 2 false true false in
  let s := mkS (mkC [(1, 11); (2, 12)] (AStore [(3, 13)]) ANull) [1; 2; 1] [(1, 2); (2, 1)] [] 1 2 0 in
  call c s (KOk 7) Raise 0 = (s, ORaise EUser 1) /\
  call c s (KOk 3) Raise 0 <> (s, ORaise EUser 1) /\
  snd (call c s KUnhash (Ret 5) 0) = ORet 5 1.
Proof. cbv zeta. repeat split; vm_compute; congruence. Qed.

Print Assumptions C16_raise_is_identity.
Print Assumptions C16_no_other_exception.
Print Assumptions C16_safe_fallback.
Print Assumptions C16_safe_never_key_error.
Print Assumptions C16_std_key_failure.
