(* C06  Eviction follows the advertised policy (LRU / MRU / LFU / RR). *)
From Klepto Require Import OMap CacheDict CacheDictFacts CacheCore LruFacts LfuFacts CoreInv CoreStep CoreSize CoreExn CorePolicy.

(* a hit never removes anything *)
Theorem C06_hit_removes_nothing : forall c s k fr orc v, get (smem s) k = Some v ->
  smem (fst (call_cached c s k fr orc)) = smem s /\ snd (call_cached c s k fr orc) = ORet v 0.
Proof. exact hit_frame. Qed.

(* an insertion that does not overflow removes nothing *)
Theorem C06_no_overflow_removes_nothing : forall c s k orc, size (smem s) <= c_max c -> purge_block c s k orc = (s, EvOk).
Proof. exact no_overflow_frame. Qed.

(* LRU: the pop-until-refcount-zero loop returns exactly the head of the recency list
   (= the entry whose most recent use is oldest) and leaves the rest of the recency list *)
Theorem C06_lru_loop : forall q rc, counts rc q -> q <> [] ->
  exists v q' rc', lru_evict q rc = (Some v, q', rc') /\
    dedup_last q = v :: dedup_last q' /\ counts rc' q' /\ occ v q' = 0.
Proof. exact lru_evict_is_lru. Qed.

Theorem C06_lru_evicts_least_recent : forall c s k orc, c_alg c = LRU -> WF c s -> queue s <> [] ->
  exists v q', dedup_last (queue s) = v :: dedup_last q' /\
    smem (fst (evict c s k orc)) = del (smem s) v /\ queue (fst (evict c s k orc)) = q' /\
    snd (evict c s k orc) = EvOk.
Proof. exact evict_lru. Qed.

(* recording a use = move to the most-recent end; compaction leaves the recency list unchanged *)
Theorem C06_lru_use : forall q k, dedup_last (q ++ [k]) = List.remove Z.eq_dec k (dedup_last q) ++ [k].
Proof. exact dedup_last_app_single. Qed.

Theorem C06_lru_compaction : forall q, dedup_last (fst (compact q)) = dedup_last q.
Proof. exact compaction_keeps_recency. Qed.

(* refinement: for every state reached by calls, one call of the real wrapper (queue + refcounts +
   periodic compaction) is one step of the ideal LRU cache on (resident map, recency list);
   the invariants needed are re-established, so this holds along histories of any length *)
Theorem C06_lru_refines_ideal : forall c s k v orc, c_alg c = LRU -> archived_ c s = false -> WF c s -> tracked s ->
  let s' := fst (call_cached c s k (Ret v) orc) in
  abs_lru s' = ideal_lru_call (c_max c) (smem s) (dedup_last (queue s)) k v /\ tracked s' /\ WF c s'.
Proof. exact lru_refines_ideal. Qed.

(* MRU: the queue is the recency list; its last element - the entry used most recently before the
   current call - is the one that leaves memory, and nothing else *)
Theorem C06_mru_evicts_most_recent : forall c s k orc q' v, c_alg c = MRU -> queue s = q' ++ [v] ->
  smem (fst (evict c s k orc)) = del (smem s) v /\ queue (fst (evict c s k orc)) = q'.
Proof. exact evict_mru. Qed.

Theorem C06_mru_use : forall c s k, c_alg c = MRU -> WF c s -> resident s k ->
  queue (post c (hit1 (touch_hit c s k)) k) = remove_first k (queue s) ++ [k].
Proof. exact mru_hit_moves_to_end. Qed.

(* LFU: exactly the victims leave memory, and every victim's use count is <= that of every
   entry it keeps counting; use counts count calls since the entry entered the cache *)
Theorem C06_lfu_victims : forall c s k orc, c_alg c = LFU ->
  let vs := lfu_victims (lfu_n (c_max c)) (usec s) in
  (forall x, get (smem (fst (evict c s k orc))) x = if in_dec Z.eq_dec x vs then None else get (smem s) x) /\
  (forall v nv ks ns, In (v, nv) (firstn (lfu_n (c_max c)) (sort_by_count (usec s))) ->
                      In (ks, ns) (skipn (lfu_n (c_max c)) (sort_by_count (usec s))) -> nv <= ns) /\
  vs = map fst (firstn (lfu_n (c_max c)) (sort_by_count (usec s))).
Proof. exact evict_lfu. Qed.

Theorem C06_lfu_counts : forall c s k, c_alg c = LFU ->
  cnt_get (usec (touch_new c s k)) k = cnt_get (usec s) k + 1 /\
  cnt_get (usec (touch_hit c s k)) k = cnt_get (usec s) k + 1 /\
  (forall x, x <> k -> cnt_get (usec (touch_hit c s k)) x = cnt_get (usec s) x).
Proof. exact lfu_counts_uses. Qed.

(* RR: exactly the chosen resident entry is removed *)
Theorem C06_rr_removes_one : forall c s k orc, c_alg c = RR -> smem (fst (evict c s k orc)) = del (smem s) orc.
Proof. exact evict_rr. Qed.

(* non-vacuity: a long LRU history (2 x 40 uses on maxsize 2 => several compactions), then a miss
   evicts the least recently used of the two residents *)
Example C06_witness :
  let c := mkCfg LRU 2 false false false in
  let hits := flat_map (fun _ => [Call (KOk 1) (Ret 11) 0; Call (KOk 2) (Ret 12) 0]) (seq 0 40) in
  let s := run c (init_state (mkC [] ANull ANull)) (hits ++ [Call (KOk 1) (Ret 11) 0]) in
  WF c s /\ tracked s /\ (length (queue s) <= 21)%nat /\
  keys (smem (fst (call_cached c s 3 (Ret 13) 0))) = [1; 3].
Proof.
  cbv zeta. split; [|split; [|split]].
  - apply WF_run; [apply WF_init_any; unfold wf_c, wf_arch; cbn; repeat split; constructor|].
    apply Forall_forall. intros o Ho. apply in_app_or in Ho. destruct Ho as [Ho|[<-|[]]]; [|exact I].
    apply in_flat_map in Ho. destruct Ho as (_ & _ & [<-|[<-|[]]]); exact I.
  - vm_compute. intros k [<-|[<-|[]]]; auto.
  - vm_compute. auto 30.
  - vm_compute. reflexivity.
Qed.

Print Assumptions C06_hit_removes_nothing.
Print Assumptions C06_no_overflow_removes_nothing.
Print Assumptions C06_lru_loop.
Print Assumptions C06_lru_evicts_least_recent.
Print Assumptions C06_lru_use.
Print Assumptions C06_lru_compaction.
Print Assumptions C06_lru_refines_ideal.
Print Assumptions C06_mru_evicts_most_recent.
Print Assumptions C06_mru_use.
Print Assumptions C06_lfu_victims.
Print Assumptions C06_lfu_counts.
Print Assumptions C06_rr_removes_one.
