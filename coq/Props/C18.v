(* C18  Introspection coherence: key(), lookup() and __cache__() agree with calls. *)
From Klepto Require Import OMap CacheDict CacheCore CoreInv CoreStep CoreSize CoreExn.

(* key()/lookup()/info()/archived() never change anything: contents, eviction order, statistics *)
Theorem C18_queries_change_nothing : forall c s o, is_query o = true -> fst (step c s o) = s.
Proof. exact query_is_identity. Qed.

(* lookup(args) = the value resident under key(args), KeyError when none is resident *)
Theorem C18_lookup : forall c s k,
  snd (step c s (Lookup (KOk k))) = match get (smem s) k with Some v => OVal v | None => ORaise EKeyError 0 end.
Proof. exact lookup_spec. Qed.

Theorem C18_key : forall c s k, step c s (KeyOf (KOk k)) = (s, OKey k).
Proof. exact keyof_spec. Qed.

(* erasing every introspection call from any history changes nothing *)
Theorem C18_erasable : forall c ops s, run c s (filter (fun o => negb (is_query o)) ops) = run c s ops.
Proof. exact queries_erasable. Qed.

(* after a call returned v, the entry resident under its key (if any) holds exactly v *)
Theorem C18_call_then_lookup : forall c s k fr orc v ev w, c_alg c <> NO ->
  snd (call c s (KOk k) fr orc) = ORet v ev ->
  get (smem (fst (call c s (KOk k) fr orc))) k = Some w -> w = v.
Proof. exact call_then_lookup. Qed.

Example C18_witness :
  let c := mkCfg LFU 3 false false false in
  let s := run c (init_state (mkC [] ANull ANull)) [Call (KOk 1) (Ret 11) 0; Call (KOk 2) (Ret 12) 0] in
  snd (step c s (Lookup (KOk 2))) = OVal 12 /\ snd (step c s (Lookup (KOk 5))) = ORaise EKeyError 0.
Proof. cbv zeta. split; vm_compute; reflexivity. Qed.

Print Assumptions C18_queries_change_nothing.
Print Assumptions C18_lookup.
Print Assumptions C18_key.
Print Assumptions C18_erasable.
Print Assumptions C18_call_then_lookup.
