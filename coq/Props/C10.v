(* C10  Key discrimination: different calls never share a key; typed keys separate types. *)
From Klepto Require Import PyVal KFacts Keys KeygenFacts KeyProps.

(* equal key material => all non-ignored arguments equal (the contrapositive of "calls that bind
   unequal values to a non-ignored parameter get different keys") *)
Theorem C10_material_discriminates : forall sig ignored b1 b2 c1 c2, wf_sig sig -> wf_call c1 -> wf_call c2 ->
  bind sig c1 = Some b1 -> bind sig c2 = Some b2 ->
  spec_args sig ignored b1 = spec_args sig ignored b2 ->
  (forall n, spec_map sig ignored b1 n = spec_map sig ignored b2 n) ->
  (forall n, in_sig sig n = true -> selected sig ignored n = false -> kget (b_named b1) n = kget (b_named b2) n) /\
  (ig_starstar ignored = false -> forall n, in_sig sig n = false -> str_in n (ig_names1 ignored) = false ->
     kget (b_extra_kw b1) n = kget (b_extra_kw b2) n) /\
  (ig_star ignored = false -> length (b_extra_pos b1) = length (b_extra_pos b2) /\
     forall j, nat_in (length (sig_explicit sig) + j) (ign_idx ignored) = false ->
               nth_error (b_extra_pos b1) j = nth_error (b_extra_pos b2) j).
Proof. exact spec_discriminates. Qed.

(* non-flat keymaps (typed or not): equal keys => equal key material *)
Theorem C10_nonflat : forall sig ignored k order1 order2 c1 c2 b1 b2, k_flat k = false ->
  wf_sig sig -> wf_call c1 -> wf_call c2 -> order_ok sig ignored order1 -> order_ok sig ignored order2 ->
  bind sig c1 = Some b1 -> bind sig c2 = Some b2 ->
  keymap_raw k (fst (keygen_ord sig ignored order1 c1)) (snd (keygen_ord sig ignored order1 c1)) =
  keymap_raw k (fst (keygen_ord sig ignored order2 c2)) (snd (keygen_ord sig ignored order2 c2)) ->
  spec_args sig ignored b1 = spec_args sig ignored b2 /\ forall n, spec_map sig ignored b1 n = spec_map sig ignored b2 n.
Proof. exact key_discriminates_nonflat. Qed.

(* flat keymaps when the signature has no variadic positionals *)
Theorem C10_flat_no_varargs : forall sig ignored k order1 order2 c1 c2 b1 b2,
  k_flat k = true -> k_typed k = false -> s_varargs sig = false ->
  wf_sig sig -> wf_call c1 -> wf_call c2 -> order_ok sig ignored order1 -> order_ok sig ignored order2 ->
  bind sig c1 = Some b1 -> bind sig c2 = Some b2 ->
  keymap_raw k (fst (keygen_ord sig ignored order1 c1)) (snd (keygen_ord sig ignored order1 c1)) =
  keymap_raw k (fst (keygen_ord sig ignored order2 c2)) (snd (keygen_ord sig ignored order2 c2)) ->
  spec_args sig ignored b1 = spec_args sig ignored b2 /\ forall n, spec_map sig ignored b1 n = spec_map sig ignored b2 n.
Proof. exact key_discriminates_flat_no_varargs. Qed.

(* flat keymaps with a sentinel configured *)
Theorem C10_flat_sentinel : forall sig ignored k order1 order2 c1 c2 b1 b2,
  k_flat k = true -> k_typed k = false -> k_mark k = true ->
  wf_sig sig -> wf_call c1 -> wf_call c2 -> order_ok sig ignored order1 -> order_ok sig ignored order2 ->
  bind sig c1 = Some b1 -> bind sig c2 = Some b2 ->
  ~ In VSent (spec_args sig ignored b1) -> ~ In VSent (spec_args sig ignored b2) ->
  keymap_raw k (fst (keygen_ord sig ignored order1 c1)) (snd (keygen_ord sig ignored order1 c1)) =
  keymap_raw k (fst (keygen_ord sig ignored order2 c2)) (snd (keygen_ord sig ignored order2 c2)) ->
  spec_args sig ignored b1 = spec_args sig ignored b2 /\ forall n, spec_map sig ignored b1 n = spec_map sig ignored b2 n.
Proof. exact key_discriminates_flat_sentinel. Qed.

(* typed=True: the types of the arguments are part of the key, so equal values of different type
   (1, 1.0, True) are separated *)
Theorem C10_typed_separates : forall a1 a2, types_of a1 <> types_of a2 -> forall k m1 m2,
  k_typed k = true -> k_flat k = false -> keymap_raw k a1 m1 <> keymap_raw k a2 m2.
Proof. exact typed_separates_types. Qed.

(* The guard in the statement is necessary, not a defect: without a sentinel a flat key cannot tell
   f('y', 1) from f(y=1) for def f( *a, **k ); with the sentinel it can; and untyped keys treat
   1, 1.0 and True alike while typed keys do not. *)
Definition sgv := mkSig [] true [] true.
Example C10_guard_is_necessary :
  key_of sgv [] (mkK false true false) ([VStr [121]; VInt 1], []) = key_of sgv [] (mkK false true false) ([], [([121], VInt 1)]) /\
  key_of sgv [] (mkK false true true) ([VStr [121]; VInt 1], []) <> key_of sgv [] (mkK false true true) ([], [([121], VInt 1)]) /\
  py_eqb (key_of sgv [] (mkK false true true) ([VInt 1; VInt 2], [])) (key_of sgv [] (mkK false true true) ([VFlt 4; VInt 2], [])) = true /\
  py_eqb (key_of sgv [] (mkK true true true) ([VInt 1; VInt 2], [])) (key_of sgv [] (mkK true true true) ([VFlt 4; VInt 2], [])) = false /\
  py_eqb (key_of sgv [] (mkK true true true) ([VInt 1; VInt 2], [])) (key_of sgv [] (mkK true true true) ([VBool true; VInt 2], [])) = false.
Proof. repeat split; vm_compute; congruence. Qed.

Print Assumptions C10_material_discriminates.
Print Assumptions C10_nonflat.
Print Assumptions C10_flat_no_varargs.
Print Assumptions C10_flat_sentinel.
Print Assumptions C10_typed_separates.
