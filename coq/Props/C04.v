(* C04  Persistence: a fresh handle or process sees exactly what was written.
   Only statements, each closed by a lemma of Store/*.v, with Print Assumptions. *)
From Klepto Require Import OMap OMapFacts DictSpec DictFacts FileArch Backends CacheDict CacheDictFacts SyncLaws Persist.
From Klepto Require Import CacheCore CoreInv CoreStep CoreStore.

(* handles hold no contents: after any history through any handles on a location, a fresh handle on
   that location answers every operation as the dict that underwent the history *)
Theorem C04_fresh_handle_sees_history : forall S l n h2 o,
  Forall (fun ho => loc (fst ho) = n) l -> loc h2 = n ->
  snd (hstep (hrun S l) h2 o) = snd (dstep (drun (S n) (map snd l)) o).
Proof. exact fresh_handle_sees_history. Qed.

(* the file model: every later operation (by whoever opens the file) sees the history *)
Theorem C04_file_later_op_sees_history : forall fs ops o,
  snd (file_step (file_run fs ops) o) = snd (dstep (drun (asdict fs) ops) o).
Proof. exact file_later_op_sees_history. Qed.

(* the SQL-table model: the rows hold the dict's contents after any history *)
Theorem C04_sql_rows_hold_history : forall ops r m, wf m -> same_contents (sql_abs r) m ->
  same_contents (sql_abs (sql_run r ops)) (drun m ops).
Proof. exact sql_run_refines_dict. Qed.

(* a cache in front of an archive: after dump(), a fresh cache on that archive load()s every entry *)
Theorem C04_dump_then_fresh_load : forall c, wf_c c -> is_null (arch c) = false ->
  let a := arch (fst (cstep c (CDump []))) in
  let fresh := mkC [] a ANull in
  forall k v, get (mem c) k = Some v -> get (mem (fst (cstep fresh (CLoad [])))) k = Some v.
Proof. exact dump_then_fresh_load. Qed.

(* a decorated function re-created on an archive (ANY well-formed state whose attached archive holds the
   key - in particular a fresh one with empty memory, any of the twelve decorators) is served from it:
   no history of calls / load / dump / introspection ever evaluates that key again *)
Theorem C04_recreated_function_is_served : forall c ops s k,
  forallb traffic ops = true -> Good c s -> has c s k -> evals c s ops k = 0.
Proof. exact held_never_evaluated. Qed.

Example C04_two_handles :
  snd (hstep (hrun (fun _ => []) [(mkH 1 0, DSet 5 50); (mkH 1 7, DSet 6 60); (mkH 1 0, DDel 5)]) (mkH 1 9) (DGet 6)) = RVal (Some 60).
Proof. reflexivity. Qed.

Print Assumptions C04_fresh_handle_sees_history.
Print Assumptions C04_file_later_op_sees_history.
Print Assumptions C04_sql_rows_hold_history.
Print Assumptions C04_dump_then_fresh_load.
Print Assumptions C04_recreated_function_is_served.
