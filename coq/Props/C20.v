(* C20  A pickled cached function resumes exactly where the original was (partial).
   In the model the whole run-time state of a decorated function is the tuple
   (configuration, memory, archive, parked archive, queue, refcounts, use counts, statistics):
   [step] is a function of it and of nothing else.  What is proved here is therefore small; what
   C20 needs beyond it - that dill's copy of the closure has the same abstraction as the
   original - is established by the correspondence check (harness/check_c20.py), not by a theorem. *)
From Klepto Require Import OMap CacheDict CacheCore CoreInv CoreStep CoreSize CoreExn.

Fixpoint outs (c : cfg) (s : state) (ops : list op) : list out :=
  match ops with
  | [] => []
  | o :: r => snd (step c s o) :: outs c (fst (step c s o)) r
  end.

(* a copy whose abstraction equals the original's returns the same results, evicts the same
   entries and reports the same statistics along every continuation *)
Theorem C20_equal_states_bisimilar : forall c s1 s2 ops, s1 = s2 ->
  outs c s1 ops = outs c s2 ops /\ run c s1 ops = run c s2 ops.
Proof. intros c s1 s2 ops ->. split; reflexivity. Qed.

(* the continuation after a prefix depends on the prefix only through the state it produced *)
Theorem C20_resume : forall c s pre post,
  run c s (pre ++ post) = run c (run c s pre) post /\
  outs c s (pre ++ post) = outs c s pre ++ outs c (run c s pre) post.
Proof.
  intros c s pre post. split.
  - unfold run. apply fold_left_app.
  - revert s. induction pre as [|o r IH]; intros s; cbn [app outs]; [reflexivity|].
    f_equal. unfold run. cbn [fold_left]. apply IH.
Qed.

(* statistics, contents and configuration are part of the state a copy must reproduce *)
Theorem C20_state_components : forall s1 s2,
  cs s1 = cs s2 -> queue s1 = queue s2 -> refc s1 = refc s2 -> usec s1 = usec s2 ->
  stats s1 = stats s2 -> s1 = s2.
Proof.
  intros [c1 q1 r1 u1 h1 m1 l1] [c2 q2 r2 u2 h2 m2 l2]. unfold stats. cbn.
  intros -> -> -> -> E. inversion E. reflexivity.
Qed.

Print Assumptions C20_equal_states_bisimilar.
Print Assumptions C20_resume.
Print Assumptions C20_state_components.
