(* C13  Crash atomicity of archive writes.
   Only statements, each closed by a lemma of Store/*.v, with Print Assumptions. *)
From Klepto Require Import OMap OMapFacts DictSpec DictFacts FileArch Backends DirProto DirBatch DirFresh SqlCrash.

(* single file: write the staging file, then replace the target.  Whatever prefix of the actions was
   executed - the write of the staging file possibly cut short - a new process reads the old or the
   new dictionary *)
Theorem C13_file_save_crash_atomic : forall fs m st, In st (crash_states fs (save m)) ->
  asdict st = asdict fs \/ asdict st = m.
Proof. exact file_crash_atomic. Qed.

(* ... for every operation of the mapping protocol *)
Theorem C13_file_op_crash_atomic : forall fs o st,
  In st (if writes o (snd (dstep (asdict fs) o)) then crash_states fs (save (fst (dstep (asdict fs) o))) else [fs]) ->
  asdict st = asdict fs \/ asdict st = fst (dstep (asdict fs) o).
Proof. exact file_op_crash_atomic. Qed.

(* the remove-then-rename protocol is NOT crash atomic (what the model can tell apart) *)
Theorem C13_file_remove_then_rename_refuted :
  exists fs m st, In st (crash_states fs (save_old m)) /\ asdict st <> asdict fs /\ asdict st <> m.
Proof. exact file_old_protocol_refuted. Qed.

(* SQL table: one committed statement per item; a crash leaves a prefix of the statements, so every
   key reads its previous value or one of the values being written *)
Theorem C13_sql_update_crash_prefix : forall r m2 n k,
  let r' := r ++ firstn n m2 in
  sql_select r' k = sql_select r k \/ (exists v, In (k, v) m2 /\ sql_select r' k = Some v).
Proof. exact sql_update_crash_prefix. Qed.

(* ... for every operation of the mapping protocol: the operation IS the run of its statements, and
   after any committed prefix every key reads its previous value, a value the operation writes for
   it, or - if the operation deletes it - nothing; keys the operation does not name are unchanged *)
Theorem C13_sql_step_is_its_statements : forall r o, fst (sql_step r o) = srun r (sql_stmts r o).
Proof. exact sql_step_is_stmts. Qed.

Theorem C13_sql_op_crash_prefix : forall r o n k,
  let r' := srun r (firstn n (sql_stmts r o)) in
  sql_select r' k = sql_select r k \/
  (exists v, In (SIns k v) (sql_stmts r o) /\ sql_select r' k = Some v) \/
  (In (SDel k) (sql_stmts r o) /\ sql_select r' k = None).
Proof. exact sql_op_crash_prefix. Qed.

Theorem C13_sql_untouched_key_unchanged : forall r o n k,
  (forall s, In s (sql_stmts r o) -> stmt_key s <> k) ->
  sql_select (srun r (firstn n (sql_stmts r o))) k = sql_select r k.
Proof. exact sql_untouched_key_unchanged. Qed.

(* opening an archive rewrites the file with what it read: harmless for a crash *)
Theorem C13_file_open_crash_atomic : forall fs st, In st (crash_states fs (save (asdict fs))) -> asdict st = asdict fs.
Proof. exact file_open_crash_atomic. Qed.

(* directory: populate a temporary directory, move the old entry aside, move the new one in.
   After ANY prefix of these actions the archive is readable, every other entry is unchanged, and the
   entry reads its previous contents, the new ones - or, for an OVERWRITE, nothing (see below) *)
Theorem C13_dir_store_crash : forall fs n k v t t2 i, t <> t2 -> readable fs ->
  let st := DirProto.drun fs (firstn i (store n k v t t2)) in
  readable st /\ (forall n', n' <> n -> entry st n' = entry fs n') /\
  (entry st n = entry fs n \/ entry st n = Some (Complete k v) \/ entry st n = None).
Proof. exact store_crash. Qed.

(* a key that was not stored before: atomic *)
Theorem C13_dir_store_new_key_crash_atomic : forall fs n k v t t2 i, t <> t2 -> readable fs -> entry fs n = None ->
  let st := DirProto.drun fs (firstn i (store n k v t t2)) in
  readable st /\ (forall n', n' <> n -> entry st n' = entry fs n') /\
  (entry st n = entry fs n \/ entry st n = Some (Complete k v)).
Proof. exact store_new_key_crash_atomic. Qed.

(* deleting (del, pop, each entry of clear): atomic *)
Theorem C13_dir_remove_crash_atomic : forall fs n t i, readable fs ->
  let st := DirProto.drun fs (firstn i (remove n t)) in
  readable st /\ (forall n', n' <> n -> entry st n' = entry fs n') /\ (entry st n = entry fs n \/ entry st n = None).
Proof. exact remove_crash_atomic. Qed.

Theorem C13_dir_store_completes : forall fs n k v t t2, t <> t2 -> fs (NTemp t2) = None ->
  entry (DirProto.drun fs (store n k v t t2)) n = Some (Complete k v) /\
  forall n', n' <> n -> entry (DirProto.drun fs (store n k v t t2)) n' = entry fs n'.
Proof. exact store_completes. Qed.

(* operations that store several keys (update, dump from a cache, a seeded constructor) are a sequence
   of single stores: after ANY prefix of the whole action sequence the archive is readable, keys that
   are not being stored are unchanged, each key being stored reads old / new / (overwrite) nothing *)
Theorem C13_dir_batch_crash : forall js fs i,
  NoDup (map j_name js) -> NoDup (flat_map job_temps js) ->
  (forall x, In x (flat_map job_temps js) -> fs (NTemp x) = None) -> readable fs ->
  let st := DirProto.drun fs (firstn i (batch js)) in
  readable st /\
  (forall n', ~ In n' (map j_name js) -> entry st n' = entry fs n') /\
  (forall j, In j js -> outcome fs st j).
Proof. exact batch_crash. Qed.

(* _rmdir as coded: rename aside, or - when the rename fails - remove in place.  With a FRESH temporary
   name the removal is crash atomic; with a name that is already taken it is not (why the check also
   verifies that the temporary names in the recorded system calls are fresh random names) *)
Theorem C13_dir_rmdir_fresh_name_atomic : forall fs n t i, fs (NTemp t) = None -> readable fs ->
  let st := DirProto.drun fs (firstn i (rmdir_code fs n t)) in
  readable st /\ (forall n', n' <> n -> entry st n' = entry fs n') /\ (entry st n = entry fs n \/ entry st n = None).
Proof. exact rmdir_code_fresh_atomic. Qed.

Theorem C13_dir_rmdir_reused_name_refuted :
  exists fs n t i, readable fs /\ fs (NTemp t) <> None /\ ~ readable (DirProto.drun fs (firstn i (rmdir_code fs n t))).
Proof. exact rmdir_code_reused_name_refuted. Qed.

(* refuted for an overwrite: between the two renames the key is absent (known finding K2) *)
Theorem C13_dir_overwrite_window_refuted :
  exists fs n k v t t2 i, t <> t2 /\ readable fs /\
    let st := DirProto.drun fs (firstn i (store n k v t t2)) in
    entry st n <> entry fs n /\ entry st n <> Some (Complete k v).
Proof. exact store_overwrite_window_refuted. Qed.

(* the file-by-file removal used before the repair leaves an unreadable archive *)
Theorem C13_dir_remove_file_by_file_refuted :
  exists fs n i, readable fs /\ ~ readable (DirProto.drun fs (firstn i (remove_old n))).
Proof. exact remove_old_refuted. Qed.

Example C13_crash_states_nontrivial :
  length (crash_states (mkF (Some (FGood [(1, 10)])) []) (save [(1, 11)])) = 4%nat.
Proof. reflexivity. Qed.

Print Assumptions C13_file_save_crash_atomic.
Print Assumptions C13_file_op_crash_atomic.
Print Assumptions C13_file_remove_then_rename_refuted.
Print Assumptions C13_sql_update_crash_prefix.
Print Assumptions C13_file_open_crash_atomic.
Print Assumptions C13_dir_store_crash.
Print Assumptions C13_dir_store_new_key_crash_atomic.
Print Assumptions C13_dir_remove_crash_atomic.
Print Assumptions C13_dir_store_completes.
Print Assumptions C13_dir_overwrite_window_refuted.
Print Assumptions C13_dir_remove_file_by_file_refuted.
Print Assumptions C13_sql_step_is_its_statements.
Print Assumptions C13_sql_op_crash_prefix.
Print Assumptions C13_sql_untouched_key_unchanged.
Print Assumptions C13_dir_batch_crash.
Print Assumptions C13_dir_rmdir_fresh_name_atomic.
Print Assumptions C13_dir_rmdir_reused_name_refuted.
