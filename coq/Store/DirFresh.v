(* M7 (directory, protocol level): dir_archive._rmdir as the code has it - move the entry aside under a
   temporary name and remove that; when the rename fails (no such entry, or the temporary name is taken)
   fall back to removing the entry directory in place.  Why temporary names must be FRESH. *)
From Klepto Require Import OMap DirProto.
From Coq Require Import Lia.

Definition rename_ok (fs : dfs) (n : key) (t : Z) : bool :=
  match fs (NEntry n), fs (NTemp t) with
  | Some _, None => true
  | _, _ => false
  end.

Definition rmdir_code (fs : dfs) (n : key) (t : Z) : list daction :=
  if rename_ok fs n t then remove n t else remove_old n.

(* with a fresh temporary name the removal is crash atomic, whether or not the entry exists *)
Theorem rmdir_code_fresh_atomic fs n t i : fs (NTemp t) = None -> readable fs ->
  let st := drun fs (firstn i (rmdir_code fs n t)) in
  readable st /\ (forall n', n' <> n -> entry st n' = entry fs n') /\ (entry st n = entry fs n \/ entry st n = None).
Proof.
  intros Ht Hr. cbv zeta. unfold rmdir_code, rename_ok. rewrite Ht.
  destruct (fs (NEntry n)) as [c|] eqn:En.
  - apply remove_crash_atomic. exact Hr.
  - (* nothing to remove: the fall-back touches nothing *)
    assert (G : forall j, forall m, drun fs (firstn j (remove_old n)) m = fs m).
    { intros j m. unfold remove_old. destruct j as [|[|j]]; cbn [firstn drun fold_left dapply]; rewrite ?En; try reflexivity.
      - assert (E : firstn j (@nil daction) = []) by now destruct j. rewrite E. cbn [fold_left].
        unfold dput. destruct (dname_eqb m (NEntry n)) eqn:E2; [apply dname_eqb_eq in E2; subst; now rewrite En|reflexivity]. }
    split; [|split].
    + intros m. unfold entry. rewrite G. apply Hr.
    + intros n' _. unfold entry. now rewrite G.
    + left. unfold entry. now rewrite G.
Qed.

(* ... and with a name that is already taken (a leftover of an earlier interrupted removal under a
   name derived from the key) the fall-back removes the live entry file by file: a crash in the middle
   leaves a listed entry that cannot be read *)
Theorem rmdir_code_reused_name_refuted :
  exists fs n t i, readable fs /\ fs (NTemp t) <> None /\ ~ readable (drun fs (firstn i (rmdir_code fs n t))).
Proof.
  exists (dput (dput (fun _ => None) (NEntry 1) (Some (Complete 1 10))) (NTemp 7) (Some Partial)), 1, 7, 1%nat.
  split; [|split].
  - intros m. unfold entry, dput. cbn. destruct (Z.eqb m 1); discriminate.
  - cbn. discriminate.
  - intros H. apply (H 1). reflexivity.
Qed.
