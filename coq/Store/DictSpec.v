(* M1 as a specification: the mapping protocol of a Python dict over the insertion-ordered map OMap.
   Every archive type must behave as [dstep] (property C03).  Models only. *)
From Klepto Require Export OMap.

Inductive dop :=
| DSet (k : key) (v : val)
| DGet (k : key)
| DDel (k : key)
| DContains (k : key)
| DLen
| DItems                                   (* keys / values / items / iteration: a snapshot *)
| DGetD (k : key) (d : option val)         (* get(k[, d]) *)
| DPop (k : key) (d : option (option val)) (* pop(k) | pop(k, d)  (d itself may be None) *)
| DPopitem (pick : key)                    (* popitem(): [pick] is the key the implementation chose *)
| DPopkeys (ks : list key) (d : option (option val))
| DSetdefault (k : key) (v : option val)   (* setdefault(k[, v]) *)
| DUpdate (m : omap)
| DClear.

Inductive dout :=
| RUnit
| RVal (v : option val)                    (* a value or Python's None *)
| RBool (b : bool)
| RLen (n : Z)
| RItems (m : omap)
| RVals (l : list (option val))
| RPair (k : key) (v : val)
| RKeyError.

(* None is a legitimate stored value in Python; in this value universe (val = Z) the harness codes
   it as an integer, so stored values are plain [val] and "option" only models absent defaults *)
Definition some_or (d : option val) (o : option val) : option val := match o with Some v => Some v | None => d end.

(* pop a list of keys one after the other; None = some key was missing and there is no default *)
Fixpoint popkeys_go (m : omap) (ks : list key) (d : option (option val)) (acc : list (option val))
  : option (omap * list (option val)) :=
  match ks with
  | [] => Some (m, rev acc)
  | k :: r =>
      match get m k with
      | Some v => popkeys_go (del m k) r d (Some v :: acc)
      | None => match d with
                | Some dv => popkeys_go m r d (dv :: acc)
                | None => None
                end
      end
  end.

Definition dstep (m : omap) (o : dop) : omap * dout :=
  match o with
  | DSet k v => (set m k v, RUnit)
  | DGet k => match get m k with Some v => (m, RVal (Some v)) | None => (m, RKeyError) end
  | DDel k => match get m k with Some _ => (del m k, RUnit) | None => (m, RKeyError) end
  | DContains k => (m, RBool (mem_key m k))
  | DLen => (m, RLen (size m))
  | DItems => (m, RItems m)
  | DGetD k d => (m, RVal (some_or d (get m k)))
  | DPop k d => match get m k with
                | Some v => (del m k, RVal (Some v))
                | None => match d with Some dv => (m, RVal dv) | None => (m, RKeyError) end
                end
  | DPopitem pick => match get m pick with
                     | Some v => (del m pick, RPair pick v)
                     | None => (m, RKeyError)       (* only legal on an empty dict *)
                     end
  | DPopkeys ks d => match popkeys_go m ks d [] with
                     | Some (m', vs) => (m', RVals vs)
                     | None => (m, RKeyError)
                     end
  | DSetdefault k v => match get m k with
                       | Some w => (m, RVal (Some w))
                       | None => match v with
                                 | Some w => (set m k w, RVal (Some w))
                                 | None => (m, RVal None)   (* stores Python's None: see DictSpec note below *)
                                 end
                       end
  | DUpdate m2 => (update m m2, RUnit)
  | DClear => ([], RUnit)
  end.

(* Note on setdefault(k) without a value: Python stores None under k.  The harness never issues it
   with a missing key on backends where None cannot be coded as a val; it is exercised with explicit
   values (which may be the integer code of None). *)

Definition drun (m : omap) (ops : list dop) : omap := fold_left (fun m o => fst (dstep m o)) ops m.

(* two maps with the same contents (iteration order is not part of the archive contract) *)
Definition same_contents (m1 m2 : omap) : Prop := forall k, get m1 k = get m2 k.
