(* M7 (directory, protocol level): operations that store several keys (update, dump from a cache, the
   constructor seeded with a dict) are a sequence of single stores.  A crash leaves a prefix of the
   whole action sequence. *)
From Klepto Require Import OMap DirProto.
From Coq Require Import Lia.

Record job := mkJ { j_name : key; j_key : key; j_val : val; j_tmp : Z; j_aside : Z }.
Definition job_actions (j : job) : list daction := store (j_name j) (j_key j) (j_val j) (j_tmp j) (j_aside j).
Definition batch (js : list job) : list daction := flat_map job_actions js.
Definition job_temps (j : job) : list Z := [j_tmp j; j_aside j].

Lemma drun_app fs l1 l2 : drun (drun fs l1) l2 = drun fs (l1 ++ l2).
Proof. unfold drun. now rewrite fold_left_app. Qed.

Lemma drun_frame (S : dname -> Prop) l : forall fs,
  (forall a, In a l -> forall m, In m (touches a) -> ~ S m) -> agree_on S (drun fs l) fs.
Proof.
  induction l as [|a l IH]; intros fs H; [intros m _; reflexivity|].
  intros m Hm. change (drun (dapply fs a) l m = fs m).
  rewrite (IH (dapply fs a) (fun b Hb => H b (or_intror Hb)) m Hm).
  apply (dapply_frame S a fs (H a (or_introl eq_refl)) m Hm).
Qed.

Lemma store_touches n k v t u a m : In a (store n k v t u) -> In m (touches a) ->
  m = NEntry n \/ m = NTemp t \/ m = NTemp u.
Proof.
  unfold store. cbn. intros Ha Hm.
  repeat (destruct Ha as [<-|Ha]; [cbn in Hm; intuition|]). destruct Ha.
Qed.

Lemma firstn_all2 {A} (l : list A) n : (length l <= n)%nat -> firstn n l = l.
Proof. revert n. induction l as [|x l IH]; intros [|n] H; cbn in *; try reflexivity; try lia. f_equal. apply IH. lia. Qed.

Definition outcome (fs st : dfs) (j : job) : Prop :=
  entry st (j_name j) = entry fs (j_name j) \/ entry st (j_name j) = Some (Complete (j_key j) (j_val j)) \/
  entry st (j_name j) = None.

(* after ANY prefix of the actions of a multi-key store the archive is readable, every key that is not
   being stored is unchanged, and every key being stored reads its previous contents, the new ones or
   (K2: only when it is an overwrite in progress) nothing *)
Theorem batch_crash js : forall fs i,
  NoDup (map j_name js) -> NoDup (flat_map job_temps js) ->
  (forall x, In x (flat_map job_temps js) -> fs (NTemp x) = None) -> readable fs ->
  let st := drun fs (firstn i (batch js)) in
  readable st /\
  (forall n', ~ In n' (map j_name js) -> entry st n' = entry fs n') /\
  (forall j, In j js -> outcome fs st j).
Proof.
  induction js as [|j js IH]; intros fs i Hn Ht Hf Hr; cbv zeta.
  - cbn [batch flat_map]. rewrite firstn_nil. cbn. split; [exact Hr|]. split; [reflexivity|intros j []].
  - cbn [batch flat_map map] in *. fold (batch js).
    inversion Hn as [|x r Hx Hnr]; subst.
    assert (Htu : j_tmp j <> j_aside j).
    { cbn [job_temps app] in Ht. inversion Ht as [|y r2 Hy _]; subst. intros E. apply Hy. rewrite E. now left. }
    assert (Ht' : NoDup (flat_map job_temps js)).
    { cbn [job_temps app] in Ht. inversion Ht as [|y r2 _ H2]; subst. now inversion H2. }
    assert (Hdisj : forall x, In x (flat_map job_temps js) -> x <> j_tmp j /\ x <> j_aside j).
    { intros x Hin. cbn [job_temps app] in Ht. inversion Ht as [|y r2 Hy H2]; subst. inversion H2 as [|y2 r3 Hy2 _]; subst.
      split; intros ->; [apply Hy; now right|apply Hy2; exact Hin]. }
    destruct (Nat.le_gt_cases i (length (job_actions j))) as [Hle|Hgt].
    + (* the crash is inside the first store *)
      rewrite firstn_app. assert (E0 : (i - length (job_actions j) = 0)%nat) by lia. rewrite E0. cbn [firstn]. rewrite app_nil_r.
      destruct (store_crash fs (j_name j) (j_key j) (j_val j) (j_tmp j) (j_aside j) i Htu Hr) as (R & O & C).
      split; [exact R|]. split.
      * intros n' Hnot. apply O. intros ->. apply Hnot. now left.
      * intros j' [<-|Hin]; [exact C|]. left. apply O. intros E. apply Hx. rewrite <- E. now apply in_map.
    + (* the first store is complete; the crash is in the rest *)
      rewrite firstn_app, (firstn_all2 (job_actions j) i) by lia. rewrite <- drun_app.
      set (fs1 := drun fs (job_actions j)).
      assert (Rfs1 : readable fs1).
      { destruct (store_crash fs (j_name j) (j_key j) (j_val j) (j_tmp j) (j_aside j) 5 Htu Hr) as (R & _ & _). exact R. }
      assert (Hc := store_completes fs (j_name j) (j_key j) (j_val j) (j_tmp j) (j_aside j) Htu (Hf _ (or_intror (or_introl eq_refl)))).
      destruct Hc as [Hc1 Hc2]. fold (job_actions j) in Hc1, Hc2. fold fs1 in Hc1, Hc2.
      assert (Hf1 : forall x, In x (flat_map job_temps js) -> fs1 (NTemp x) = None).
      { intros x Hin. destruct (Hdisj x Hin) as [D1 D2].
        assert (F : agree_on (fun m => m = NTemp x) (drun fs (job_actions j)) fs).
        { apply drun_frame. intros a Ha m Hm E. subst m.
          destruct (store_touches _ _ _ _ _ a _ Ha Hm) as [E|[E|E]]; inversion E; congruence. }
        unfold fs1. rewrite (F (NTemp x) eq_refl). apply Hf. cbn [job_temps app]. right. right. exact Hin. }
      destruct (IH fs1 (i - length (job_actions j))%nat Hnr Ht' Hf1 Rfs1) as (R & O & C).
      split; [exact R|]. split.
      * intros n' Hnot. rewrite O by (intros Hin; apply Hnot; now right). apply Hc2. intros ->. apply Hnot. now left.
      * intros j' [<-|Hin].
        -- right. left. rewrite O by exact Hx. exact Hc1.
        -- destruct (C j' Hin) as [E|[E|E]]; [left|right; left; exact E|right; right; exact E].
           rewrite E. apply Hc2. intros E2. apply Hx. rewrite <- E2. now apply in_map.
Qed.
