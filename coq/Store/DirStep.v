(* M7 (directory): the whole mapping protocol of dir_archive on top of the primitives of Backends.v
   (_lookup / _store / _rmdir / __asdict__), and its refinement of the dict specification on every key
   universe where the directory naming is injective. *)
From Klepto Require Import OMap OMapFacts DictSpec DictFacts Backends.
From Coq Require Import Lia.

Section DirStep.
Variable fname : key -> key.
Variable D : key -> Prop.
Hypothesis fname_inj : forall a b, D a -> D b -> fname a = fname b -> a = b.

Notation lookup := (dir_lookup fname).
Notation store := (dir_store fname).
Notation rmdir := (dir_rmdir fname).
Notation inv := (dir_inv fname D).

Definition dir_step (st : dstate) (o : dop) : dstate * dout :=
  match o with
  | DSet k v => (store st k v, RUnit)
  | DGet k => match lookup st k with Some v => (st, RVal (Some v)) | None => (st, RKeyError) end
  | DDel k => match lookup st k with Some _ => (rmdir st k, RUnit) | None => (st, RKeyError) end
  | DContains k => (st, RBool (match lookup st k with Some _ => true | None => false end))
  | DLen => (st, RLen (Z.of_nat (length st)))                 (* the number of entry directories *)
  | DItems => (st, RItems (dir_asdict fname st))
  | DGetD k d => (st, RVal (some_or d (lookup st k)))
  | DPop k d => match lookup st k with
                | Some v => (rmdir st k, RVal (Some v))
                | None => match d with Some dv => (st, RVal dv) | None => (st, RKeyError) end
                end
  | DPopitem pick => match lookup st pick with
                     | Some v => (rmdir st pick, RPair pick v)
                     | None => (st, RKeyError)
                     end
  | DPopkeys ks d => match popkeys_go (dir_abs st) ks d [] with
                     | Some (_, vs) => (fold_left rmdir ks st, RVals vs)
                     | None => (st, RKeyError)
                     end
  | DSetdefault k v => match lookup st k with
                       | Some w => (store st k w, RVal (Some w))      (* the value found is stored again *)
                       | None => match v with Some w => (store st k w, RVal (Some w)) | None => (st, RVal None) end
                       end
  | DUpdate m2 => (fold_left (fun s kv => store s (fst kv) (snd kv)) m2 st, RUnit)
  | DClear => ([], RUnit)
  end.

Definition dir_run (st : dstate) (ops : list dop) : dstate := fold_left (fun s o => fst (dir_step s o)) ops st.

(* the keys an operation names *)
Definition op_keys (o : dop) : list key :=
  match o with
  | DSet k _ | DGet k | DDel k | DContains k | DGetD k _ | DPop k _ | DPopitem k | DSetdefault k _ => [k]
  | DPopkeys ks _ => ks
  | DUpdate m2 => keys m2
  | DLen | DItems | DClear => []
  end.
Definition op_in (o : dop) : Prop := forall k, In k (op_keys o) -> D k.

(* ---------------------------------------------------------------- helpers *)
Lemma abs_keys_in st : inv st -> forall k, In k (keys (dir_abs st)) -> D k.
Proof.
  intros [_ Hall] k Hin. unfold dir_abs in Hin. apply in_keys_update in Hin. destruct Hin as [[]|Hin].
  unfold keys in Hin. rewrite map_map in Hin. apply in_map_iff in Hin. destruct Hin as (e & <- & He). cbn. now apply Hall.
Qed.

Lemma agree_to_same a b :
  (forall k, In k (keys a) -> D k) -> (forall k, In k (keys b) -> D k) -> (forall k, D k -> get a k = get b k) ->
  same_contents a b.
Proof.
  intros Ha Hb H k. destruct (get a k) as [v|] eqn:Ea.
  - rewrite <- (H k); [symmetry; exact Ea|]. apply Ha. eapply get_in_keys; eauto.
  - destruct (get b k) as [w|] eqn:Eb; [|reflexivity].
    rewrite <- (H k) in Eb; [congruence|]. apply Hb. eapply get_in_keys; eauto.
Qed.

Lemma inv_nil : inv [].
Proof. split; [constructor|intros e []]. Qed.

Lemma lookup_abs st k : inv st -> D k -> lookup st k = get (dir_abs st) k.
Proof. intros. now apply (dir_lookup_refines fname D fname_inj). Qed.

Lemma store_same st k v : inv st -> D k -> inv (store st k v) /\ same_contents (dir_abs (store st k v)) (set (dir_abs st) k v).
Proof.
  intros Hi Hk. assert (Hi' : inv (store st k v)) by now apply dir_store_inv.
  split; [exact Hi'|]. apply agree_to_same.
  - now apply abs_keys_in.
  - intros k' Hin. apply in_keys_set in Hin. destruct Hin as [->|Hin]; [exact Hk|]. now apply (abs_keys_in st).
  - intros k' Hk'. now apply (dir_store_abs fname D fname_inj).
Qed.

Lemma rmdir_same st k : inv st -> D k -> inv (rmdir st k) /\ same_contents (dir_abs (rmdir st k)) (del (dir_abs st) k).
Proof.
  intros Hi Hk. assert (Hi' : inv (rmdir st k)) by now apply dir_rmdir_inv.
  split; [exact Hi'|]. apply agree_to_same.
  - now apply abs_keys_in.
  - intros k' Hin. apply in_keys_del in Hin. destruct Hin as [_ Hin]. now apply (abs_keys_in st).
  - intros k' Hk'. now apply (dir_rmdir_abs fname D fname_inj).
Qed.

Lemma fold_rmdir_same ks : forall st, inv st -> (forall k, In k ks -> D k) ->
  inv (fold_left rmdir ks st) /\ same_contents (dir_abs (fold_left rmdir ks st)) (fold_left del ks (dir_abs st)).
Proof.
  induction ks as [|k ks IH]; intros st Hi Hk; cbn [fold_left]; [split; [exact Hi|apply same_contents_refl]|].
  destruct (rmdir_same st k Hi (Hk k (or_introl eq_refl))) as [Hi' Hs].
  destruct (IH (rmdir st k) Hi' (fun k' H' => Hk k' (or_intror H'))) as [Hi2 Hs2].
  split; [exact Hi2|]. eapply same_contents_trans; [exact Hs2|]. now apply fold_del_same.
Qed.

Lemma fold_store_same m2 : forall st, inv st -> (forall k, In k (keys m2) -> D k) ->
  inv (fold_left (fun s kv => store s (fst kv) (snd kv)) m2 st) /\
  same_contents (dir_abs (fold_left (fun s kv => store s (fst kv) (snd kv)) m2 st)) (update (dir_abs st) m2).
Proof.
  induction m2 as [|[k v] m2 IH]; intros st Hi Hk; cbn [fold_left]; [split; [exact Hi|apply same_contents_refl]|].
  cbn [fst snd]. destruct (store_same st k v Hi (Hk k (or_introl eq_refl))) as [Hi' Hs].
  destruct (IH (store st k v) Hi' (fun k' H' => Hk k' (or_intror H'))) as [Hi2 Hs2].
  split; [exact Hi2|]. eapply same_contents_trans; [exact Hs2|]. rewrite update_cons. cbn [fst snd].
  now apply same_contents_update.
Qed.

Lemma set_same_value m k w : get m k = Some w -> same_contents (set m k w) m.
Proof. intros H k'. rewrite get_set. destruct (Z.eqb k' k) eqn:E; [apply Z.eqb_eq in E; subst; now rewrite H|reflexivity]. Qed.

(* distinct entries have distinct keys, so there are as many entries as keys *)
Lemma abs_length st : inv st -> length (dir_abs st) = length st.
Proof.
  intros [Hnd Hall]. unfold dir_abs.
  assert (G : forall l m, NoDup (keys m ++ map e_key l) ->
            length (update m (map (fun e => (e_key e, e_val e)) l)) = (length m + length l)%nat).
  { induction l as [|e l IH]; intros m Hn; cbn [map]; [rewrite update_nil; cbn; lia|].
    rewrite update_cons. cbn [fst snd map] in *.
    assert (Hnot : ~ In (e_key e) (keys m)).
    { intros Hin. apply NoDup_remove_2 in Hn. apply Hn. apply in_or_app. now left. }
    rewrite IH.
    - rewrite (length_set_notin m _ _ Hnot). cbn. lia.
    - rewrite (keys_set_notin m _ _ Hnot), <- app_assoc. exact Hn. }
  rewrite (G st []); [reflexivity|]. cbn [keys map app].
  (* keys are distinct because names are and the naming is injective on D *)
  clear G. induction st as [|e st IH]; [constructor|]. cbn [map] in *. inversion Hnd as [|x r Hx Hr]; subst.
  constructor.
  - intros Hin. apply in_map_iff in Hin. destruct Hin as (e2 & He2 & Hin2). apply Hx.
    destruct (Hall e (or_introl eq_refl)) as [Hn _]. destruct (Hall e2 (or_intror Hin2)) as [Hn2 _].
    rewrite Hn, <- He2, <- Hn2. now apply in_map.
  - apply IH; [exact Hr|]. intros e0 H0. apply Hall. now right.
Qed.

(* ---------------------------------------------------------------- refinement *)
Theorem dir_refines_dict st o : inv st -> op_in o ->
  inv (fst (dir_step st o)) /\
  same_contents (dir_abs (fst (dir_step st o))) (fst (dstep (dir_abs st) o)) /\
  out_equiv (snd (dir_step st o)) (snd (dstep (dir_abs st) o)).
Proof.
  intros Hi Ho. unfold op_in in Ho.
  destruct o; cbn [dir_step dstep op_keys] in *;
    try (assert (Hk : D k) by (apply Ho; now left));
    try (assert (Hp : D pick) by (apply Ho; now left));
    try rewrite (lookup_abs st k Hi Hk); try rewrite (lookup_abs st pick Hi Hp).
  - destruct (store_same st k v Hi Hk) as [A B]. cbn. auto.
  - destruct (get (dir_abs st) k); cbn; auto using same_contents_refl.
  - destruct (get (dir_abs st) k); cbn [fst snd out_equiv]; [|auto using same_contents_refl].
    destruct (rmdir_same st k Hi Hk) as [A B]. auto.
  - cbn. split; [exact Hi|]. split; [apply same_contents_refl|]. unfold mem_key. reflexivity.
  - cbn. split; [exact Hi|]. split; [apply same_contents_refl|]. unfold size. now rewrite abs_length.
  - cbn. split; [exact Hi|]. split; [apply same_contents_refl|]. rewrite (dir_asdict_abs fname D st Hi). apply same_contents_refl.
  - cbn. split; [exact Hi|]. split; [apply same_contents_refl|reflexivity].
  - destruct (get (dir_abs st) k); cbn [fst snd out_equiv].
    + destruct (rmdir_same st k Hi Hk) as [A B]. auto.
    + destruct d; cbn; auto using same_contents_refl.
  - destruct (get (dir_abs st) pick); cbn [fst snd out_equiv]; [|auto using same_contents_refl].
    destruct (rmdir_same st pick Hi Hp) as [A B]. auto.
  - destruct (popkeys_go (dir_abs st) ks d []) as [[m' vs]|] eqn:E; cbn [fst snd out_equiv]; [|auto using same_contents_refl].
    destruct (fold_rmdir_same ks st Hi Ho) as [A B]. split; [exact A|]. split; [|reflexivity].
    eapply same_contents_trans; [exact B|]. apply same_contents_sym. eapply popkeys_go_contents; eauto.
  - destruct (get (dir_abs st) k) as [w|] eqn:Eg; cbn [fst snd out_equiv].
    + destruct (store_same st k w Hi Hk) as [A B]. split; [exact A|]. split; [|reflexivity].
      eapply same_contents_trans; [exact B|]. now apply set_same_value.
    + destruct v as [w|]; cbn [fst snd out_equiv]; [|auto using same_contents_refl].
      destruct (store_same st k w Hi Hk) as [A B]. auto.
  - destruct (fold_store_same m st Hi Ho) as [A B]. cbn. auto.
  - cbn. split; [apply inv_nil|]. split; [apply same_contents_refl|reflexivity].
Qed.

(* a failing operation leaves the directory untouched *)
Theorem dir_failed_op_unchanged st o : snd (dir_step st o) = RKeyError -> fst (dir_step st o) = st.
Proof.
  destruct o; cbn [dir_step]; try discriminate; try reflexivity;
    repeat match goal with |- context [match ?x with _ => _ end] => destruct x end; cbn; try discriminate; reflexivity.
Qed.

(* histories *)
Theorem dir_run_refines_dict ops : forall st m, inv st -> Forall op_in ops -> wf m -> same_contents (dir_abs st) m ->
  inv (dir_run st ops) /\ same_contents (dir_abs (dir_run st ops)) (drun m ops).
Proof.
  induction ops as [|o ops IH]; intros st m Hi Ho Hw H; [split; assumption|].
  apply Forall_cons_iff in Ho. destruct Ho as [Ho1 Ho2].
  destruct (dir_refines_dict st o Hi Ho1) as (Hi' & Hs & _).
  assert (Wa : wf (dir_abs st)) by (unfold dir_abs; apply wf_update, wf_nil).
  destruct (dstep_same_contents (dir_abs st) m o Wa Hw H) as (S1 & _ & _ & W2).
  unfold dir_run, drun. cbn [fold_left]. apply IH; auto.
  eapply same_contents_trans; [exact Hs|exact S1].
Qed.

End DirStep.
