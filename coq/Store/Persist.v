(* Persistence (C04): archive handles hold no contents - everything lives in the store - so whatever
   handle (or process) performs the next operation, it sees the history so far. *)
From Klepto Require Import OMap OMapFacts DictSpec DictFacts FileArch Backends CacheDict CacheDictFacts SyncLaws.
From Coq Require Import Lia.

(* a handle is a location plus settings; an operation through a handle is an operation on the store *)
Record handle := mkH { loc : Z; settings : Z }.
Definition hstep (S : space) (h : handle) (o : dop) : space * dout := space_step S (loc h) o.
Definition hrun (S : space) (l : list (handle * dop)) : space :=
  fold_left (fun s ho => fst (hstep s (fst ho) (snd ho))) l S.

(* a history performed through ANY handles on one location leaves what a dict would hold ... *)
Lemma hrun_same_loc n : forall l S, Forall (fun ho => loc (fst ho) = n) l ->
  hrun S l n = drun (S n) (map snd l).
Proof.
  induction l as [|[h o] l IH]; intros S Hl; [reflexivity|].
  apply Forall_cons_iff in Hl. destruct Hl as [Hx Hr]. cbn [fst] in Hx. subst n. unfold hrun, drun. cbn [fold_left map snd fst].
  fold (hrun (fst (hstep S h o)) l). fold (drun (fst (dstep (S (loc h)) o)) (map snd l)).
  rewrite (IH _ Hr). f_equal. unfold hstep, space_step. destruct (dstep (S (loc h)) o). cbn. now rewrite Z.eqb_refl.
Qed.

(* ... and a fresh handle on that location then answers as that dict *)
Theorem fresh_handle_sees_history S l n h2 o : Forall (fun ho => loc (fst ho) = n) l -> loc h2 = n ->
  snd (hstep (hrun S l) h2 o) = snd (dstep (drun (S n) (map snd l)) o).
Proof.
  intros Hl H2. unfold hstep, space_step. rewrite H2, (hrun_same_loc n l S Hl).
  now destruct (dstep (drun (S n) (map snd l)) o).
Qed.

(* the same for the file model: any later operation returns what a dict that underwent the history returns *)
Theorem file_later_op_sees_history fs ops o :
  snd (file_step (file_run fs ops) o) = snd (dstep (drun (asdict fs) ops) o).
Proof. destruct (file_refines_dict (file_run fs ops) o) as [-> _]. now rewrite file_run_refines_dict. Qed.

(* cache in front of an archive: dump(), then a fresh cache on the same archive load()s every entry *)
Theorem dump_then_fresh_load c : wf_c c -> is_null (arch c) = false ->
  let a := arch (fst (cstep c (CDump []))) in
  let fresh := mkC [] a ANull in
  forall k v, get (mem c) k = Some v -> get (mem (fst (cstep fresh (CLoad [])))) k = Some v.
Proof.
  intros W N. cbv zeta. intros k v Hk.
  destruct (dump_all_law c W N) as (_ & _ & Hd).
  assert (Wf : wf_c (mkC [] (arch (fst (cstep c (CDump [])))) ANull)).
  { split; [constructor|]. split; [|constructor].
    assert (W' : wf_c (fst (cstep c (CDump [])))) by (cbn [cstep fst]; now apply c_dump_wf).
    apply W'. }
  destruct (load_all_law _ Wf) as (_ & _ & Hl). rewrite Hl. unfold over. cbn [mem arch get].
  rewrite Hd. unfold over. now rewrite Hk.
Qed.
