(* M7 (file, two processes): a writer against a reader, and against a process that merely opens the
   archive (the constructor re-saves what it read).  Each process keeps what it read in a local
   variable and stages its new file under its own temporary name; the file system is shared. *)
From Klepto Require Import OMap DictSpec FileArch.
From Coq Require Import Lia.

Inductive pstep :=
| SRead                         (* memo = __asdict__() *)
| SWriteTmp (f : omap -> omap)  (* write f(memo) to this process's temporary file *)
| SReplace.                     (* os.replace(tmp, target) *)

Record cstate := mkS { tgt : option fcontent; tmp1 : option fcontent; tmp2 : option fcontent; loc1 : omap; loc2 : omap }.

Definition view (s : cstate) : omap := match tgt s with Some (FGood m) => m | _ => [] end.

(* one step of process 1 (who = true) or process 2 *)
Definition pexec (s : cstate) (who : bool) (a : pstep) : cstate :=
  match who, a with
  | true, SRead => mkS (tgt s) (tmp1 s) (tmp2 s) (view s) (loc2 s)
  | false, SRead => mkS (tgt s) (tmp1 s) (tmp2 s) (loc1 s) (view s)
  | true, SWriteTmp f => mkS (tgt s) (Some (FGood (f (loc1 s)))) (tmp2 s) (loc1 s) (loc2 s)
  | false, SWriteTmp f => mkS (tgt s) (tmp1 s) (Some (FGood (f (loc2 s)))) (loc1 s) (loc2 s)
  | true, SReplace => match tmp1 s with Some c => mkS (Some c) None (tmp2 s) (loc1 s) (loc2 s) | None => s end
  | false, SReplace => match tmp2 s with Some c => mkS (Some c) (tmp1 s) None (loc1 s) (loc2 s) | None => s end
  end.

Definition prun (s : cstate) (l : list (bool * pstep)) : cstate := fold_left (fun st wa => pexec st (fst wa) (snd wa)) l s.

(* all interleavings of the two programs *)
Inductive pinter : list pstep -> list pstep -> list (bool * pstep) -> Prop :=
| pi_nil : pinter [] [] []
| pi_l a p1 p2 l : pinter p1 p2 l -> pinter (a :: p1) p2 ((true, a) :: l)
| pi_r b p1 p2 l : pinter p1 p2 l -> pinter p1 (b :: p2) ((false, b) :: l).

(* the programs *)
Definition writer (f : omap -> omap) : list pstep := [SRead; SWriteTmp f; SReplace].   (* any mutating operation *)
Definition reader : list pstep := [SRead].                                            (* lookup / items / load *)
Definition opener : list pstep := [SRead; SWriteTmp (fun m => m); SReplace].          (* file_archive(name): update({}) *)

Definition start (m : omap) : cstate := mkS (Some (FGood m)) None None [] [].

(* a concurrent reader sees the earlier or the later dictionary - complete either way - and the
   writer's result stands, under EVERY interleaving *)
Theorem writer_reader_all_interleavings m f l : pinter (writer f) reader l ->
  view (prun (start m) l) = f m /\ (loc2 (prun (start m) l) = m \/ loc2 (prun (start m) l) = f m).
Proof.
  unfold writer, reader. intros H.
  repeat match goal with
         | H : pinter _ _ _ |- _ => inversion H; clear H; subst
         end; cbn; auto.
Qed.

(* two readers never disturb anything *)
Theorem reader_reader_all_interleavings m l : pinter reader reader l -> view (prun (start m) l) = m.
Proof.
  unfold reader. intros H.
  repeat match goal with H : pinter _ _ _ |- _ => inversion H; clear H; subst end; reflexivity.
Qed.

(* ... but a process that merely opens the archive re-saves what it read: there is an interleaving in
   which the writer's completed write is lost (known finding K11) *)
Theorem writer_opener_lost_write_refuted :
  exists m f l, pinter (writer f) opener l /\ view (prun (start m) l) <> f m.
Proof.
  exists [(1, 10)], (fun m => set m 2 20),
    [(false, SRead); (true, SRead); (true, SWriteTmp (fun m => set m 2 20)); (true, SReplace);
     (false, SWriteTmp (fun m => m)); (false, SReplace)].
  split; [unfold writer, opener; repeat constructor|]. cbn. discriminate.
Qed.

(* when the opener runs entirely before or entirely after the writer nothing is lost *)
Theorem writer_opener_serial m f :
  view (prun (start m) (map (pair true) (writer f) ++ map (pair false) opener)) = f m /\
  view (prun (start m) (map (pair false) opener ++ map (pair true) (writer f))) = f m.
Proof. split; reflexivity. Qed.
