(* The dict specification only depends on the CONTENTS of the map (iteration order aside):
   congruence of dstep for same_contents, used by the refinement proofs of the archive models. *)
From Klepto Require Import OMap OMapFacts DictSpec.
From Coq Require Import Lia Sorting.Permutation.

Definition wf (m : omap) : Prop := NoDup (keys m).

Lemma same_contents_refl m : same_contents m m.
Proof. intros k; reflexivity. Qed.
Lemma same_contents_sym a b : same_contents a b -> same_contents b a.
Proof. intros H k; symmetry; apply H. Qed.
Lemma same_contents_trans a b c : same_contents a b -> same_contents b c -> same_contents a c.
Proof. intros H1 H2 k; rewrite H1; apply H2. Qed.

Lemma same_contents_size a b : wf a -> wf b -> same_contents a b -> size a = size b.
Proof.
  intros Na Nb H. unfold size. f_equal. rewrite <- !length_keys. apply Permutation_length.
  apply NoDup_Permutation; try assumption. intros k.
  split; intros Hin; apply in_keys_get in Hin; destruct Hin as [v Hv];
    [rewrite H in Hv|rewrite <- H in Hv]; eapply get_in_keys; eauto.
Qed.

Lemma same_contents_set a b k v : same_contents a b -> same_contents (set a k v) (set b k v).
Proof. intros H k'. rewrite !get_set. destruct (Z.eqb k' k); [reflexivity|apply H]. Qed.

Lemma same_contents_del a b k : same_contents a b -> same_contents (del a k) (del b k).
Proof. intros H k'. rewrite !get_del. destruct (Z.eqb k' k); [reflexivity|apply H]. Qed.

Lemma same_contents_update a b m2 : same_contents a b -> same_contents (update a m2) (update b m2).
Proof.
  revert a b. induction m2 as [|[k v] r IH]; intros a b H; [exact H|].
  rewrite !update_cons. apply IH. cbn [fst snd]. now apply same_contents_set.
Qed.

Lemma mem_key_same a b k : same_contents a b -> mem_key a k = mem_key b k.
Proof. intros H. unfold mem_key. now rewrite H. Qed.

Lemma wf_nil : wf [].
Proof. constructor. Qed.
Lemma wf_set m k v : wf m -> wf (set m k v).
Proof. apply NoDup_keys_set. Qed.
Lemma wf_del m k : wf m -> wf (del m k).
Proof. apply NoDup_keys_del. Qed.
Lemma wf_update m m2 : wf m -> wf (update m m2).
Proof. apply NoDup_keys_update. Qed.

Lemma popkeys_go_same a b ks d acc : same_contents a b ->
  match popkeys_go a ks d acc, popkeys_go b ks d acc with
  | Some (a', va), Some (b', vb) => same_contents a' b' /\ va = vb
  | None, None => True
  | _, _ => False
  end.
Proof.
  revert a b acc. induction ks as [|k r IH]; intros a b acc H; cbn [popkeys_go]; [auto|].
  rewrite <- (H k). destruct (get a k) as [v|].
  - apply IH. now apply same_contents_del.
  - destruct d as [dv|]; [now apply IH|exact I].
Qed.

Lemma popkeys_go_wf m ks d acc m' vs : wf m -> popkeys_go m ks d acc = Some (m', vs) -> wf m'.
Proof.
  revert m acc. induction ks as [|k r IH]; intros m acc Hw; cbn [popkeys_go].
  - intros E; inversion E; subst; exact Hw.
  - destruct (get m k).
    + apply IH. now apply wf_del.
    + destruct d; [now apply IH|discriminate].
Qed.

(* results that agree up to the order of a snapshot *)
Definition out_equiv (r1 r2 : dout) : Prop :=
  match r1, r2 with
  | RItems m1, RItems m2 => same_contents m1 m2
  | _, _ => r1 = r2
  end.

(* the dict specification is a function of the contents *)
Ltac four := split; [|split; [|split]]; cbn [fst snd out_equiv].

Theorem dstep_same_contents a b o : wf a -> wf b -> same_contents a b ->
  same_contents (fst (dstep a o)) (fst (dstep b o)) /\ out_equiv (snd (dstep a o)) (snd (dstep b o)) /\
  wf (fst (dstep a o)) /\ wf (fst (dstep b o)).
Proof.
  intros Na Nb H. destruct o; cbn [dstep].
  - four; auto using same_contents_set, wf_set.
  - rewrite <- (H k). destruct (get a k); four; auto.
  - rewrite <- (H k). destruct (get a k); four; auto using same_contents_del, wf_del.
  - four; auto. now rewrite (mem_key_same a b k H).
  - four; auto. now rewrite (same_contents_size a b Na Nb H).
  - four; auto.
  - rewrite <- (H k). four; auto.
  - rewrite <- (H k). destruct (get a k); [four; auto using same_contents_del, wf_del|].
    destruct d; four; auto.
  - rewrite <- (H pick). destruct (get a pick); four; auto using same_contents_del, wf_del.
  - pose proof (popkeys_go_same a b ks d [] H) as Hp.
    destruct (popkeys_go a ks d []) as [[a' va]|] eqn:Ea; destruct (popkeys_go b ks d []) as [[b' vb]|] eqn:Eb; try contradiction.
    + destruct Hp as [Hs ->]. four; auto; [exact (popkeys_go_wf a ks d [] a' vb Na Ea)|exact (popkeys_go_wf b ks d [] b' vb Nb Eb)].
    + four; auto.
  - rewrite <- (H k). destruct (get a k); [four; auto|].
    destruct v; four; auto using same_contents_set, wf_set.
  - four; auto using same_contents_update, wf_update.
  - four; auto using wf_nil. apply same_contents_refl.
Qed.

(* last binding of a key in a list of pairs *)
Fixpoint last_match (l : list (key * val)) (k : key) : option val :=
  match l with
  | [] => None
  | (k', v) :: r => match last_match r k with
                    | Some w => Some w
                    | None => if Z.eqb k k' then Some v else None
                    end
  end.

Lemma last_match_app l1 l2 k : last_match (l1 ++ l2) k = match last_match l2 k with Some v => Some v | None => last_match l1 k end.
Proof.
  induction l1 as [|[k1 v1] r IH]; cbn [app last_match]; [now destruct (last_match l2 k)|].
  rewrite IH. destruct (last_match l2 k); reflexivity.
Qed.

Lemma get_update_last m m2 k : get (update m m2) k = match last_match m2 k with Some v => Some v | None => get m k end.
Proof.
  revert m. induction m2 as [|[k2 v2] r IH]; intros m; [reflexivity|].
  rewrite update_cons, IH. cbn [fst snd last_match]. destruct (last_match r k); [reflexivity|]. rewrite get_set. destruct (Z.eqb k k2); reflexivity.
Qed.
