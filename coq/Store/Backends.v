(* M7 (sql table, directory): models of sqltable_archive (sqlite3 flavour, _archives.py:1520-1748) and
   dir_archive (_archives.py:316-681) at the level of rows / entry directories, and their refinement
   of the dict specification (property C03). *)
From Klepto Require Import OMap OMapFacts DictSpec DictFacts.
From Coq Require Import Lia.

(* ================================================================ SQL table: an append-only row list *)
Definition rows := list (key * val).

Definition sql_abs (r : rows) : omap := update [] r.                 (* __asdict__: later rows win *)
Definition sql_select (r : rows) (k : key) : option val := last_match r k.   (* res[-1][-1] *)
Definition sql_delete (r : rows) (k : key) : rows := filter (fun kv => negb (Z.eqb (fst kv) k)) r.

Definition sql_step (r : rows) (o : dop) : rows * dout :=
  match o with
  | DSet k v => (r ++ [(k, v)], RUnit)                         (* insert into ... ; commit *)
  | DGet k => match sql_select r k with Some v => (r, RVal (Some v)) | None => (r, RKeyError) end
  | DDel k => match sql_select r k with Some _ => (sql_delete r k, RUnit) | None => (r, RKeyError) end
  | DContains k => (r, RBool (match sql_select r k with Some _ => true | None => false end))
  | DLen => (r, RLen (size (sql_abs r)))
  | DItems => (r, RItems (sql_abs r))
  | DGetD k d => (r, RVal (some_or d (sql_select r k)))
  | DPop k d => match sql_select r k with
                | Some v => (sql_delete r k, RVal (Some v))
                | None => match d with Some dv => (sql_delete r k, RVal dv) | None => (r, RKeyError) end
                end
  | DPopitem pick => match sql_select r pick with
                     | Some v => (sql_delete r pick, RPair pick v)
                     | None => (r, RKeyError)
                     end
  | DPopkeys ks d => match popkeys_go (sql_abs r) ks d [] with
                     | Some (_, vs) => (fold_left sql_delete ks r, RVals vs)
                     | None => (r, RKeyError)
                     end
  | DSetdefault k v => match sql_select r k with
                       | Some w => (r, RVal (Some w))
                       | None => match v with Some w => (r ++ [(k, w)], RVal (Some w)) | None => (r, RVal None) end
                       end
  | DUpdate m2 => (r ++ m2, RUnit)                             (* one insert + commit per item *)
  | DClear => (fold_left sql_delete (keys (sql_abs r)) r, RUnit)   (* pop every key *)
  end.

Lemma sql_get r k : get (sql_abs r) k = sql_select r k.
Proof. unfold sql_abs, sql_select. rewrite get_update_last. now destruct (last_match r k). Qed.

Lemma sql_abs_wf r : wf (sql_abs r).
Proof. unfold sql_abs. apply wf_update. apply wf_nil. Qed.

Lemma last_match_filter r k k' :
  last_match (sql_delete r k) k' = if Z.eqb k' k then None else last_match r k'.
Proof.
  induction r as [|[k0 v0] r IH]; cbn [sql_delete filter last_match fst]; [now destruct (Z.eqb k' k)|].
  fold (sql_delete r k). destruct (Z.eqb k0 k) eqn:E0; cbn [negb].
  - apply Z.eqb_eq in E0. subst k0. rewrite IH. destruct (Z.eqb k' k) eqn:E; [reflexivity|].
    destruct (last_match r k'); reflexivity.
  - cbn [last_match]. rewrite IH. destruct (Z.eqb k' k) eqn:E.
    + apply Z.eqb_eq in E. subst k'. rewrite Z.eqb_sym, E0. reflexivity.
    + reflexivity.
Qed.

Lemma sql_delete_contents r k : same_contents (sql_abs (sql_delete r k)) (del (sql_abs r) k).
Proof. intros k'. rewrite sql_get, get_del, sql_get. unfold sql_select. apply last_match_filter. Qed.

Lemma fold_del_same ks : forall a b, same_contents a b -> same_contents (fold_left del ks a) (fold_left del ks b).
Proof. induction ks as [|x r IH]; intros a b H; cbn [fold_left]; [exact H|]. apply IH. now apply same_contents_del. Qed.

Lemma sql_fold_delete_contents ks : forall r, same_contents (sql_abs (fold_left sql_delete ks r)) (fold_left del ks (sql_abs r)).
Proof.
  induction ks as [|k ks IH]; intros r; cbn [fold_left]; [apply same_contents_refl|].
  eapply same_contents_trans; [apply IH|]. apply fold_del_same. apply sql_delete_contents.
Qed.

Lemma popkeys_go_contents m ks d acc m' vs : popkeys_go m ks d acc = Some (m', vs) ->
  same_contents m' (fold_left del ks m).
Proof.
  revert m acc. induction ks as [|k r IH]; intros m acc; cbn [popkeys_go fold_left].
  - intros E; inversion E; subst. apply same_contents_refl.
  - destruct (get m k) eqn:Eg.
    + apply IH.
    + destruct d; [|discriminate]. intros H. eapply same_contents_trans; [eapply IH; eauto|].
      assert (Hd : same_contents m (del m k)).
      { intros k'. rewrite get_del. destruct (Z.eqb k' k) eqn:E; [apply Z.eqb_eq in E; subst; exact Eg|reflexivity]. }
      now apply fold_del_same.
Qed.

Lemma fold_del_all m : same_contents (fold_left del (keys m) m) [].
Proof.
  intros k. cbn [get].
  assert (G : forall ks m0, get (fold_left del ks m0) k = if in_dec Z.eq_dec k ks then None else get m0 k).
  { clear. induction ks as [|x r IH]; intros m0; cbn [fold_left].
    - destruct (in_dec Z.eq_dec k []) as [[]|]; reflexivity.
    - rewrite IH. destruct (in_dec Z.eq_dec k r) as [ir|nr]; destruct (in_dec Z.eq_dec k (x :: r)) as [ix|nx]; cbn [In] in *; try reflexivity.
      + exfalso; tauto.
      + destruct ix as [->|]; [apply get_del_same|tauto].
      + apply get_del_other. intro; subst; tauto. }
  rewrite G. destruct (in_dec Z.eq_dec k (keys m)) as [i|n]; [reflexivity|]. now apply get_none_not_in.
Qed.

(* every operation on the table returns what the dict returns and leaves the dict's contents *)
Theorem sql_refines_dict r o :
  same_contents (sql_abs (fst (sql_step r o))) (fst (dstep (sql_abs r) o)) /\
  out_equiv (snd (sql_step r o)) (snd (dstep (sql_abs r) o)).
Proof.
  destruct o; cbn [sql_step dstep]; rewrite ?sql_get.
  - cbn [fst snd out_equiv]. split; [|reflexivity]. unfold sql_abs. rewrite update_app. apply same_contents_refl.
  - destruct (sql_select r k); cbn; split; auto using same_contents_refl.
  - destruct (sql_select r k); cbn [fst snd out_equiv]; split; auto using same_contents_refl, sql_delete_contents.
  - cbn. split; [apply same_contents_refl|]. unfold mem_key. rewrite sql_get. reflexivity.
  - cbn. split; [apply same_contents_refl|reflexivity].
  - cbn. split; apply same_contents_refl.
  - cbn. split; [apply same_contents_refl|reflexivity].
  - destruct (sql_select r k) eqn:E; cbn [fst snd out_equiv]; [split; auto using sql_delete_contents|].
    destruct d; cbn [fst snd out_equiv]; split; auto using same_contents_refl.
    eapply same_contents_trans; [apply sql_delete_contents|]. intros k'. rewrite get_del.
    destruct (Z.eqb k' k) eqn:E2; [apply Z.eqb_eq in E2; subst; now rewrite sql_get|reflexivity].
  - destruct (sql_select r pick); cbn [fst snd out_equiv]; split; auto using same_contents_refl, sql_delete_contents.
  - destruct (popkeys_go (sql_abs r) ks d []) as [[m' vs]|] eqn:E; cbn [fst snd out_equiv]; split; auto using same_contents_refl.
    eapply same_contents_trans; [apply sql_fold_delete_contents|]. apply same_contents_sym. eapply popkeys_go_contents; eauto.
  - destruct (sql_select r k); cbn [fst snd out_equiv]; [split; auto using same_contents_refl|].
    destruct v; cbn [fst snd out_equiv]; split; auto using same_contents_refl.
    unfold sql_abs. rewrite update_app. apply same_contents_refl.
  - cbn [fst snd out_equiv]. split; [|reflexivity]. unfold sql_abs. rewrite update_app. apply same_contents_refl.
  - cbn [fst snd out_equiv]. split; [|reflexivity].
    eapply same_contents_trans; [apply sql_fold_delete_contents|]. apply fold_del_all.
Qed.

(* a failing operation leaves the table untouched *)
Theorem sql_failed_op_unchanged r o : snd (sql_step r o) = RKeyError -> fst (sql_step r o) = r.
Proof.
  destruct o; cbn [sql_step]; try discriminate; try reflexivity;
    repeat match goal with |- context [match ?x with _ => _ end] => destruct x end; cbn; try discriminate; reflexivity.
Qed.

(* histories: the table always holds the contents of the dict that underwent the same operations *)
Definition sql_run (r : rows) (ops : list dop) : rows := fold_left (fun s o => fst (sql_step s o)) ops r.

Theorem sql_run_refines_dict ops : forall r m, wf m -> same_contents (sql_abs r) m ->
  same_contents (sql_abs (sql_run r ops)) (drun m ops).
Proof.
  induction ops as [|o ops IH]; intros r m Hw H; [exact H|].
  unfold sql_run, drun. cbn [fold_left]. apply IH.
  - now destruct (dstep_same_contents (sql_abs r) m o (sql_abs_wf r) Hw H) as (_ & _ & _ & W).
  - eapply same_contents_trans; [apply sql_refines_dict|].
    now destruct (dstep_same_contents (sql_abs r) m o (sql_abs_wf r) Hw H) as (S & _).
Qed.

(* crash atomicity (C13): every statement is committed on its own; a crash leaves a prefix of the
   statements.  A multi-key update then shows, for each key, its old or its new value. *)
Theorem sql_update_crash_prefix r m2 n k :
  let r' := r ++ firstn n m2 in
  sql_select r' k = sql_select r k \/ (exists v, In (k, v) m2 /\ sql_select r' k = Some v).
Proof.
  cbv zeta. unfold sql_select. rewrite last_match_app.
  destruct (last_match (firstn n m2) k) as [v|] eqn:E; [right|now left].
  exists v. split; [|reflexivity].
  assert (G : forall l, last_match l k = Some v -> In (k, v) l).
  { clear. induction l as [|[k0 v0] l IH]; cbn [last_match]; [discriminate|].
    destruct (last_match l k) eqn:El.
    - intros E; inversion E; subst. right. now apply IH.
    - destruct (Z.eqb k k0) eqn:Ek; [|discriminate]. apply Z.eqb_eq in Ek. subst. intros E; inversion E. now left. }
  apply G in E. clear - E. revert m2 E. induction n as [|n IH]; intros [|x m2] E; cbn [firstn] in E; try destruct E.
  - subst. now left.
  - right. now apply IH.
Qed.

(* ================================================================ directory archive *)
Lemma find_app_full {A} (f : A -> bool) l1 l2 :
  find f (l1 ++ l2) = match find f l1 with Some x => Some x | None => find f l2 end.
Proof. induction l1 as [|x r IH]; cbn [app find]; [reflexivity|]. destruct (f x); [reflexivity|exact IH]. Qed.

Lemma find_none_iff {A} (f : A -> bool) l : (forall x, In x l -> f x = false) -> find f l = None.
Proof.
  induction l as [|x r IH]; intros H; cbn [find]; [reflexivity|].
  rewrite (H x (or_introl eq_refl)). apply IH. intros y Hy. apply H. now right.
Qed.

Lemma NoDup_snoc {A} (l : list A) x : NoDup l -> ~ In x l -> NoDup (l ++ [x]).
Proof.
  induction l as [|y r IH]; intros Hn Hx; cbn [app]; [constructor; [intros []|constructor]|].
  inversion Hn as [|a l Ha Hl]; subst. constructor.
  - intros Hin. apply in_app_or in Hin. destruct Hin as [Hin|[<-|[]]]; [now apply Ha|]. apply Hx. now left.
  - apply IH; [exact Hl|]. intros Hin. apply Hx. now right.
Qed.

Section Dir.
(* the name of the entry directory of a key (klepto: str(key) with '-' -> '_', md5 for pickles) *)
Variable fname : key -> key.

(* one entry directory: its name, the key kept in the input file (or recovered from the name), the value *)
Record dentry := mkE { e_name : key; e_key : key; e_val : val }.
Definition dstate := list dentry.

Definition dir_lookup (st : dstate) (k : key) : option val :=
  match find (fun e => Z.eqb (e_name e) (fname k)) st with Some e => Some (e_val e) | None => None end.
Definition dir_rmdir (st : dstate) (k : key) : dstate := filter (fun e => negb (Z.eqb (e_name e) (fname k))) st.
(* _store: populate a staging directory, remove the old entry, rename the staging directory *)
Definition dir_store (st : dstate) (k : key) (v : val) : dstate := dir_rmdir st k ++ [mkE (fname k) k v].
(* __asdict__: for every listed directory, its key and the value looked up under that key *)
Definition dir_asdict (st : dstate) : omap :=
  update [] (flat_map (fun e => match dir_lookup st (e_key e) with Some v => [(e_key e, v)] | None => [] end) st).

(* two distinct keys with the same directory name: the second store replaces the first *)
Theorem dir_alias_breaks_dict k1 k2 a b : k1 <> k2 -> fname k1 = fname k2 -> a <> b ->
  dir_lookup (dir_store (dir_store [] k1 a) k2 b) k1 = Some b /\
  get (fst (dstep (fst (dstep [] (DSet k1 a))) (DSet k2 b))) k1 = Some a.
Proof.
  intros Hne Hf Hab. split.
  - unfold dir_store, dir_rmdir, dir_lookup. cbn. rewrite Hf, Z.eqb_refl. cbn. rewrite Z.eqb_refl. reflexivity.
  - cbn. destruct (Z.eqb k2 k1) eqn:E; [apply Z.eqb_eq in E; congruence|]. cbn. now rewrite Z.eqb_refl.
Qed.

(* refinement on a key universe where the naming is injective *)
Variable D : key -> Prop.
Hypothesis fname_inj : forall a b, D a -> D b -> fname a = fname b -> a = b.

Definition dir_inv (st : dstate) : Prop :=
  NoDup (map e_name st) /\ (forall e, In e st -> e_name e = fname (e_key e) /\ D (e_key e)).

Definition dir_abs (st : dstate) : omap := update [] (map (fun e => (e_key e, e_val e)) st).

Lemma dir_lookup_spec st k : dir_inv st -> D k ->
  dir_lookup st k = last_match (map (fun e => (e_key e, e_val e)) st) k.
Proof.
  intros [Hnd Hall] Hk. unfold dir_lookup. induction st as [|e st IH]; [reflexivity|].
  cbn [find map last_match]. cbn [map] in Hnd. inversion Hnd as [|a l Ha Hl]; subst.
  assert (Hall' : forall e0, In e0 st -> e_name e0 = fname (e_key e0) /\ D (e_key e0)) by (intros e0 H0; apply Hall; now right).
  specialize (IH Hl Hall'). destruct (Hall e (or_introl eq_refl)) as [Hn Hd].
  destruct (Z.eqb (e_name e) (fname k)) eqn:E.
  - apply Z.eqb_eq in E. assert (e_key e = k) by (apply fname_inj; congruence). subst k.
    (* no later entry has this name *)
    assert (Hnone : last_match (map (fun e0 => (e_key e0, e_val e0)) st) (e_key e) = None).
    { rewrite <- IH. destruct (find (fun e0 => Z.eqb (e_name e0) (fname (e_key e))) st) as [e2|] eqn:Ef; [|reflexivity].
      exfalso. apply find_some in Ef. destruct Ef as [Hin Heq]. apply Z.eqb_eq in Heq. apply Ha.
      rewrite Hn, <- Heq. now apply in_map. }
    rewrite Hnone, Z.eqb_refl. reflexivity.
  - rewrite IH. destruct (last_match (map (fun e0 => (e_key e0, e_val e0)) st) k); [reflexivity|].
    destruct (Z.eqb k (e_key e)) eqn:E2; [|reflexivity]. apply Z.eqb_eq in E2. subst k. rewrite Hn, Z.eqb_refl in E. discriminate.
Qed.

(* lookups read what a dict holding the listed (key, value) pairs would return *)
Theorem dir_lookup_refines st k : dir_inv st -> D k -> dir_lookup st k = get (dir_abs st) k.
Proof.
  intros Hi Hk. rewrite (dir_lookup_spec st k Hi Hk). unfold dir_abs. rewrite get_update_last.
  now destruct (last_match _ k).
Qed.

Lemma dir_rmdir_inv st k : dir_inv st -> dir_inv (dir_rmdir st k).
Proof.
  intros [Hnd Hall]. split.
  - unfold dir_rmdir. induction st as [|e st IH]; cbn [filter map]; [constructor|].
    cbn [map] in Hnd. inversion Hnd as [|a l Ha Hl]; subst.
    assert (IH' := IH Hl (fun e0 H0 => Hall e0 (or_intror H0))).
    destruct (negb (Z.eqb (e_name e) (fname k))); [|exact IH']. cbn [map]. constructor; [|exact IH'].
    intros Hin. apply Ha. apply in_map_iff in Hin. destruct Hin as (e2 & He2 & Hin2). apply filter_In in Hin2.
    rewrite <- He2. apply in_map. tauto.
  - intros e Hin. apply filter_In in Hin. apply Hall. tauto.
Qed.

Lemma dir_store_inv st k v : dir_inv st -> D k -> dir_inv (dir_store st k v).
Proof.
  intros Hi Hk. destruct (dir_rmdir_inv st k Hi) as [Hnd Hall]. unfold dir_store. split.
  - rewrite map_app. cbn [map e_name]. apply NoDup_snoc; [exact Hnd|].
    intros Hin. apply in_map_iff in Hin. destruct Hin as (e & He & Hin). apply filter_In in Hin. destruct Hin as [_ Hf].
    rewrite He, Z.eqb_refl in Hf. discriminate.
  - intros e Hin. apply in_app_or in Hin. destruct Hin as [Hin|[<-|[]]]; [now apply Hall|]. cbn. auto.
Qed.

(* a store behaves as dict assignment, a removal as dict deletion - for every key of the universe *)
Theorem dir_store_refines st k v k' : dir_inv st -> D k -> D k' ->
  dir_lookup (dir_store st k v) k' = if Z.eqb k' k then Some v else dir_lookup st k'.
Proof.
  intros Hi Hk Hk'. unfold dir_store, dir_lookup. rewrite find_app_full.
  destruct (Z.eqb k' k) eqn:E.
  - apply Z.eqb_eq in E. subst k'.
    assert (Hf : find (fun e => Z.eqb (e_name e) (fname k)) (dir_rmdir st k) = None).
    { apply find_none_iff. intros e Hin. apply filter_In in Hin. destruct Hin as [_ Hf]. now destruct (Z.eqb (e_name e) (fname k)). }
    rewrite Hf. cbn. now rewrite Z.eqb_refl.
  - assert (Hne : fname k <> fname k') by (intro Heq; apply Z.eqb_neq in E; apply E; symmetry; now apply fname_inj).
    assert (Hf : find (fun e => Z.eqb (e_name e) (fname k')) (dir_rmdir st k) = find (fun e => Z.eqb (e_name e) (fname k')) st).
    { unfold dir_rmdir. clear - Hne. induction st as [|e st IH]; cbn [filter find]; [reflexivity|].
      destruct (Z.eqb (e_name e) (fname k)) eqn:E1; cbn [negb].
      - apply Z.eqb_eq in E1. assert (Z.eqb (e_name e) (fname k') = false) as -> by (apply Z.eqb_neq; congruence). exact IH.
      - cbn [find]. destruct (Z.eqb (e_name e) (fname k')); [reflexivity|exact IH]. }
    rewrite Hf. destruct (find (fun e => Z.eqb (e_name e) (fname k')) st); [reflexivity|].
    cbn. assert (Z.eqb (fname k) (fname k') = false) as -> by (now apply Z.eqb_neq). reflexivity.
Qed.

Theorem dir_rmdir_refines st k k' : dir_inv st -> D k -> D k' ->
  dir_lookup (dir_rmdir st k) k' = if Z.eqb k' k then None else dir_lookup st k'.
Proof.
  intros Hi Hk Hk'. unfold dir_lookup. destruct (Z.eqb k' k) eqn:E.
  - apply Z.eqb_eq in E. subst k'.
    assert (Hf : find (fun e => Z.eqb (e_name e) (fname k)) (dir_rmdir st k) = None).
    { apply find_none_iff. intros e Hin. apply filter_In in Hin. destruct Hin as [_ Hf]. now destruct (Z.eqb (e_name e) (fname k)). }
    now rewrite Hf.
  - assert (Hne : fname k <> fname k') by (intro Heq; apply Z.eqb_neq in E; apply E; symmetry; now apply fname_inj).
    unfold dir_rmdir. clear - Hne. induction st as [|e st IH]; cbn [filter find]; [reflexivity|].
    destruct (Z.eqb (e_name e) (fname k)) eqn:E1; cbn [negb].
    + apply Z.eqb_eq in E1. assert (Z.eqb (e_name e) (fname k') = false) as -> by (apply Z.eqb_neq; congruence). exact IH.
    + cbn [find]. destruct (Z.eqb (e_name e) (fname k')); [reflexivity|exact IH].
Qed.

Corollary dir_store_abs st k v k' : dir_inv st -> D k -> D k' ->
  get (dir_abs (dir_store st k v)) k' = get (set (dir_abs st) k v) k'.
Proof.
  intros Hi Hk Hk'. rewrite <- (dir_lookup_refines _ k' (dir_store_inv st k v Hi Hk) Hk').
  rewrite (dir_store_refines st k v k' Hi Hk Hk'), get_set, <- (dir_lookup_refines st k' Hi Hk'). reflexivity.
Qed.

Corollary dir_rmdir_abs st k k' : dir_inv st -> D k -> D k' ->
  get (dir_abs (dir_rmdir st k)) k' = get (del (dir_abs st) k) k'.
Proof.
  intros Hi Hk Hk'. rewrite <- (dir_lookup_refines _ k' (dir_rmdir_inv st k Hi) Hk').
  rewrite (dir_rmdir_refines st k k' Hi Hk Hk'), get_del, <- (dir_lookup_refines st k' Hi Hk'). reflexivity.
Qed.

Lemma nodup_map_inj {A} (f : A -> key) l a b : NoDup (map f l) -> In a l -> In b l -> f a = f b -> a = b.
Proof.
  induction l as [|x r IH]; intros Hn Ha Hb Hf; [destruct Ha|].
  cbn [map] in Hn. inversion Hn as [|y l Hy Hl]; subst.
  destruct Ha as [->|Ha]; destruct Hb as [->|Hb]; auto.
  - exfalso. apply Hy. rewrite Hf. now apply in_map.
  - exfalso. apply Hy. rewrite <- Hf. now apply in_map.
Qed.

(* the listing of the archive is the dict of the stored (key, value) pairs *)
Theorem dir_asdict_abs st : dir_inv st -> dir_asdict st = dir_abs st.
Proof.
  intros [Hnd Hall]. unfold dir_asdict, dir_abs. f_equal.
  assert (G : forall l, (forall e, In e l -> In e st) ->
    flat_map (fun e => match dir_lookup st (e_key e) with Some v => [(e_key e, v)] | None => [] end) l
    = map (fun e => (e_key e, e_val e)) l).
  { induction l as [|e l IH]; intros Hsub; [reflexivity|]. cbn [flat_map map].
    rewrite IH by (intros e0 H0; apply Hsub; now right).
    assert (Hin : In e st) by (apply Hsub; now left).
    unfold dir_lookup. destruct (find (fun e0 => Z.eqb (e_name e0) (fname (e_key e))) st) as [e2|] eqn:Ef.
    - apply find_some in Ef. destruct Ef as [Hin2 Heq]. apply Z.eqb_eq in Heq.
      assert (e2 = e) by (eapply nodup_map_inj; eauto; rewrite Heq; symmetry; apply Hall; exact Hin). subst. reflexivity.
    - exfalso. eapply find_none in Ef; [|exact Hin]. cbn in Ef. destruct (Hall e Hin) as [Hn _]. rewrite Hn, Z.eqb_refl in Ef. discriminate. }
  apply G. auto.
Qed.

Theorem dir_store_law st k v k' : dir_inv st -> D k -> D k' ->
  dir_inv (dir_store st k v) /\ get (dir_abs (dir_store st k v)) k' = get (set (dir_abs st) k v) k'.
Proof. intros Hi Hk Hk'. split; [now apply dir_store_inv|now apply dir_store_abs]. Qed.

Theorem dir_rmdir_law st k k' : dir_inv st -> D k -> D k' ->
  dir_inv (dir_rmdir st k) /\ get (dir_abs (dir_rmdir st k)) k' = get (del (dir_abs st) k) k'.
Proof. intros Hi Hk Hk'. split; [now apply dir_rmdir_inv|now apply dir_rmdir_abs]. Qed.

End Dir.

(* ================================================================ null archive; archives under names *)
(* the null archive: every write is discarded, every read sees an empty dict *)
Definition null_step (m : omap) (o : dop) : omap * dout := ([], snd (dstep [] o)).
Definition null_run (ops : list dop) : omap := fold_left (fun m o => fst (null_step m o)) ops [].

Theorem null_discards_writes ops : null_run ops = [].
Proof. unfold null_run. induction ops as [|o r IH] using rev_ind; [reflexivity|]. now rewrite fold_left_app. Qed.

Theorem null_answers_as_empty_dict ops o : snd (null_step (null_run ops) o) = snd (dstep [] o).
Proof. reflexivity. Qed.

(* a namespace of archives (file names, directories, tables): an operation addresses one name *)
Definition space := Z -> omap.
Definition space_step (S : space) (n : Z) (o : dop) : space * dout :=
  let '(m', r) := dstep (S n) o in (fun n' => if Z.eqb n' n then m' else S n', r).
Definition space_copy (S : space) (src dst : Z) : space := fun n' => if Z.eqb n' dst then S src else S n'.

Theorem space_frame S n o n' : n' <> n -> fst (space_step S n o) n' = S n'.
Proof. intros H. unfold space_step. destruct (dstep (S n) o). cbn. apply Z.eqb_neq in H. now rewrite H. Qed.

Theorem space_copy_equal_then_independent S src dst o : src <> dst ->
  space_copy S src dst dst = S src /\
  fst (space_step (space_copy S src dst) dst o) src = S src /\
  fst (space_step (space_copy S src dst) src o) dst = S src.
Proof.
  intros H. unfold space_copy. split; [now rewrite Z.eqb_refl|]. split.
  - rewrite space_frame by exact H. apply Z.eqb_neq in H. now rewrite H.
  - rewrite space_frame by congruence. now rewrite Z.eqb_refl.
Qed.
