(* M7 (file): klepto file_archive over an abstract file system (_archives.py:684-895).
   The whole dictionary lives in one file; every mutation is read - modify - write of that file. *)
From Klepto Require Import OMap OMapFacts DictSpec.
From Coq Require Import Lia.

(* a file holds a complete serialisation of a dictionary, or junk (truncated / partial write) *)
Inductive fcontent := FGood (m : omap) | FJunk.

Record ffs := mkF { target : option fcontent; staging : list fcontent }.

(* atomic file-system actions issued by __save__ *)
Inductive faction :=
| AWriteTmp (c : fcontent)     (* create the staging file; FJunk = the write was cut short *)
| ARemoveTarget                (* os.remove(target) *)
| ARenameTmp                   (* os.renames(tmp, target) onto a missing target *)
| AReplaceTmp.                 (* os.replace(tmp, target): atomic, target present or not *)

Definition fapply (fs : ffs) (a : faction) : ffs :=
  match a with
  | AWriteTmp c => mkF (target fs) (c :: staging fs)
  | ARemoveTarget => mkF None (staging fs)
  | ARenameTmp | AReplaceTmp =>
      match staging fs with
      | c :: r => mkF (Some c) r
      | [] => fs
      end
  end.

Definition frun (fs : ffs) (l : list faction) : ffs := fold_left fapply l fs.

(* __asdict__: the dictionary, or {} when the file is missing or unreadable (bare except) *)
Definition asdict (fs : ffs) : omap :=
  match target fs with Some (FGood m) => m | _ => [] end.

(* __save__(memo): write the staging file, then move it over the target *)
Definition save (m : omap) : list faction := [AWriteTmp (FGood m); AReplaceTmp].
(* the protocol before the repair (kept to show what the model can express) *)
Definition save_old (m : omap) : list faction := [AWriteTmp (FGood m); ARemoveTarget; ARenameTmp].

(* which mapping operations rewrite the file *)
Definition writes (o : dop) (r : dout) : bool :=
  match o, r with
  | (DSet _ _ | DClear | DUpdate _), _ => true      (* update({}) rewrites the file too *)
  | (DDel _ | DPopitem _), RKeyError => false
  | (DDel _ | DPopitem _), _ => true
  | DPop _ _, RKeyError => false
  | DPop _ _, _ => true
  | DPopkeys _ _, RKeyError => false
  | DPopkeys _ _, _ => true
  | DSetdefault _ _, _ => true
  | _, _ => false
  end.

Definition file_step (fs : ffs) (o : dop) : ffs * dout :=
  let '(m', r) := dstep (asdict fs) o in
  (if writes o r then frun fs (save m') else fs, r).

(* opening an archive: the constructor ends in archive.update(dict), which rewrites the file *)
Definition file_open (fs : ffs) : ffs := frun fs (save (asdict fs)).

Definition file_run (fs : ffs) (ops : list dop) : ffs := fold_left (fun s o => fst (file_step s o)) ops fs.

(* ---------------------------------------------------------------- refinement of a dict (C03) *)
Lemma asdict_save fs m : asdict (frun fs (save m)) = m.
Proof. reflexivity. Qed.

(* an operation that does not write leaves the dictionary as the dict operation does *)
Lemma nowrite_same m o : writes o (snd (dstep m o)) = false -> fst (dstep m o) = m.
Proof.
  destruct o; cbn [dstep writes fst snd]; intros H; try reflexivity; try discriminate H;
    repeat match goal with
           | H : context [match ?x with _ => _ end] |- _ => destruct x eqn:?; cbn [fst snd writes negb] in *
           | |- context [match ?x with _ => _ end] => destruct x eqn:?; cbn [fst snd writes negb] in *
           end; try reflexivity; try discriminate.
Qed.

(* every operation returns what the dict returns and leaves the dict's contents *)
Theorem file_refines_dict fs o :
  snd (file_step fs o) = snd (dstep (asdict fs) o) /\
  asdict (fst (file_step fs o)) = fst (dstep (asdict fs) o).
Proof.
  unfold file_step. destruct (dstep (asdict fs) o) as [m' r] eqn:E. cbn [fst snd]. split; [reflexivity|].
  destruct (writes o r) eqn:W; [apply asdict_save|].
  assert (H : fst (dstep (asdict fs) o) = asdict fs) by (apply nowrite_same; rewrite E; exact W).
  rewrite E in H. cbn in H. now rewrite H.
Qed.

Theorem file_run_refines_dict ops fs : asdict (file_run fs ops) = drun (asdict fs) ops.
Proof.
  revert fs. induction ops as [|o r IH]; intros fs; [reflexivity|].
  unfold file_run, drun. cbn [fold_left]. fold (file_run (fst (file_step fs o)) r). fold (drun (fst (dstep (asdict fs) o)) r).
  rewrite IH. now destruct (file_refines_dict fs o) as [_ ->].
Qed.

(* a failing operation (KeyError) leaves the file untouched *)
Theorem file_failed_op_unchanged fs o : snd (file_step fs o) = RKeyError -> fst (file_step fs o) = fs.
Proof.
  unfold file_step. destruct (dstep (asdict fs) o) as [m' r] eqn:E. cbn [fst snd]. intros ->.
  destruct o; cbn [writes]; try reflexivity; cbn [dstep] in E;
    repeat (match type of E with context [match ?x with _ => _ end] => destruct x end); inversion E.
Qed.

(* ---------------------------------------------------------------- crash atomicity (C13) *)
(* the states a crash can leave: after any prefix of the actions, the last write possibly cut short *)
Fixpoint crash_states (fs : ffs) (l : list faction) : list ffs :=
  match l with
  | [] => [fs]
  | a :: r =>
      fs :: match a with
            | AWriteTmp _ => [fapply fs (AWriteTmp FJunk)]     (* killed in the middle of the write *)
            | _ => []
            end ++ crash_states (fapply fs a) r
  end.

Theorem file_crash_atomic fs m : forall st, In st (crash_states fs (save m)) ->
  asdict st = asdict fs \/ asdict st = m.
Proof.
  intros st H. cbn in H. destruct H as [<-|[<-|[<-|[<-|[]]]]]; auto.
Qed.

(* ... for every mutating operation of the mapping protocol: a new process reads the old or the new dict *)
Theorem file_op_crash_atomic fs o : forall st,
  In st (if writes o (snd (dstep (asdict fs) o)) then crash_states fs (save (fst (dstep (asdict fs) o))) else [fs]) ->
  asdict st = asdict fs \/ asdict st = fst (dstep (asdict fs) o).
Proof.
  intros st. destruct (writes o (snd (dstep (asdict fs) o))).
  - apply file_crash_atomic.
  - intros [<-|[]]. now left.
Qed.

(* the protocol before the repair is NOT crash atomic: after os.remove and before os.renames the
   archive is gone and a new process reads {} *)
Theorem file_old_protocol_refuted :
  exists fs m st, In st (crash_states fs (save_old m)) /\ asdict st <> asdict fs /\ asdict st <> m.
Proof.
  exists (mkF (Some (FGood [(1, 10)])) []), [(1, 10); (2, 20)].
  exists (mkF None [FGood [(1, 10); (2, 20)]]). cbn. repeat split; try discriminate. tauto.
Qed.

(* ---------------------------------------------------------------- concurrent readers / openers (C14) *)
(* a reader (or a process that merely opens the archive) performs only asdict; whenever it is
   scheduled during a save it sees a complete earlier or later dictionary, and since it performs no
   action on the file system it cannot make a completed write disappear *)
Theorem file_reader_sees_complete fs m n :
  asdict (frun fs (firstn n (save m))) = asdict fs \/ asdict (frun fs (firstn n (save m))) = m.
Proof. destruct n as [|[|[|n]]]; cbn; auto. Qed.

Theorem file_old_protocol_reader_refuted :
  exists fs m n, asdict (frun fs (firstn n (save_old m))) <> asdict fs /\ asdict (frun fs (firstn n (save_old m))) <> m.
Proof. exists (mkF (Some (FGood [(1, 10)])) []), [(1, 10); (2, 20)], 2%nat. cbn. split; discriminate. Qed.

(* opening leaves the contents alone, and a crash while opening is harmless *)
Theorem file_open_same fs : asdict (file_open fs) = asdict fs.
Proof. reflexivity. Qed.

Theorem file_open_crash_atomic fs st : In st (crash_states fs (save (asdict fs))) -> asdict st = asdict fs.
Proof. intros H. apply file_crash_atomic in H. tauto. Qed.

(* ... but an opener is a writer: interleaved with a real writer it puts back what it read before
   (a lost write) - the known finding recorded for C14 *)
Theorem file_opener_loses_write_refuted :
  exists fs m, let opened_late := frun (frun fs (save m)) (save (asdict fs)) in
               asdict opened_late <> m.
Proof. exists (mkF (Some (FGood [(1, 10)])) []), [(1, 10); (2, 20)]. cbn. discriminate. Qed.
