(* M7 (directory, protocol level): the file-system actions of dir_archive._store / _rmdir
   (_archives.py:531-541, 604-660) and what a crash - or a reader scheduled - between two of them sees.
   One directory per key name; temporary directories (K_.I_<random>) are not listed. *)
From Klepto Require Import OMap.
From Coq Require Import Lia.

Inductive dname := NEntry (n : key) | NTemp (t : Z).
(* a directory holding its files (the key and the value), or one with a file missing *)
Inductive dcont := Complete (k : key) (v : val) | Partial.
Definition dfs := dname -> option dcont.

Definition dname_eqb (a b : dname) : bool :=
  match a, b with
  | NEntry x, NEntry y => Z.eqb x y
  | NTemp x, NTemp y => Z.eqb x y
  | _, _ => false
  end.

Lemma dname_eqb_eq a b : dname_eqb a b = true <-> a = b.
Proof.
  destruct a, b; cbn; split; intros H; try discriminate; try (apply Z.eqb_eq in H; now subst);
    inversion H; apply Z.eqb_refl.
Qed.

Definition dput (fs : dfs) (n : dname) (c : option dcont) : dfs := fun m => if dname_eqb m n then c else fs m.

Inductive daction :=
| MkTemp (t : Z)                         (* mkdir K_.I_t *)
| Fill (t : Z) (k : key) (v : val)       (* write the output (and input) file into it *)
| MoveAside (n : key) (t : Z)            (* rename K_n -> K_.I_t (fails when K_n is missing) *)
| RmTemp (t : Z)                         (* rmtree K_.I_t *)
| MoveIn (t : Z) (n : key)               (* rename K_.I_t -> K_n (fails when K_n exists and is not empty) *)
| RmFile (n : key)                       (* unlink a file of the LISTED entry K_n (the protocol before the repair) *)
| RmDir (n : key).                       (* rmdir K_n *)

Definition dapply (fs : dfs) (a : daction) : dfs :=
  match a with
  | MkTemp t => dput fs (NTemp t) (Some Partial)
  | Fill t k v => dput fs (NTemp t) (Some (Complete k v))
  | MoveAside n t => match fs (NEntry n) with
                     | Some c => dput (dput fs (NEntry n) None) (NTemp t) (Some c)
                     | None => fs
                     end
  | RmTemp t => dput fs (NTemp t) None
  | MoveIn t n => match fs (NTemp t), fs (NEntry n) with
                  | Some c, None => dput (dput fs (NTemp t) None) (NEntry n) (Some c)
                  | _, _ => fs
                  end
  | RmFile n => match fs (NEntry n) with Some _ => dput fs (NEntry n) (Some Partial) | None => fs end
  | RmDir n => dput fs (NEntry n) None
  end.

Definition drun (fs : dfs) (l : list daction) : dfs := fold_left dapply l fs.

(* what a process that opens the archive sees under entry name n; reading a Partial entry fails *)
Definition entry (fs : dfs) (n : key) : option dcont := fs (NEntry n).
Definition readable (fs : dfs) : Prop := forall n, entry fs n <> Some Partial.

(* the protocols *)
Definition store (n k : key) (v : val) (t t2 : Z) : list daction :=
  [MkTemp t; Fill t k v; MoveAside n t2; RmTemp t2; MoveIn t n].
Definition remove (n : key) (t : Z) : list daction := [MoveAside n t; RmTemp t].
(* before the repair *)
Definition remove_old (n : key) : list daction := [RmFile n; RmDir n].
Definition store_old (n k : key) (v : val) (t : Z) : list daction :=
  [MkTemp t; Fill t k v; RmFile n; RmDir n; MoveIn t n].

Ltac name_cases :=
  repeat match goal with
         | |- context [dname_eqb ?a ?b] => let E := fresh "E" in destruct (dname_eqb a b) eqn:E
         | H : context [dname_eqb ?a ?b] |- _ => let E := fresh "E" in destruct (dname_eqb a b) eqn:E
         end.

Lemma neq_entry n n' : n' <> n -> dname_eqb (NEntry n') (NEntry n) = false.
Proof. intros H. cbn. now apply Z.eqb_neq. Qed.

(* ---------------------------------------------------------------- completed operations *)
Theorem store_completes fs n k v t t2 : t <> t2 -> fs (NTemp t2) = None ->
  entry (drun fs (store n k v t t2)) n = Some (Complete k v) /\
  forall n', n' <> n -> entry (drun fs (store n k v t t2)) n' = entry fs n'.
Proof.
  intros Ht H2. unfold store, drun, entry. cbn [fold_left dapply].
  assert (Et : Z.eqb t t2 = false) by now apply Z.eqb_neq.
  assert (Et' : Z.eqb t2 t = false) by (apply Z.eqb_neq; congruence).
  split; [|intros n' Hn; pose proof (neq_entry n n' Hn) as En];
    unfold dput; cbn [dname_eqb]; rewrite ?Z.eqb_refl, ?Et, ?Et'; cbn;
    destruct (fs (NEntry n)) eqn:Eo; cbn [dname_eqb]; rewrite ?Z.eqb_refl, ?Et, ?Et', ?Eo; cbn;
    rewrite ?Z.eqb_refl, ?Et, ?Et', ?Eo; cbn; rewrite ?Z.eqb_refl; cbn; try reflexivity;
    try (cbn in En; rewrite ?En; cbn; rewrite ?En; reflexivity).
Qed.

Theorem remove_completes fs n t :
  entry (drun fs (remove n t)) n = None /\ forall n', n' <> n -> entry (drun fs (remove n t)) n' = entry fs n'.
Proof.
  unfold remove, drun, entry. cbn [fold_left dapply]. split; [|intros n' Hn; pose proof (neq_entry n n' Hn) as En];
    destruct (fs (NEntry n)) eqn:Eo; unfold dput; cbn [dname_eqb]; rewrite ?Z.eqb_refl; cbn; auto;
    cbn in En; rewrite ?En; reflexivity.
Qed.

(* ---------------------------------------------------------------- crashes: any prefix of the actions *)
(* (a write cut short leaves the temporary directory Partial, the state MkTemp already produced) *)
Theorem store_crash fs n k v t t2 i : t <> t2 -> readable fs ->
  let st := drun fs (firstn i (store n k v t t2)) in
  readable st /\
  (forall n', n' <> n -> entry st n' = entry fs n') /\
  (entry st n = entry fs n \/ entry st n = Some (Complete k v) \/ entry st n = None).
Proof.
  intros Ht Hr. cbv zeta.
  assert (Et : Z.eqb t t2 = false) by now apply Z.eqb_neq.
  assert (Et' : Z.eqb t2 t = false) by (apply Z.eqb_neq; congruence).
  assert (G : forall st : dfs, (forall m, st (NEntry m) = fs (NEntry m) \/ (m = n /\ (st (NEntry m) = Some (Complete k v) \/ st (NEntry m) = None))) ->
     readable st /\ (forall n', n' <> n -> entry st n' = entry fs n') /\
     (entry st n = entry fs n \/ entry st n = Some (Complete k v) \/ entry st n = None)).
  { intros st H. split; [|split].
    - intros m. unfold entry. destruct (H m) as [->|[_ [->| ->]]]; [apply Hr|discriminate|discriminate].
    - intros n' Hn. unfold entry. destruct (H n') as [E|[E _]]; [exact E|contradiction].
    - unfold entry. destruct (H n) as [E|[_ E]]; tauto. }
  apply G. intros m. unfold store.
  destruct (Z.eqb m n) eqn:Em.
  - apply Z.eqb_eq in Em. subst m.
    destruct i as [|[|[|[|[|i]]]]]; cbn [firstn drun fold_left dapply]; rewrite ?firstn_nil; cbn [fold_left]; unfold dput; cbn [dname_eqb]; auto;
      destruct (fs (NEntry n)) eqn:Eo;
      repeat (cbn; rewrite ?Z.eqb_refl, ?Et, ?Et', ?Eo); cbn; auto 6.
  - left.
    destruct i as [|[|[|[|[|i]]]]]; cbn [firstn drun fold_left dapply]; rewrite ?firstn_nil; cbn [fold_left]; unfold dput; cbn [dname_eqb]; auto;
      destruct (fs (NEntry n)) eqn:Eo;
      repeat (cbn; rewrite ?Z.eqb_refl, ?Et, ?Et', ?Eo, ?Em); cbn; auto.
Qed.

(* a key that was not there before is either still absent or complete: atomic *)
Corollary store_new_key_crash_atomic fs n k v t t2 i : t <> t2 -> readable fs -> entry fs n = None ->
  let st := drun fs (firstn i (store n k v t t2)) in
  readable st /\ (forall n', n' <> n -> entry st n' = entry fs n') /\
  (entry st n = entry fs n \/ entry st n = Some (Complete k v)).
Proof.
  intros Ht Hr Hn. cbv zeta. destruct (store_crash fs n k v t t2 i Ht Hr) as (R & O & [E|[E|E]]); repeat split; auto.
  left. now rewrite E, Hn.
Qed.

Theorem remove_crash_atomic fs n t i : readable fs ->
  let st := drun fs (firstn i (remove n t)) in
  readable st /\ (forall n', n' <> n -> entry st n' = entry fs n') /\ (entry st n = entry fs n \/ entry st n = None).
Proof.
  intros Hr. cbv zeta. unfold remove.
  destruct i as [|[|i]]; cbn [firstn drun fold_left dapply]; [split; [exact Hr|]; split; auto| |].
  - destruct (fs (NEntry n)) eqn:Eo.
    + split; [|split].
      * intros m. unfold entry, dput. cbn [dname_eqb]. destruct (Z.eqb m n); [discriminate|apply Hr].
      * intros n' Hn. unfold entry, dput. cbn [dname_eqb]. apply Z.eqb_neq in Hn. now rewrite Hn.
      * right. unfold entry, dput. cbn [dname_eqb]. now rewrite Z.eqb_refl.
    + split; [exact Hr|]. split; auto.
  - assert (E : firstn i (@nil daction) = []) by now destruct i. rewrite E.
    destruct (fs (NEntry n)) eqn:Eo; cbn [fold_left dapply].
    + split; [|split].
      * intros m. unfold entry, dput. cbn [dname_eqb]. destruct (Z.eqb m n); [discriminate|apply Hr].
      * intros n' Hn. unfold entry, dput. cbn [dname_eqb]. apply Z.eqb_neq in Hn. now rewrite Hn.
      * right. unfold entry, dput. cbn [dname_eqb]. now rewrite Z.eqb_refl.
    + split; [|split].
      * intros m. unfold entry, dput. cbn [dname_eqb]. apply Hr.
      * intros n' Hn. reflexivity.
      * left. reflexivity.
Qed.

(* ---------------------------------------------------------------- what is NOT atomic *)
(* overwriting an existing key: between the move aside and the move in, the key is absent -
   neither its previous value nor the new one (known finding K2) *)
Theorem store_overwrite_window_refuted :
  exists fs n k v t t2 i, t <> t2 /\ readable fs /\
    let st := drun fs (firstn i (store n k v t t2)) in
    entry st n <> entry fs n /\ entry st n <> Some (Complete k v).
Proof.
  exists (dput (fun _ => None) (NEntry 1) (Some (Complete 1 10))), 1, 1, 11, 100, 101, 3%nat.
  split; [lia|]. split.
  - intros m. unfold entry, dput. cbn. destruct (Z.eqb m 1); discriminate.
  - cbn. split; discriminate.
Qed.

(* the protocol before the repair: a crash in the middle of a removal leaves a listed entry that
   cannot be read - every listing of the archive then fails *)
Theorem remove_old_refuted :
  exists fs n i, readable fs /\ ~ readable (drun fs (firstn i (remove_old n))).
Proof.
  exists (dput (fun _ => None) (NEntry 1) (Some (Complete 1 10))), 1, 1%nat. split.
  - intros m. unfold entry, dput. cbn. destruct (Z.eqb m 1); discriminate.
  - intros H. apply (H 1). reflexivity.
Qed.

(* ---------------------------------------------------------------- concurrent processes (C14) *)
(* the names an action reads or writes *)
Definition touches (a : daction) : list dname :=
  match a with
  | MkTemp t | Fill t _ _ | RmTemp t => [NTemp t]
  | MoveAside n t | MoveIn t n => [NEntry n; NTemp t]
  | RmFile n | RmDir n => [NEntry n]
  end.

Definition agree_on (S : dname -> Prop) (a b : dfs) : Prop := forall m, S m -> a m = b m.

(* an action only depends on, and only changes, the names it touches *)
Lemma dapply_local (S : dname -> Prop) a fs fs' :
  (forall m, In m (touches a) -> S m) -> agree_on S fs fs' -> agree_on S (dapply fs a) (dapply fs' a).
Proof.
  intros Ht Ha m Hm. destruct a; cbn [dapply touches] in *;
    repeat match goal with
           | |- context [fs (?c ?x)] => rewrite (Ha (c x)) by (apply Ht; cbn; auto)
           end;
    repeat match goal with |- context [match ?x with _ => _ end] => destruct x end;
    unfold dput; repeat match goal with |- context [dname_eqb ?a ?b] => destruct (dname_eqb a b) end;
    auto.
Qed.

Lemma dapply_frame (S : dname -> Prop) a fs :
  (forall m, In m (touches a) -> ~ S m) -> agree_on S (dapply fs a) fs.
Proof.
  intros Ht m Hm. destruct a; cbn [dapply touches] in *;
    repeat match goal with |- context [match ?x with _ => _ end] => destruct x end;
    unfold dput;
    repeat match goal with
           | |- context [dname_eqb ?a ?b] =>
               let E := fresh "E" in destruct (dname_eqb a b) eqn:E;
               [apply dname_eqb_eq in E; subst; exfalso; eapply Ht; [|exact Hm]; cbn; auto|]
           end; reflexivity.
Qed.

(* all interleavings of two action sequences *)
Inductive interleave : list daction -> list daction -> list daction -> Prop :=
| il_nil : interleave [] [] []
| il_left a l1 l2 l : interleave l1 l2 l -> interleave (a :: l1) l2 (a :: l)
| il_right b l1 l2 l : interleave l1 l2 l -> interleave l1 (b :: l2) (b :: l).

(* a process whose names nobody else touches ends as if it had run alone - whatever the schedule *)
Theorem interleave_isolated (S : dname -> Prop) l1 l2 l :
  interleave l1 l2 l ->
  (forall a, In a l1 -> forall m, In m (touches a) -> S m) ->
  (forall b, In b l2 -> forall m, In m (touches b) -> ~ S m) ->
  forall fs fs', agree_on S fs fs' -> agree_on S (drun fs l) (drun fs' l1).
Proof.
  induction 1 as [|a l1 l2 l H IH|b l1 l2 l H IH]; intros H1 H2 fs fs' Ha.
  - exact Ha.
  - unfold drun. cbn [fold_left]. apply IH.
    + intros a' Hin. apply H1. now right.
    + exact H2.
    + apply dapply_local; [apply H1; now left|exact Ha].
  - unfold drun. cbn [fold_left]. apply IH.
    + exact H1.
    + intros b' Hin. apply H2. now right.
    + intros m Hm. rewrite (dapply_frame S b fs (H2 b (or_introl eq_refl)) m Hm). now apply Ha.
Qed.

(* two writers storing under different names, with their own temporary names: under EVERY interleaving
   of their file-system actions both entries end up complete and no other entry changes *)
Theorem concurrent_stores_both_land fs n1 k1 v1 t1 u1 n2 k2 v2 t2 u2 l :
  n1 <> n2 -> NoDup [t1; u1; t2; u2] -> fs (NTemp u1) = None -> fs (NTemp u2) = None ->
  interleave (store n1 k1 v1 t1 u1) (store n2 k2 v2 t2 u2) l ->
  entry (drun fs l) n1 = Some (Complete k1 v1) /\ entry (drun fs l) n2 = Some (Complete k2 v2) /\
  forall n', n' <> n1 -> n' <> n2 -> entry (drun fs l) n' = entry fs n'.
Proof.
  intros Hn Hd Hu1 Hu2 Hi.
  assert (Ht : t1 <> u1 /\ t1 <> t2 /\ t1 <> u2 /\ u1 <> t2 /\ u1 <> u2 /\ t2 <> u2).
  { inversion Hd as [|x1 r1 N1 D1]; subst. inversion D1 as [|x2 r2 N2 D2]; subst. inversion D2 as [|x3 r3 N3 D3]; subst.
    cbn in N1, N2, N3. repeat split; intro; subst; tauto. }
  destruct Ht as (A & B & C & D & E & F).
  set (S1 := fun m => m = NEntry n1 \/ m = NTemp t1 \/ m = NTemp u1).
  set (S2 := fun m => m = NEntry n2 \/ m = NTemp t2 \/ m = NTemp u2).
  assert (L1 : forall a, In a (store n1 k1 v1 t1 u1) -> forall m, In m (touches a) -> S1 m).
  { intros a Ha m Hm. unfold store in Ha. cbn in Ha. unfold S1.
    repeat (destruct Ha as [<-|Ha]; [cbn in Hm; intuition|]). destruct Ha. }
  assert (L2 : forall a, In a (store n2 k2 v2 t2 u2) -> forall m, In m (touches a) -> S2 m).
  { intros a Ha m Hm. unfold store in Ha. cbn in Ha. unfold S2.
    repeat (destruct Ha as [<-|Ha]; [cbn in Hm; intuition|]). destruct Ha. }
  assert (X12 : forall m, S1 m -> ~ S2 m).
  { unfold S1, S2. intros m [->|[->| ->]] [H|[H|H]]; inversion H; congruence. }
  assert (X21 : forall m, S2 m -> ~ S1 m) by (intros m H2 H1; exact (X12 m H1 H2)).
  assert (I1 := interleave_isolated S1 _ _ _ Hi L1 (fun b Hb m Hm => X21 m (L2 b Hb m Hm)) fs fs (fun m _ => eq_refl)).
  assert (Hi' : interleave (store n2 k2 v2 t2 u2) (store n1 k1 v1 t1 u1) l).
  { clear - Hi. induction Hi; constructor; assumption. }
  assert (I2 := interleave_isolated S2 _ _ _ Hi' L2 (fun b Hb m Hm => X12 m (L1 b Hb m Hm)) fs fs (fun m _ => eq_refl)).
  destruct (store_completes fs n1 k1 v1 t1 u1 A Hu1) as [C1 _].
  destruct (store_completes fs n2 k2 v2 t2 u2 F Hu2) as [C2 _].
  split; [|split].
  - unfold entry. rewrite (I1 (NEntry n1)) by (unfold S1; auto). exact C1.
  - unfold entry. rewrite (I2 (NEntry n2)) by (unfold S2; auto). exact C2.
  - intros n' N1 N2. unfold entry.
    set (S3 := fun m => m = NEntry n').
    assert (I3 := interleave_isolated S3 [] l l).
    assert (Hl : interleave [] l l) by (clear; induction l; constructor; assumption).
    specialize (I3 Hl (fun a Ha => match Ha with end)).
    assert (F3 : forall b, In b l -> forall m, In m (touches b) -> ~ S3 m).
    { intros b Hb m Hm Hs. unfold S3 in Hs. subst m.
      assert (Hb' : In b (store n1 k1 v1 t1 u1) \/ In b (store n2 k2 v2 t2 u2)).
      { clear - Hi Hb. induction Hi; cbn in *; intuition. }
      destruct Hb' as [Hb'|Hb'].
      - specialize (L1 b Hb' _ Hm). unfold S1 in L1. destruct L1 as [L|[L|L]]; inversion L; congruence.
      - specialize (L2 b Hb' _ Hm). unfold S2 in L2. destruct L2 as [L|[L|L]]; inversion L; congruence. }
    specialize (I3 F3 fs fs (fun m _ => eq_refl)). apply (I3 (NEntry n')). reflexivity.
Qed.

(* a reader (lookup, listing) scheduled at ANY point of a store of a new key finds every listed entry
   complete, every other entry unchanged, and the new key absent or complete: this is store_crash read
   as "state after a prefix".  What a reader can NOT rely on: an entry it has just listed may be gone
   when it opens it (moved aside by a concurrent overwrite or delete) *)
Theorem reader_list_then_lookup_race_refuted :
  exists fs n t, readable fs /\ entry fs n <> None /\ entry (drun fs (firstn 1 (remove n t))) n = None.
Proof.
  exists (dput (fun _ => None) (NEntry 1) (Some (Complete 1 10))), 1, 100. split; [|split].
  - intros m. unfold entry, dput. cbn. destruct (Z.eqb m 1); discriminate.
  - cbn. discriminate.
  - reflexivity.
Qed.
