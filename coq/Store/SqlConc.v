(* C14 for stores whose operations are atomic (the SQL table: every klepto operation is one
   transaction, which the harness checks with sqlite's trace callback; sqlite serialises
   transactions - that part is trusted).  A schedule is then ANY sequence of whole operations
   tagged with the process that issues them, for any number of processes.

   Isolation: if the operations of process p only name keys in a region S and nobody else names a
   key of S, then along every schedule p is answered exactly what it would be answered running
   alone, and the contents on S end up exactly as if p had run alone: no lost, phantom or
   corrupted entry.  Proved once for the dict specification and transferred to every backend that
   refines it operation by operation (SQL rows; the dict itself).  Models and proofs; the property
   statements are in Props/C14.v. *)
From Klepto Require Import OMap OMapFacts DictSpec DictFacts Backends.

(* the keys an operation names; len / iteration / popitem / clear are about the whole store *)
Definition local (P : key -> Prop) (o : dop) : Prop :=
  match o with
  | DSet k _ | DGet k | DDel k | DContains k | DGetD k _ | DPop k _ | DSetdefault k _ => P k
  | DPopkeys ks _ => forall k, In k ks -> P k
  | DUpdate m2 => forall k, In k (keys m2) -> P k
  | DLen | DItems | DPopitem _ | DClear => False
  end.

Definition sched := list (nat * dop).
Definition mine (p : nat) (l : sched) : list dop := map snd (filter (fun qo => Nat.eqb (fst qo) p) l).

Section Region.
Variable S : key -> Prop.

Definition agree_on (a b : omap) : Prop := forall k, S k -> get a k = get b k.

Lemma agree_refl a : agree_on a a.
Proof. intros k _. reflexivity. Qed.

Lemma agree_trans a b c : agree_on a b -> agree_on b c -> agree_on a c.
Proof. intros H1 H2 k Hk. rewrite (H1 k Hk). apply H2, Hk. Qed.

Lemma agree_same a b : same_contents a b -> agree_on a b.
Proof. intros H k _. apply H. Qed.

Lemma popkeys_local d ks : forall a b acc, (forall k, In k ks -> S k) -> agree_on a b ->
  match popkeys_go a ks d acc, popkeys_go b ks d acc with
  | Some (a', va), Some (b', vb) => agree_on a' b' /\ va = vb
  | None, None => True
  | _, _ => False
  end.
Proof.
  induction ks as [|k r IH]; intros a b acc Hks H; cbn [popkeys_go]; [auto|].
  rewrite <- (H k (Hks k (or_introl eq_refl))). destruct (get a k) as [v|].
  - apply IH; [intros; apply Hks; now right|]. intros k' Hk'. rewrite !get_del. destruct (Z.eqb k' k); auto.
  - destruct d as [dv|]; [|exact I]. apply IH; [intros; apply Hks; now right|exact H].
Qed.

Lemma popkeys_frame d ks : forall a acc a' vs, (forall k, In k ks -> ~ S k) ->
  popkeys_go a ks d acc = Some (a', vs) -> agree_on a' a.
Proof.
  induction ks as [|k r IH]; intros a acc a' vs Hks E; cbn [popkeys_go] in E.
  - injection E as <- _. apply agree_refl.
  - destruct (get a k) as [v|].
    + eapply agree_trans; [eapply IH; [intros; apply Hks; now right|exact E]|].
      intros k' Hk'. rewrite get_del. destruct (Z.eqb k' k) eqn:Ek; [|reflexivity].
      apply Z.eqb_eq in Ek. subst. exfalso. exact (Hks k (or_introl eq_refl) Hk').
    + destruct d as [dv|]; [|discriminate]. eapply IH; [intros; apply Hks; now right|exact E].
Qed.

(* an operation that names only keys of S: its answer and its effect on S depend on S alone *)
Lemma dstep_local a b o : local S o -> agree_on a b ->
  snd (dstep a o) = snd (dstep b o) /\ agree_on (fst (dstep a o)) (fst (dstep b o)).
Proof.
  intros L H. destruct o; cbn [local] in L; try contradiction; cbn [dstep].
  - split; [reflexivity|]. intros k' Hk'. cbn [fst]. rewrite !get_set. destruct (Z.eqb k' k); auto.
  - rewrite <- (H k L). destruct (get a k); auto.
  - rewrite <- (H k L). destruct (get a k); [|auto]. split; [reflexivity|]. cbn [fst].
    intros k' Hk'. rewrite !get_del. destruct (Z.eqb k' k); auto.
  - unfold mem_key. rewrite <- (H k L). auto.
  - rewrite <- (H k L). auto.
  - rewrite <- (H k L). destruct (get a k).
    + split; [reflexivity|]. cbn [fst]. intros k' Hk'. rewrite !get_del. destruct (Z.eqb k' k); auto.
    + destruct d; auto.
  - pose proof (popkeys_local d ks a b [] L H) as P.
    destruct (popkeys_go a ks d []) as [[a' va]|], (popkeys_go b ks d []) as [[b' vb]|]; try contradiction.
    + destruct P as [P ->]. auto.
    + auto.
  - rewrite <- (H k L). destruct (get a k); [auto|]. destruct v; [|auto].
    split; [reflexivity|]. cbn [fst]. intros k' Hk'. rewrite !get_set. destruct (Z.eqb k' k); auto.
  - split; [reflexivity|]. cbn [fst]. intros k' Hk'. rewrite !get_update_last. destruct (last_match m k'); auto.
Qed.

(* an operation that names no key of S leaves S alone *)
Lemma dstep_frame a o : local (fun k => ~ S k) o -> agree_on (fst (dstep a o)) a.
Proof.
  intros L. destruct o; cbn [local] in L; try contradiction; cbn [dstep].
  - intros k' Hk'. cbn [fst]. rewrite get_set. destruct (Z.eqb k' k) eqn:E; [|reflexivity].
    apply Z.eqb_eq in E. subst. contradiction.
  - destruct (get a k); apply agree_refl.
  - destruct (get a k); [|apply agree_refl]. intros k' Hk'. cbn [fst]. rewrite get_del.
    destruct (Z.eqb k' k) eqn:E; [|reflexivity]. apply Z.eqb_eq in E. subst. contradiction.
  - apply agree_refl.
  - apply agree_refl.
  - destruct (get a k).
    + intros k' Hk'. cbn [fst]. rewrite get_del.
      destruct (Z.eqb k' k) eqn:E; [|reflexivity]. apply Z.eqb_eq in E. subst. contradiction.
    + destruct d; apply agree_refl.
  - destruct (popkeys_go a ks d []) as [[a' va]|] eqn:E; [|apply agree_refl].
    cbn [fst]. eapply popkeys_frame; eauto.
  - destruct (get a k); [apply agree_refl|]. destruct v; [|apply agree_refl].
    intros k' Hk'. cbn [fst]. rewrite get_set. destruct (Z.eqb k' k) eqn:E; [|reflexivity].
    apply Z.eqb_eq in E. subst. contradiction.
  - intros k' Hk'. cbn [fst]. apply get_update_notin. intro Hin. exact (L k' Hin Hk').
Qed.

Lemma local_not_items P o m x : local P o -> snd (dstep m o) <> RItems x.
Proof.
  destruct o; cbn [local dstep]; try contradiction; intros _;
    repeat match goal with |- context [match ?y with _ => _ end] => destruct y end; cbn; discriminate.
Qed.

Lemma out_equiv_eq x y : out_equiv x y -> (forall m, y <> RItems m) -> x = y.
Proof. destruct x, y; cbn; auto. intros _ H. exfalso. eapply H. reflexivity. Qed.

(* any backend that refines the dict operation by operation *)
Section Backend.
Variable T : Type.
Variable step : T -> dop -> T * dout.
Variable abs : T -> omap.
Hypothesis refines : forall t o,
  same_contents (abs (fst (step t o))) (fst (dstep (abs t) o)) /\ out_equiv (snd (step t o)) (snd (dstep (abs t) o)).

Lemma step_local t u o : local S o -> agree_on (abs t) (abs u) ->
  snd (step t o) = snd (step u o) /\ agree_on (abs (fst (step t o))) (abs (fst (step u o))).
Proof.
  intros L H. destruct (refines t o) as [Ct Ot], (refines u o) as [Cu Ou].
  destruct (dstep_local _ _ o L H) as [Eo Ea]. split.
  - rewrite (out_equiv_eq _ _ Ot (fun m => local_not_items S o (abs t) m L)).
    rewrite (out_equiv_eq _ _ Ou (fun m => local_not_items S o (abs u) m L)). exact Eo.
  - eapply agree_trans; [apply agree_same, Ct|]. eapply agree_trans; [exact Ea|].
    apply agree_same, same_contents_sym, Cu.
Qed.

Lemma step_frame t o : local (fun k => ~ S k) o -> agree_on (abs (fst (step t o))) (abs t).
Proof.
  intros L. destruct (refines t o) as [Ct _].
  eapply agree_trans; [apply agree_same, Ct|]. now apply dstep_frame.
Qed.

(* the whole schedule; the answers handed to process p are collected in order *)
Fixpoint run_sched (p : nat) (t : T) (l : sched) : T * list dout :=
  match l with
  | [] => (t, [])
  | (q, o) :: r =>
      let t' := fst (step t o) in
      let rest := run_sched p t' r in
      (fst rest, if Nat.eqb q p then snd (step t o) :: snd rest else snd rest)
  end.

Fixpoint run_alone (t : T) (ops : list dop) : T * list dout :=
  match ops with
  | [] => (t, [])
  | o :: r => let rest := run_alone (fst (step t o)) r in (fst rest, snd (step t o) :: snd rest)
  end.

Definition disciplined (p : nat) (l : sched) : Prop :=
  forall q o, In (q, o) l -> if Nat.eqb q p then local S o else local (fun k => ~ S k) o.

Theorem isolated p l : disciplined p l -> forall t u, agree_on (abs t) (abs u) ->
  snd (run_sched p t l) = snd (run_alone u (mine p l)) /\
  agree_on (abs (fst (run_sched p t l))) (abs (fst (run_alone u (mine p l)))).
Proof.
  induction l as [|[q o] r IH]; intros D t u H; [cbn; auto|].
  assert (Dr : disciplined p r) by (intros q' o' Hin; apply D; now right).
  pose proof (D q o (or_introl eq_refl)) as Dq.
  unfold mine. cbn [run_sched filter fst]. destruct (Nat.eqb q p) eqn:E.
  - cbn [map snd run_alone]. destruct (step_local t u o Dq H) as [Eo Ea].
    destruct (IH Dr _ _ Ea) as [I1 I2]. unfold mine in I1, I2. cbn [fst snd]. rewrite Eo, I1. auto.
  - cbn [fst snd]. apply (IH Dr). eapply agree_trans; [now apply step_frame|exact H].
Qed.

End Backend.
End Region.

(* ---- instances ---- *)

Definition sql_sched (p : nat) (r : rows) (l : sched) := run_sched rows sql_step p r l.
Definition sql_alone (r : rows) (ops : list dop) := run_alone rows sql_step r ops.

Theorem sql_isolated (S : key -> Prop) p l : disciplined S p l -> forall r r',
  (forall k, S k -> sql_select r k = sql_select r' k) ->
  snd (sql_sched p r l) = snd (sql_alone r' (mine p l)) /\
  forall k, S k -> sql_select (fst (sql_sched p r l)) k = sql_select (fst (sql_alone r' (mine p l))) k.
Proof.
  intros D r r' H.
  destruct (isolated S rows sql_step sql_abs sql_refines_dict p l D r r') as [I1 I2].
  - intros k Hk. rewrite !sql_get. now apply H.
  - split; [exact I1|]. intros k Hk. rewrite <- !sql_get. now apply I2.
Qed.

(* two writers on different keys, any schedule of their whole operations: both land, nothing else moves *)
Theorem sql_two_writers r k1 v1 k2 v2 : k1 <> k2 ->
  forall l, l = [(1%nat, DSet k1 v1); (2%nat, DSet k2 v2)] \/ l = [(2%nat, DSet k2 v2); (1%nat, DSet k1 v1)] ->
  let r' := fst (sql_sched 0%nat r l) in
  sql_select r' k1 = Some v1 /\ sql_select r' k2 = Some v2 /\
  forall k, k <> k1 -> k <> k2 -> sql_select r' k = sql_select r k.
Proof.
  intros N l [->| ->]; cbn; unfold sql_select; rewrite !last_match_app; cbn;
    rewrite ?Z.eqb_refl; (destruct (Z.eqb k1 k2) eqn:E1; [apply Z.eqb_eq in E1; contradiction|]);
    (destruct (Z.eqb k2 k1) eqn:E2; [apply Z.eqb_eq in E2; congruence|]);
    (split; [reflexivity|split; [reflexivity|]]); intros k H1 H2;
    (destruct (Z.eqb k k1) eqn:E3; [apply Z.eqb_eq in E3; contradiction|]);
    (destruct (Z.eqb k k2) eqn:E4; [apply Z.eqb_eq in E4; contradiction|]);
    rewrite !last_match_app; cbn; rewrite ?E3, ?E4; reflexivity.
Qed.

(* the discipline is necessary: a process that clears the table (a whole-store operation) makes a
   concurrent writer's entry disappear although both run to completion *)
Theorem sql_clear_not_isolated :
  exists l, mine 1%nat l = [DSet 1 10; DGet 1] /\
    snd (sql_alone [] (mine 1%nat l)) = [RUnit; RVal (Some 10)] /\
    snd (sql_sched 1%nat [] l) = [RUnit; RKeyError].
Proof. exists [(1%nat, DSet 1 10); (2%nat, DClear); (1%nat, DGet 1)]. vm_compute. auto. Qed.
