(* M7 (sql table): every operation is a sequence of statements, each committed on its own
   (_archives.py: execute + commit per statement).  A crash leaves a prefix of the statements. *)
From Klepto Require Import OMap OMapFacts DictSpec DictFacts Backends.
From Coq Require Import Lia.

Inductive stmt := SIns (k : key) (v : val) | SDel (k : key).
Definition stmt_key (s : stmt) : key := match s with SIns k _ => k | SDel k => k end.
Definition sapply (r : rows) (s : stmt) : rows :=
  match s with SIns k v => r ++ [(k, v)] | SDel k => sql_delete r k end.
Definition srun (r : rows) (l : list stmt) : rows := fold_left sapply l r.

(* the statements an operation issues *)
Definition sql_stmts (r : rows) (o : dop) : list stmt :=
  match o with
  | DSet k v => [SIns k v]
  | DDel k | DPopitem k => match sql_select r k with Some _ => [SDel k] | None => [] end
  | DPop k d => match sql_select r k with
                | Some _ => [SDel k]
                | None => match d with Some _ => [SDel k] | None => [] end
                end
  | DPopkeys ks d => match popkeys_go (sql_abs r) ks d [] with Some _ => map SDel ks | None => [] end
  | DSetdefault k v => match sql_select r k with
                       | Some _ => []
                       | None => match v with Some w => [SIns k w] | None => [] end
                       end
  | DUpdate m2 => map (fun kv => SIns (fst kv) (snd kv)) m2
  | DClear => map SDel (keys (sql_abs r))
  | DGet _ | DContains _ | DLen | DItems | DGetD _ _ => []
  end.

Lemma srun_dels ks : forall r, srun r (map SDel ks) = fold_left sql_delete ks r.
Proof. induction ks as [|k ks IH]; intros r; [reflexivity|]. cbn. apply IH. Qed.

Lemma srun_ins m2 : forall r, srun r (map (fun kv => SIns (fst kv) (snd kv)) m2) = r ++ m2.
Proof.
  induction m2 as [|[k v] m2 IH]; intros r; cbn; [now rewrite app_nil_r|].
  unfold srun in IH. rewrite IH, <- app_assoc. reflexivity.
Qed.

(* the model's step IS the execution of its statements *)
Theorem sql_step_is_stmts r o : fst (sql_step r o) = srun r (sql_stmts r o).
Proof.
  destruct o as [k v|k|k|k| | |k d|k d|pick|ks d|k v|m2| ]; cbn [sql_step sql_stmts]; try reflexivity.
  - destruct (sql_select r k); reflexivity.
  - destruct (sql_select r k); reflexivity.
  - destruct (sql_select r k); [reflexivity|]. destruct d; reflexivity.
  - destruct (sql_select r pick); reflexivity.
  - destruct (popkeys_go (sql_abs r) ks d []) as [[m' vs]|]; cbn [fst]; [now rewrite srun_dels|reflexivity].
  - destruct (sql_select r k); [reflexivity|]. destruct v; reflexivity.
  - cbn [fst]. now rewrite srun_ins.
  - cbn [fst]. now rewrite srun_dels.
Qed.

(* what a key reads after a run of statements: decided by the LAST statement that names it *)
Fixpoint last_stmt (l : list stmt) (k : key) : option stmt :=
  match l with
  | [] => None
  | s :: r => match last_stmt r k with
              | Some s' => Some s'
              | None => if Z.eqb (stmt_key s) k then Some s else None
              end
  end.

Lemma select_app_one r k v k' : sql_select (r ++ [(k, v)]) k' = if Z.eqb k' k then Some v else sql_select r k'.
Proof.
  unfold sql_select. rewrite last_match_app. cbn [last_match].
  destruct (Z.eqb k' k); [reflexivity|]. reflexivity.
Qed.

Lemma select_srun l : forall r k,
  sql_select (srun r l) k = match last_stmt l k with
                            | Some (SIns _ v) => Some v
                            | Some (SDel _) => None
                            | None => sql_select r k
                            end.
Proof.
  induction l as [|s l IH]; intros r k; [reflexivity|].
  cbn [srun fold_left last_stmt]. fold (srun (sapply r s) l). rewrite IH.
  destruct (last_stmt l k) as [s'|]; [reflexivity|].
  destruct s as [k0 v0|k0]; cbn [sapply stmt_key].
  - rewrite select_app_one, Z.eqb_sym. destruct (Z.eqb k0 k); reflexivity.
  - unfold sql_select. rewrite last_match_filter, Z.eqb_sym. destruct (Z.eqb k0 k); reflexivity.
Qed.

Lemma last_stmt_firstn_none l k : last_stmt l k = None -> forall n, last_stmt (firstn n l) k = None.
Proof.
  induction l as [|s l IH]; intros H n; [now destruct n|].
  destruct n as [|n]; [reflexivity|]. cbn [firstn last_stmt] in *.
  destruct (last_stmt l k) eqn:E; [discriminate|]. rewrite (IH eq_refl n).
  destruct (Z.eqb (stmt_key s) k); [discriminate|reflexivity].
Qed.

(* deletions only (del, pop, popkeys, clear): whatever prefix was committed, a key reads its previous
   value or is gone - and it can only be gone if the operation deletes it *)
Theorem sql_deletes_crash_prefix r ks n k :
  let r' := srun r (firstn n (map SDel ks)) in
  sql_select r' k = sql_select r k \/ (In k ks /\ sql_select r' k = None).
Proof.
  cbv zeta. rewrite select_srun.
  destruct (last_stmt (firstn n (map SDel ks)) k) as [s|] eqn:E; [|now left].
  assert (G : forall l, last_stmt l k = Some s -> In s l /\ stmt_key s = k).
  { clear. induction l as [|x l IH]; cbn [last_stmt]; [discriminate|].
    destruct (last_stmt l k) eqn:El.
    - intros H; inversion H; subst. destruct (IH eq_refl) as [A B]. split; [now right|exact B].
    - destruct (Z.eqb (stmt_key x) k) eqn:Ek; [|discriminate]. intros H; inversion H; subst.
      apply Z.eqb_eq in Ek. split; [now left|exact Ek]. }
  destruct (G _ E) as [Hin Hk].
  assert (Hin' : In s (map SDel ks)).
  { clear - Hin. revert n Hin. generalize (map SDel ks) as l. induction l as [|x l IH]; intros [|n] H; cbn [firstn] in H; try destruct H.
    - subst. now left.
    - right. eapply IH; eauto. }
  apply in_map_iff in Hin'. destruct Hin' as (k0 & <- & Hk0). cbn in Hk. subst k0. right. split; [exact Hk0|reflexivity].
Qed.

(* every operation of the mapping protocol: after any committed prefix of its statements every key
   reads its previous value, or a value the operation writes for it, or (if the operation deletes
   it) nothing; keys the operation does not name are unchanged *)
Theorem sql_op_crash_prefix r o n k :
  let r' := srun r (firstn n (sql_stmts r o)) in
  sql_select r' k = sql_select r k \/
  (exists v, In (SIns k v) (sql_stmts r o) /\ sql_select r' k = Some v) \/
  (In (SDel k) (sql_stmts r o) /\ sql_select r' k = None).
Proof.
  cbv zeta. rewrite select_srun.
  destruct (last_stmt (firstn n (sql_stmts r o)) k) as [s|] eqn:E; [|now left].
  assert (G : forall l, last_stmt l k = Some s -> In s l /\ stmt_key s = k).
  { clear. induction l as [|x l IH]; cbn [last_stmt]; [discriminate|].
    destruct (last_stmt l k) eqn:El.
    - intros H; inversion H; subst. destruct (IH eq_refl) as [A B]. split; [now right|exact B].
    - destruct (Z.eqb (stmt_key x) k) eqn:Ek; [|discriminate]. intros H; inversion H; subst.
      apply Z.eqb_eq in Ek. split; [now left|exact Ek]. }
  destruct (G _ E) as [Hin Hk].
  assert (Hin' : In s (sql_stmts r o)).
  { clear - Hin. revert n Hin. generalize (sql_stmts r o) as l. induction l as [|x l IH]; intros [|n] H; cbn [firstn] in H; try destruct H.
    - subst. now left.
    - right. eapply IH; eauto. }
  destruct s as [k0 v0|k0]; cbn in Hk; subst k0; right; [left; exists v0|right]; split; auto.
Qed.

Corollary sql_untouched_key_unchanged r o n k :
  (forall s, In s (sql_stmts r o) -> stmt_key s <> k) ->
  sql_select (srun r (firstn n (sql_stmts r o))) k = sql_select r k.
Proof.
  intros H. destruct (sql_op_crash_prefix r o n k) as [E|[(v & Hin & _)|(Hin & _)]]; [exact E| |];
    exfalso; eapply H; eauto.
Qed.
