#!/bin/bash
# Build the Coq development (full .vo build) and the extracted-model driver.  Offline, from files on disk.
set -e
cd "$(dirname "$0")"
J=${VERIF_JOBS:-16}
cd coq
[ -f Makefile ] && [ Makefile -nt _CoqProject ] || coq_makefile -f _CoqProject -o Makefile >/dev/null
timeout 1800 make -j"$J" >../build/make.log 2>&1 || { tail -30 ../build/make.log; echo "COQ BUILD FAILED"; exit 2; }
cd ../build
if [ ! -f driver ] || [ -n "$(find ../coq ../ml -newer driver \( -name '*.v' -o -name '*.ml' \) | head -1)" ]; then
  cp ../coq/Extract.v . && timeout 600 coqc -Q ../coq/Base Klepto -Q ../coq/Cache Klepto -Q ../coq/Keys Klepto -Q ../coq/Store Klepto -Q ../coq/Props Klepto Extract.v >extract.log 2>&1 || { tail -20 extract.log; echo "EXTRACTION FAILED"; exit 2; }
  cp ../ml/ext.ml ../ml/driver.ml .
  timeout 600 ocamlfind ocamlopt -w -a -O2 model.mli model.ml ext.ml driver.ml -o driver >ocaml.log 2>&1 \
   || timeout 600 ocamlfind ocamlopt -w -a model.mli model.ml ext.ml driver.ml -o driver >ocaml.log 2>&1 || { tail -20 ocaml.log; echo "OCAML BUILD FAILED"; exit 2; }
fi
echo "build ok"
