(* Driver for the extracted models: one command per input line, one result line per command.
   Everything crossing the boundary is a decimal integer; the Python harness owns the mapping
   between Python objects and these integers. *)
open Model

let rec pos_of_int n =
  if n = 1 then XH else if n land 1 = 0 then XO (pos_of_int (n lsr 1)) else XI (pos_of_int (n lsr 1))
let z_of_int n = if n = 0 then Z0 else if n > 0 then Zpos (pos_of_int n) else Zneg (pos_of_int (-n))
let rec int_of_pos = function XH -> 1 | XO p -> 2 * int_of_pos p | XI p -> 2 * int_of_pos p + 1
let int_of_z = function Z0 -> 0 | Zpos p -> int_of_pos p | Zneg p -> - (int_of_pos p)
let zi s = z_of_int (int_of_string s)
let iz z = string_of_int (int_of_z z)

let words s = List.filter (fun w -> w <> "") (String.split_on_char ' ' (String.trim s))

let rec pairs = function
  | [] -> []
  | a :: b :: r -> (zi a, zi b) :: pairs r
  | _ -> failwith "odd pair list"

let show_map m = String.concat "," (List.map (fun (k, v) -> iz k ^ ":" ^ iz v) m)
let show_list l = String.concat "," (List.map iz l)
let show_arch = function ANull -> "-" | AStore m -> "[" ^ show_map m ^ "]"
let parse_arch = function "-" :: _ -> ANull | ws -> AStore (pairs ws)

let alg_of = function
  | "0" -> NO | "1" -> INF | "2" -> LFU | "3" -> LRU | "4" -> MRU | "5" -> RR
  | s -> failwith ("alg " ^ s)
let bool_of s = s = "1"
let kr_of kind k = match kind with "0" -> KOk (zi k) | "1" -> KFail | _ -> KUnhash
let fr_of kind v = match kind with "0" -> Ret (zi v) | _ -> Raise

let exn_s = function
  | EUser -> "User" | ETypeError -> "TypeError" | EIndexError -> "IndexError"
  | EKeyError -> "KeyError" | EValueError -> "ValueError"
let out_s = function
  | ORet (v, ev) -> "ret " ^ iz v ^ " " ^ iz ev
  | ORaise (e, ev) -> "raise " ^ exn_s e ^ " " ^ iz ev
  | OUnit -> "unit"
  | OBool b -> if b then "bool 1" else "bool 0"
  | OKey k -> "key " ^ iz k
  | OVal v -> "val " ^ iz v
  | OInfo (h, m, l, mx, sz) -> String.concat " " ("info" :: List.map iz [h; m; l; mx; sz])
let cout_s = function
  | CUnit -> "unit" | CBool b -> if b then "bool 1" else "bool 0"
  | CVal v -> "val " ^ iz v | CKeyError -> "raise KeyError" | CValueError -> "raise ValueError"

let show_cs c = "mem " ^ show_map c.mem ^ " ; arch " ^ show_arch c.arch ^ " ; swp " ^ show_arch c.swp
let show_state s =
  show_cs s.cs ^ " ; q " ^ show_list s.queue ^ " ; rc " ^ show_map s.refc ^ " ; uc " ^ show_map s.usec
  ^ " ; st " ^ iz s.hits ^ " " ^ iz s.misses ^ " " ^ iz s.loads

let cfg = ref { c_alg = INF; c_max = Z0; c_purge = false; c_safe = false; c_direct = false }
let st = ref (init_state { mem = []; arch = ANull; swp = ANull })
let cst = ref { mem = []; arch = ANull; swp = ANull }

let do_op o =
  let (s', out) = step !cfg !st o in
  st := s';
  print_string (out_s out ^ " ; " ^ show_state s' ^ "\n")
let do_cop o =
  let (c', out) = cstep !cst o in
  cst := c';
  print_string (cout_s out ^ " ; " ^ show_cs c' ^ "\n")

let optflag = function "-" -> None | "1" -> Some true | _ -> Some false

let handle line =
  match words line with
  | [] -> ()
  | "cfg" :: [a; m; p; s; d] ->
      let (a', m') = (alg_of a, zi m) in
      cfg := { c_alg = a'; c_max = m'; c_purge = bool_of p; c_safe = bool_of s; c_direct = bool_of d };
      st := init_state { mem = []; arch = ANull; swp = ANull };
      print_string "ok\n"
  | "dispatch" :: [a; m] ->
      let (a', m') = dispatch (alg_of a) (if m = "-" then MNone else MInt (zi m)) in
      let ai = (match a' with NO -> 0 | INF -> 1 | LFU -> 2 | LRU -> 3 | MRU -> 4 | RR -> 5) in
      print_string (string_of_int ai ^ " " ^ iz m' ^ "\n")
  | "set" :: _ ->
      (* set mem .. ; arch .. ; swp .. ; q .. ; rc .. ; uc .. ; st h m l   (only the fields given) *)
      let body = String.sub line 3 (String.length line - 3) in
      List.iter (fun part ->
        match words part with
        | "mem" :: ws -> st := w_mem !st (pairs ws)
        | "arch" :: ws -> st := w_cs !st (c_with_arch !st.cs (parse_arch ws))
        | "swp" :: ws -> st := w_cs !st { mem = !st.cs.mem; arch = !st.cs.arch; swp = parse_arch ws }
        | "q" :: ws -> st := w_queue !st (List.map zi ws)
        | "rc" :: ws -> st := w_refc !st (pairs ws)
        | "uc" :: ws -> st := w_usec !st (pairs ws)
        | "st" :: [h; m; l] ->
            let s = !st in
            st := { cs = s.cs; queue = s.queue; refc = s.refc; usec = s.usec; hits = zi h; misses = zi m; loads = zi l }
        | [] -> ()
        | w :: _ -> failwith ("set: unknown field " ^ w)) (String.split_on_char ';' body);
      print_string "ok\n"
  | "call" :: [kk; k; fk; v; orc] -> do_op (Call (kr_of kk k, fr_of fk v, zi orc))
  | "lookup" :: [kk; k] -> do_op (Lookup (kr_of kk k))
  | "keyof" :: [kk; k] -> do_op (KeyOf (kr_of kk k))
  | "info" :: [] -> do_op Info
  | "load" :: ws -> do_op (Load (List.map zi ws))
  | "dump" :: ws -> do_op (Dump (List.map zi ws))
  | "clear" :: [k] -> do_op (Clear (bool_of k))
  | "archived" :: [f] -> do_op (Archived (optflag f))
  | "setarch" :: ws -> do_op (SetArchive (parse_arch ws))
  | "archset" :: [k; v] -> do_op (ArchSet (zi k, zi v))
  | "memclear" :: _ -> do_op MemClear
  (* stand-alone klepto.archives.cache *)
  | "c.init" :: ws -> cst := { mem = []; arch = parse_arch ws; swp = ANull }; print_string "ok\n"
  | "c.state" :: _ ->
      let body = String.sub line 7 (String.length line - 7) in
      List.iter (fun part ->
        match words part with
        | "mem" :: ws -> cst := { mem = pairs ws; arch = !cst.arch; swp = !cst.swp }
        | "arch" :: ws -> cst := { mem = !cst.mem; arch = parse_arch ws; swp = !cst.swp }
        | "swp" :: ws -> cst := { mem = !cst.mem; arch = !cst.arch; swp = parse_arch ws }
        | [] -> ()
        | w :: _ -> failwith ("c.state: unknown field " ^ w)) (String.split_on_char ';' body);
      print_string "ok\n"
  | "c.set" :: [k; v] -> do_cop (CSet (zi k, zi v))
  | "c.del" :: [k] -> do_cop (CDel (zi k))
  | "c.pop" :: [k] -> do_cop (CPop (zi k))
  | "c.clear" :: [] -> do_cop CClear
  | "c.update" :: ws -> do_cop (CUpdate (pairs ws))
  | "c.load" :: ws -> do_cop (CLoad (List.map zi ws))
  | "c.dump" :: ws -> do_cop (CDump (List.map zi ws))
  | "c.sync" :: [b] -> do_cop (CSync (bool_of b))
  | "c.archived" :: [f] -> do_cop (CArchived (optflag f))
  | "c.open" :: ws -> do_cop (COpen (parse_arch ws))
  | "c.drop" :: [] -> do_cop CDrop
  | "c.setarchive" :: ws ->
      (* the property setter  cache.archive = a  (CacheDict.c_set_archive), not an operation of cstep *)
      let c' = c_set_archive !cst (parse_arch ws) in
      cst := c'; print_string ("unit ; " ^ show_cs c' ^ "\n")
  | "c.archset" :: [k; v] -> do_cop (CArchSet (zi k, zi v))
  | "c.archdel" :: [k] -> do_cop (CArchDel (zi k))
  | w :: _ ->
      if not (Ext.handle line) then (print_string ("error unknown command " ^ w ^ "\n"))

let () =
  try
    while true do
      let line = input_line stdin in
      (try handle line with e -> print_string ("error " ^ Printexc.to_string e ^ "\n"));
    done
  with End_of_file -> ()
