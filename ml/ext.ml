(* further model commands: keys (bind / keygen / keymap); s-expression syntax.
   returns false when the command is unknown *)
open Model

let rec pos_of_int n =
  if n = 1 then XH else if n land 1 = 0 then XO (pos_of_int (n lsr 1)) else XI (pos_of_int (n lsr 1))
let z_of_int n = if n = 0 then Z0 else if n > 0 then Zpos (pos_of_int n) else Zneg (pos_of_int (-n))
let rec int_of_pos = function XH -> 1 | XO p -> 2 * int_of_pos p | XI p -> 2 * int_of_pos p + 1
let int_of_z = function Z0 -> 0 | Zpos p -> int_of_pos p | Zneg p -> - (int_of_pos p)
let rec nat_of_int n = if n <= 0 then O else S (nat_of_int (n - 1))
let rec int_of_nat = function O -> 0 | S n -> 1 + int_of_nat n

(* ---- s-expressions *)
type sx = A of string | L of sx list

let tokenize (s : string) : string list =
  let toks = ref [] and cur = Buffer.create 16 in
  let flush () = if Buffer.length cur > 0 then (toks := Buffer.contents cur :: !toks; Buffer.clear cur) in
  String.iter (fun c ->
    match c with
    | '(' | ')' -> flush (); toks := String.make 1 c :: !toks
    | ' ' | '\t' | '\n' | '\r' -> flush ()
    | _ -> Buffer.add_char cur c) s;
  flush ();
  List.rev !toks

let rec parse_one = function
  | "(" :: rest -> let (items, rest') = parse_list rest in (L items, rest')
  | ")" :: _ -> failwith "unexpected )"
  | a :: rest -> (A a, rest)
  | [] -> failwith "unexpected end"
and parse_list = function
  | ")" :: rest -> ([], rest)
  | [] -> failwith "missing )"
  | toks -> let (x, rest) = parse_one toks in let (xs, rest') = parse_list rest in (x :: xs, rest')

let parse_all (s : string) : sx list =
  let rec go toks = match toks with [] -> [] | _ -> let (x, rest) = parse_one toks in x :: go rest in
  go (tokenize s)

let int_of_sx = function A a -> int_of_string a | _ -> failwith "int expected"
let str_of_sx = function L l -> List.map (fun x -> z_of_int (int_of_sx x)) l | _ -> failwith "str expected"

let rec val_of_sx = function
  | A "n" -> VNone | A "u" -> VNull | A "e" -> VSent
  | L [A "i"; x] -> VInt (z_of_int (int_of_sx x))
  | L [A "b"; x] -> VBool (int_of_sx x <> 0)
  | L [A "f"; x] -> VFlt (z_of_int (int_of_sx x))
  | L (A "s" :: l) -> VStr (List.map (fun x -> z_of_int (int_of_sx x)) l)
  | L [A "t"; x] -> VTy (z_of_int (int_of_sx x))
  | L (A "T" :: l) -> VTup (List.map val_of_sx l)
  | L (A "D" :: l) -> VDict (List.map kv_of_sx l)
  | _ -> failwith "value expected"
and kv_of_sx = function
  | L [k; v] -> (str_of_sx k, val_of_sx v)
  | _ -> failwith "pair expected"

let show_str s = "(" ^ String.concat " " (List.map (fun z -> string_of_int (int_of_z z)) s) ^ ")"
let rec show_val = function
  | VNone -> "n" | VNull -> "u" | VSent -> "e"
  | VInt z -> "(i " ^ string_of_int (int_of_z z) ^ ")"
  | VBool b -> if b then "(b 1)" else "(b 0)"
  | VFlt q -> "(f " ^ string_of_int (int_of_z q) ^ ")"
  | VStr s -> "(s" ^ String.concat "" (List.map (fun z -> " " ^ string_of_int (int_of_z z)) s) ^ ")"
  | VTy t -> "(t " ^ string_of_int (int_of_z t) ^ ")"
  | VTup l -> "(T" ^ String.concat "" (List.map (fun v -> " " ^ show_val v) l) ^ ")"
  | VDict l -> "(D" ^ String.concat "" (List.map (fun (k, v) -> " (" ^ show_str k ^ " " ^ show_val v ^ ")") l) ^ ")"
let show_kmap m = "(" ^ String.concat " " (List.map (fun (k, v) -> "(" ^ show_str k ^ " " ^ show_val v ^ ")") m) ^ ")"

(* a parameter: (name) or (name default) *)
let param_of_sx = function
  | L [k] -> (str_of_sx k, None)
  | L [k; v] -> (str_of_sx k, Some (val_of_sx v))
  | _ -> failwith "param expected"
(* (sig (params...) varargs (kwonly...) varkw) *)
let sig_of_sx = function
  | L [L ps; va; L ks; vk] ->
      { s_params = List.map param_of_sx ps; s_varargs = int_of_sx va <> 0;
        s_kwonly = List.map param_of_sx ks; s_varkw = int_of_sx vk <> 0 }
  | _ -> failwith "sig expected"
(* ((pos...) ((name v)...)) *)
let call_of_sx = function
  | L [L pos; L kws] -> (List.map val_of_sx pos, List.map kv_of_sx kws)
  | _ -> failwith "call expected"
(* ignore spec: list of (n <str>) | (x <int>) *)
let ign_of_sx = function
  | L l -> List.map (function
      | L [A "n"; s] -> IName (str_of_sx s)
      | L [A "x"; i] -> IIdx (nat_of_int (int_of_sx i))
      | _ -> failwith "ignore item expected") l
  | _ -> failwith "ignore list expected"
(* (typed flat mark) *)
let kcfg_of_sx = function
  | L [t; f; m] -> { k_typed = int_of_sx t <> 0; k_flat = int_of_sx f <> 0; k_mark = int_of_sx m <> 0 }
  | _ -> failwith "kcfg expected"

(* ---- rounding model *)
let ckind_of = function
  | "l" -> KList | "t" -> KTuple | "s" -> KSet | "f" -> KFrozen | "b" -> KBytes | "o" -> KOpaque
  | k -> failwith ("ckind " ^ k)
let ckind_s = function KList -> "l" | KTuple -> "t" | KSet -> "s" | KFrozen -> "f" | KBytes -> "b" | KOpaque -> "o"
let rec rval_of_sx = function
  | A "N" -> RNone
  | L [A "F"; x] -> RFloat (z_of_int (int_of_sx x))
  | L [A "I"; x] -> RInt (z_of_int (int_of_sx x))
  | L [A "B"; x] -> RBool (int_of_sx x <> 0)
  | L [A "S"; x] -> RStr (z_of_int (int_of_sx x))
  | L [A "O"; x] -> RObj (z_of_int (int_of_sx x))
  | L (A "Q" :: A k :: l) -> RSeq (ckind_of k, List.map rval_of_sx l)
  | L (A "D" :: l) -> RDict (List.map (function L [k; v] -> (rval_of_sx k, rval_of_sx v) | _ -> failwith "dict entry") l)
  | _ -> failwith "rval expected"
let rec show_rval = function
  | RNone -> "N"
  | RFloat z -> "(F " ^ string_of_int (int_of_z z) ^ ")"
  | RInt z -> "(I " ^ string_of_int (int_of_z z) ^ ")"
  | RBool b -> if b then "(B 1)" else "(B 0)"
  | RStr z -> "(S " ^ string_of_int (int_of_z z) ^ ")"
  | RObj z -> "(O " ^ string_of_int (int_of_z z) ^ ")"
  | RSeq (k, l) -> "(Q " ^ ckind_s k ^ String.concat "" (List.map (fun v -> " " ^ show_rval v) l) ^ ")"
  | RDict l -> "(D" ^ String.concat "" (List.map (fun (k, v) -> " (" ^ show_rval k ^ " " ^ show_rval v ^ ")") l) ^ ")"

(* ---- dict specification *)
let dst : (z * z) list ref = ref []
let show_dout = function
  | RUnit -> "unit"
  | RVal (Some v) -> "val " ^ string_of_int (int_of_z v)
  | RVal None -> "val none"
  | RBool0 b -> if b then "bool 1" else "bool 0"
  | RLen n -> "len " ^ string_of_int (int_of_z n)
  | RItems m -> String.trim ("items " ^ String.concat " " (List.map (fun (k, v) -> string_of_int (int_of_z k) ^ ":" ^ string_of_int (int_of_z v)) m))
  | RVals l -> String.trim ("vals " ^ String.concat " " (List.map (function Some v -> string_of_int (int_of_z v) | None -> "none") l))
  | RPair (k, v) -> "pair " ^ string_of_int (int_of_z k) ^ " " ^ string_of_int (int_of_z v)
  | RKeyError -> "keyerror"
let sst : (z * z) list ref = ref []     (* the rows of the SQL-table model *)
let dirst : dentry list ref = ref []     (* the entry directories of the directory model *)
let dmode = ref 0                         (* 0: dict specification, 1: SQL-table model (Backends.sql_step), 2: directory model (DirStep.dir_step) *)
let dop o =
  if !dmode = 0 then (let (m', r) = dstep !dst o in dst := m'; print_string (show_dout r ^ "\n"))
  else if !dmode = 1 then begin
    (* the statements the operation issues (SqlCrash.sql_stmts), then the step itself *)
    let st = sql_stmts !sst o in
    let shows = function SIns (k, v) -> Printf.sprintf "ins %d %d" (int_of_z k) (int_of_z v) | SDel k -> Printf.sprintf "del %d" (int_of_z k) in
    let (m', r) = sql_step !sst o in sst := m';
    print_string (show_dout r ^ " | " ^ String.concat " ; " (List.map shows st) ^ "\n") end
  else (let (m', r) = dir_step (fun k -> k) !dirst o in dirst := m'; print_string (show_dout r ^ "\n"))
let ints ws = List.map (fun w -> z_of_int (int_of_string w)) ws
let rec zpairs = function a :: b :: r -> (a, b) :: zpairs r | _ -> []

let handle (line : string) : bool =
  let line = String.trim line in
  let cmd, rest =
    match String.index_opt line ' ' with
    | Some i -> (String.sub line 0 i, String.sub line i (String.length line - i))
    | None -> (line, "") in
  match cmd with
  | "k.bind" ->
      (match parse_all rest with
       | [sg; cl] ->
           (match bind (sig_of_sx sg) (call_of_sx cl) with
            | None -> print_string "none\n"
            | Some b -> print_string ("some " ^ show_kmap b.b_named ^ " (T" ^
                                      String.concat "" (List.map (fun v -> " " ^ show_val v) b.b_extra_pos) ^ ") " ^
                                      show_kmap b.b_extra_kw ^ "\n"))
       | _ -> print_string "error k.bind syntax\n");
      true
  | "k.keygen" ->
      (match parse_all rest with
       | [sg; ig; cl] ->
           let (a, m) = keygen (sig_of_sx sg) (ign_of_sx ig) (call_of_sx cl) in
           print_string ("(T" ^ String.concat "" (List.map (fun v -> " " ^ show_val v) a) ^ ") " ^ show_kmap m ^ "\n")
       | _ -> print_string "error k.keygen syntax\n");
      true
  | "k.key" ->
      (match parse_all rest with
       | [sg; ig; kc; cl] ->
           print_string (show_val (key_of (sig_of_sx sg) (ign_of_sx ig) (kcfg_of_sx kc) (call_of_sx cl)) ^ "\n")
       | _ -> print_string "error k.key syntax\n");
      true
  | "r.call" ->
      (* r.call <tol_given> <mode s|d|h> ((id rid) ...) (args...) ((name v)...) *)
      (match parse_all rest with
       | [tg; A m; L tbl; L args; L kws] ->
           let table = List.map (function L [a; b] -> (int_of_sx a, int_of_sx b) | _ -> failwith "table") tbl in
           let rnd z = (match List.assoc_opt (int_of_z z) table with Some r -> z_of_int r | None -> z) in
           let mode = (match m with "s" -> MSimple | "d" -> MDeep | _ -> MShallow) in
           let kwl = List.map (function L [k; v] -> (z_of_int (int_of_sx k), rval_of_sx v) | _ -> failwith "kw") kws in
           let (a, k) = round_call rnd (int_of_sx tg <> 0) mode (List.map rval_of_sx args) kwl in
           print_string ("(" ^ String.concat " " (List.map show_rval a) ^ ") (" ^
                         String.concat " " (List.map (fun (n, v) -> "(" ^ string_of_int (int_of_z n) ^ " " ^ show_rval v ^ ")") k) ^ ")\n")
       | _ -> print_string "error r.call syntax\n");
      true
  | "k.validate" ->
      (match parse_all rest with
       | [sg; cl] ->
           let sg' = sig_of_sx sg and cl' = call_of_sx cl in
           print_string ((if validate_ok sg' cl' then "1" else "0") ^ " " ^ (if bind_ok sg' cl' then "1" else "0") ^ "\n")
       | _ -> print_string "error k.validate syntax\n");
      true
  | "d.reset" -> dst := []; sst := []; dirst := []; print_string "ok\n"; true
  | "d.mode" -> dmode := (match String.trim rest with "sql" -> 1 | "dir" -> 2 | _ -> 0); print_string "ok\n"; true
  | "d.entries" ->
      let l = List.sort compare (List.map (fun e -> (int_of_z e.e_name, int_of_z e.e_key, int_of_z e.e_val)) !dirst) in
      print_string (String.trim ("entries " ^ String.concat " " (List.map (fun (n, k, v) -> Printf.sprintf "%d:%d:%d" n k v) l)) ^ "\n"); true
  | "d.rows" -> print_string (String.trim ("rows " ^ String.concat " " (List.map (fun (k, v) -> string_of_int (int_of_z k) ^ ":" ^ string_of_int (int_of_z v)) !sst)) ^ "\n"); true
  | "d.set" -> (match ints (tokenize rest) with [k; v] -> dop (DSet (k, v)) | _ -> print_string "error\n"); true
  | "d.get" -> (match ints (tokenize rest) with [k] -> dop (DGet k) | _ -> print_string "error\n"); true
  | "d.del" -> (match ints (tokenize rest) with [k] -> dop (DDel k) | _ -> print_string "error\n"); true
  | "d.contains" -> (match ints (tokenize rest) with [k] -> dop (DContains k) | _ -> print_string "error\n"); true
  | "d.len" -> dop DLen; true
  | "d.items" -> dop DItems; true
  | "d.getd" -> (match ints (tokenize rest) with [k; d] -> dop (DGetD (k, Some d)) | _ -> print_string "error\n"); true
  | "d.pop" -> (match ints (tokenize rest) with [k] -> dop (DPop (k, None)) | _ -> print_string "error\n"); true
  | "d.popd" -> (match ints (tokenize rest) with [k; d] -> dop (DPop (k, Some (Some d))) | _ -> print_string "error\n"); true
  | "d.popkeys" -> dop (DPopkeys (ints (tokenize rest), None)); true
  | "d.popkeysd" -> (match ints (tokenize rest) with d :: ks -> dop (DPopkeys (ks, Some (Some d))) | _ -> print_string "error\n"); true
  | "d.setdefault" -> (match ints (tokenize rest) with [k; v] -> dop (DSetdefault (k, Some v)) | _ -> print_string "error\n"); true
  | "d.update" -> dop (DUpdate (zpairs (ints (tokenize rest)))); true
  | "d.clear" -> dop DClear; true
  | "k.eq" ->
      (match parse_all rest with
       | [a; b] -> print_string (if py_eqb (val_of_sx a) (val_of_sx b) then "1\n" else "0\n")
       | _ -> print_string "error k.eq syntax\n");
      true
  | _ -> false
