(* further model commands (keys, rounding, validate, stores); returns false when the command is unknown *)
let handle (_ : string) : bool = false
