"""C04: persistence - a fresh handle or process sees exactly what was written.
Random write histories on every persistent archive configuration; after every step a fresh handle in the
same process, and regularly a fresh PROCESS, must read exactly the reference dict (values equal to
what was stored when it was stored, keys of their original type).  Handles rebuilt from the reported
state, copied and unpickled must address the same store with the same settings; a decorated function
re-created on the archive (same process / new process) must be served from it.
Python's bytecode cache is ON in this check (as in normal use): source-mode archives are read by import.
Coq side: handles hold no contents (coq/Store/Persist.v, Props/C04.v)."""
import json
import multiprocessing as mp
import os
import random
import sys
import time

sys.path.insert(0, os.path.dirname(os.path.abspath(__file__)))
from common import Scratch, Report, seed, tier, write_evidence, load_findings
import coqcheck
import crashlib as cl
import store_child as sc
from check_c03 import same_dict, same_val

CONFIGS = ['file-pickle', 'file-pickle-p2', 'file-json', 'file-source', 'dir-pickle', 'dir-fast', 'dir-compressed',
           'dir-memmap', 'dir-json', 'dir-source', 'sql']


import math


KEYS = {
    'pickle': [0, 1, 'a', 'b', (1, 2), (1, 'x'), b'k1', -3, 2.5, 'key with space', ('t',)],
    'json': ['a', 'b', 'c', 'k1', 'x y'],
    'source': ['a', 'b', 'k1', 0, 1, -3],
    'dir': [0, 1, 'a', 'b', (1, 2), b'k1', 'k2', 7777, ('t', 1)],
    'dirjson': ['a', 'b', 'c', 'k1', 'zz'],
    'dirsource': ['a', 'b', 'k1', 0, 1, 'x-y'],
    'sql': [0, 1, 'a', 'b', 'k1', b'kb', -3],
}


def values(kind, rng):
    base = [0, 1, -5, 'v', 'w', None, 2.5, True, 10 ** 12]
    if kind in ('pickle', 'dir'):
        base += [float('inf'), -0.0, [1, [2, 3]], (1, 'a'), {'n': [1, {'m': None}]}, b'bytes', {1, 2}, [], math.sqrt, 1e-300, 'x' * 5000]
    elif kind in ('json', 'dirjson'):
        base += [[1, [2, 3]], {'n': [1, {'m': None}]}, [], float('inf'), 'x' * 5000]
    elif kind in ('source', 'dirsource'):
        base += [[1, [2, 3]], (1, 'a'), {'n': [1]}, b'bytes', []]
    elif kind == 'sql':
        # sqlite has no boolean type: True comes back as the (equal) integer 1 - not a difference of value
        base = [v for v in base if v is not True] + [b'bytes', 'x' * 5000]
    return base


def kind_of(label):
    return {'file-pickle': 'pickle', 'file-pickle-p2': 'pickle', 'file-json': 'json', 'file-source': 'source', 'dir-pickle': 'dir',
            'dir-fast': 'dir', 'dir-compressed': 'dir', 'dir-memmap': 'dir', 'dir-json': 'dirjson', 'dir-source': 'dirsource', 'sql': 'sql'}[label]


def fresh_copy(v):
    import copy
    try:
        return copy.deepcopy(v)
    except Exception:
        return v


def gen_ops(rng, label, n):
    kind = kind_of(label)
    ks, vs = KEYS[kind], values(kind, rng)
    ops = []
    for _ in range(n):
        k = rng.choice(['set', 'set', 'set', 'del', 'update', 'pop', 'clear', 'setdefault', 'mutate', 'cached-dump', 'rewrite', 'readmutate', 'popd', 'popd'])
        if k == 'set':
            ops.append(('set', rng.choice(ks), rng.choice(vs)))
        elif k in ('del', 'pop'):
            ops.append((k, rng.choice(ks)))
        elif k == 'update':
            ops.append(('update', [(rng.choice(ks), rng.choice(vs)) for _ in range(rng.randint(1, 3))]))
        elif k == 'clear':
            if rng.random() < 0.3:
                ops.append(('clear',))
        elif k == 'setdefault':
            ops.append(('setdefault', rng.choice(ks), rng.choice(vs)))
        elif k == 'mutate':
            ops.append(('mutate', rng.choice(ks)))
        elif k == 'cached-dump':
            ops.append(('cached-dump', [(rng.choice(ks), rng.choice(vs)) for _ in range(rng.randint(1, 3))]))
        elif k == 'readmutate':
            ops.append(('readmutate',))
        elif k == 'popd':
            # pop with a default - in particular a default that IS the stored value (None, 0, '', False)
            ops.append(('popd', rng.choice(ks), rng.choice([None, 0, '', False, 'dflt'])))
        elif k == 'rewrite':
            # the same key rewritten at once with a value of the same size: what a stale cache would miss
            key = rng.choice(ks)
            ops.append(('rewrite', key, rng.randint(0, 4), rng.randint(5, 9)))
    return ops


def rng_small(i):
    return i % 2 == 0


def state_of(a):
    a = getattr(a, 'archive', a)
    return dict(a.state)


def run_history(label, ops, scratch, proc_every):
    """-> (problems, steps, process_reads)"""
    import dill
    path = scratch.new('')
    cwd = os.path.dirname(path)
    h = sc.ctor(label, path)
    ref = {}
    problems = []
    nproc = 0
    for i, op in enumerate(ops):
        k = op[0]
        try:
            if k == 'set':
                h[op[1]] = fresh_copy(op[2])
                ref[op[1]] = fresh_copy(op[2])
            elif k == 'del':
                if op[1] in ref:
                    del h[op[1]]
                    del ref[op[1]]
            elif k == 'pop':
                if op[1] in ref:
                    h.pop(op[1])
                    ref.pop(op[1])
            elif k == 'update':
                h.update(dict((a, fresh_copy(b)) for a, b in op[1]))
                ref.update(dict((a, fresh_copy(b)) for a, b in op[1]))
            elif k == 'clear':
                h.clear()
                ref.clear()
            elif k == 'setdefault':
                h.setdefault(op[1], fresh_copy(op[2]))
                ref.setdefault(op[1], fresh_copy(op[2]))
            elif k == 'mutate':
                # store a mutable value, then change the caller's object: the archive keeps the snapshot
                if kind_of(label) != 'sql':
                    v = [1, [2, 3], {'k': [4]}]
                    h[op[1]] = v
                    ref[op[1]] = [1, [2, 3], {'k': [4]}]
                    v.append(9)
                    v[1].append(7)
                    v[2]['k'].append(5)
            elif k == 'cached-dump':
                c = sc.ctor(label, path, cached=True)
                for a, b in op[1]:
                    c[a] = fresh_copy(b)
                    ref[a] = fresh_copy(b)
                c.dump()
            elif k == 'popd':
                key, dflt = op[1], op[2]
                if key in ref and rng_small(i) and kind_of(label) != 'sql' and 'json' not in label:
                    h[key] = dflt            # make the stored value the very object passed as default
                    ref[key] = dflt
                want = ref.pop(key, dflt)
                got = h.pop(key, dflt)
                if not same_val(got, want):
                    problems.append({'step': i, 'op': op, 'what': 'pop(%r, %r) returned %r, a dict returns %r' % (key, dflt, got, want)})
                    break
            elif k == 'readmutate':
                # what a read hands out is the caller's own copy: changing it changes nothing that is stored
                for key, val in list(ref.items()):
                    if isinstance(val, list):
                        got = h[key]
                        got.append('changed by the reader')
                        break
                    if isinstance(val, dict):
                        got = h[key]
                        got['changed by the reader'] = 1
                        break
            elif k == 'rewrite':
                h[op[1]] = op[2]
                sc.ctor(label, path)[op[1]]      # a reader in between
                h[op[1]] = op[3]
                ref[op[1]] = op[3]
        except Exception as e:
            problems.append({'step': i, 'op': op, 'what': '%s raised %s: %s' % (op[0], type(e).__name__, e)})
            break
        # ---- the writing handle itself, then a fresh handle in this process
        try:
            cur = dict(h.items())
            if not same_dict(cur, ref):
                problems.append({'step': i, 'op': op, 'what': 'the handle that wrote reads %s, written: %s' % (short(cur), short(ref))})
                break
        except Exception as e:
            problems.append({'step': i, 'op': op, 'what': 'the handle that wrote fails to read: %s: %s' % (type(e).__name__, e)})
            break
        try:
            fresh = sc.ctor(label, path)
            if i % 3 == 0:
                cur = dict(fresh.items())
            elif i % 3 == 1:
                # the keys only (no value is fetched) ...
                ks = list(fresh.keys())
                cur = dict((k, ref[k]) if k in ref else (k, '<unexpected key>') for k in ks)
            else:
                # ... and direct lookups without listing anything first
                cur = {}
                for k in list(ref) + [x for x in KEYS[kind_of(label)] if x not in ref][:2]:
                    if k in fresh:
                        cur[k] = fresh[k]
                if len(fresh) != len(ref):
                    cur['<len>'] = len(fresh)
            if not same_dict(cur, ref):
                problems.append({'step': i, 'op': op, 'what': 'a fresh handle in the same process (%s) reads %s, written: %s' % (
                    ('items()', 'keys()', 'direct lookups')[i % 3], short(cur), short(ref))})
                break
        except Exception as e:
            problems.append({'step': i, 'op': op, 'what': 'a fresh handle in the same process fails: %s: %s' % (type(e).__name__, e)})
            break
        # ---- a fresh process
        if proc_every and (i % proc_every == proc_every - 1 or i == len(ops) - 1):
            nproc += 1
            for mode in ([], ['cached']):
                r = cl.run_child({'config': label, 'path': path, 'action': ['read-dill'] + mode}, cwd)
                who = 'a new process' + (' (through cache.load())' if mode else '')
                if not r.get('ok'):
                    problems.append({'step': i, 'op': op, 'what': '%s fails to read the archive: %s' % (who, r.get('error'))})
                    break
                try:
                    cur = dill.loads(bytes.fromhex(r['value']))
                except Exception as e:
                    problems.append({'step': i, 'op': op, 'what': '%s: result cannot be unpickled: %s' % (who, e)})
                    break
                if not same_dict_fn(cur, ref):
                    problems.append({'step': i, 'op': op, 'what': '%s reads %s, written: %s' % (who, short(cur), short(ref))})
                    break
            if problems:
                break
    # ---- handles rebuilt from the reported state / copied / unpickled
    if not problems:
        try:
            import klepto._archives as _ar
            st = state_of(h)
            others = []
            if label.startswith('file'):
                others.append(('rebuilt from its state', lambda: _ar.file_archive(filename=st['id'], **{a: b for a, b in st.items() if a != 'id'})))
            elif label.startswith('dir'):
                others.append(('rebuilt from its state', lambda: _ar.dir_archive(dirname=st['id'], **{a: b for a, b in st.items() if a != 'id'})))
            else:
                others.append(('rebuilt from its state', lambda: _ar.sqltable_archive(database=st['root'], table=st['id'], **{a: b for a, b in st.items() if a not in ('id', 'root')})))
            others.append(('copy()', lambda: h.copy()))
            if label != 'sql':            # sqlite connections cannot be pickled: known finding K12, probed separately
                others.append(('unpickled', lambda: dill.loads(dill.dumps(h))))
                others.append(('cache unpickled', lambda: dill.loads(dill.dumps(sc.ctor(label, path, cached=True))).archive))
            for name, mk in others:
                a2 = mk()
                if state_of(a2) != st:
                    problems.append({'step': len(ops), 'op': (name,), 'what': 'the archive %s reports settings %r, the original %r' % (name, state_of(a2), st)})
                    break
                cur = dict(a2.items())
                if not same_dict(cur, ref):
                    problems.append({'step': len(ops), 'op': (name,), 'what': 'the archive %s reads %s, written: %s' % (name, short(cur), short(ref))})
                    break
                # ... and it is the same store: a write through it is seen by the original handle
                probe_key = KEYS[kind_of(label)][0]
                a2[probe_key] = 424242
                ref[probe_key] = 424242
                if not same_dict(dict(h.items()), ref):
                    problems.append({'step': len(ops), 'op': (name,), 'what': 'a write through the archive %s is not seen by the original handle' % name})
                    break
        except Exception as e:
            problems.append({'step': len(ops), 'op': ('rebuild',), 'what': 'rebuilding the archive failed: %s: %s' % (type(e).__name__, e)})
    return problems, len(ops), nproc


def same_dict_fn(a, b):
    """same_dict, except that functions are compared by behaviour (they were pickled by value)"""
    def norm(d):
        return {k: (('<fn>', v(7)) if callable(v) else v) for k, v in d.items()}
    try:
        return same_dict(norm(a), norm(b))
    except Exception:
        return False


def short(d):
    s = repr(d)
    return s if len(s) < 300 else s[:280] + '...'


# ---------------------------------------------------------------- decorated functions
def run_refunc(label, rng, scratch):
    import klepto
    import klepto.keymaps as km
    kind = kind_of(label)
    if kind == 'dirsource':
        kmname = 'hash'           # entry directories must be importable module names (K9)
    elif kind in ('json', 'dirjson', 'source'):
        kmname = 'string'
    elif kind == 'sql':
        kmname = rng.choice(['hash', 'string'])
    else:
        kmname = rng.choice(['default', 'hash', 'string', 'pickle'])
    if label.startswith('dir') and kmname in ('default',):
        kmname = 'hash'           # tuple keys print with characters a directory-per-key layout aliases (K1)
    algo = rng.choice(['lru_cache', 'lfu_cache', 'mru_cache', 'rr_cache', 'inf_cache'])
    xs = rng.sample(range(-5, 40), rng.randint(2, 8))
    path = scratch.new('')
    cwd = os.path.dirname(path)
    calls = []

    def fn(x):
        calls.append(x)
        return None if x % 3 == 0 else x * x + 1     # None is a result like any other
    keymap = {'default': None, 'hash': km.hashmap(flat=True), 'string': km.stringmap(flat=True), 'pickle': km.picklemap(flat=True)}[kmname]
    kw = {} if algo == 'inf_cache' else {'maxsize': 50}
    f = getattr(klepto, algo)(cache=sc.ctor(label, path, cached=True), keymap=keymap, **kw)(fn)
    want = [f(x) for x in xs]
    f.dump()
    desc = {'config': label, 'algo': algo, 'keymap': kmname, 'xs': xs}
    problems = []
    for use_load in (True, False):
        # same process, a new function on a new handle
        calls2 = []

        def fn2(x):
            calls2.append(x)
            return None if x % 3 == 0 else x * x + 1     # None is a result like any other
        g = getattr(klepto, algo)(cache=sc.ctor(label, path, cached=True), keymap=keymap, **kw)(fn2)
        if use_load:
            g.load()
        got = [g(x) for x in xs]
        if got != want or calls2:
            problems.append({'case': desc, 'what': 'a function re-created on the archive in the same process (%s) evaluated %d of %d calls, results %r vs %r' % (
                'after load()' if use_load else 'no load()', len(calls2), len(xs), got, want)})
        r = cl.run_child({'config': label, 'path': path, 'action': ['refunc', algo, kmname, xs, use_load]}, cwd)
        if not r.get('ok'):
            problems.append({'case': desc, 'what': 'a function re-created in a new process failed: %s' % r.get('error')})
        else:
            v = r['value']
            if v['results'] != want or v['evaluated']:
                problems.append({'case': desc, 'what': 'a function re-created on the archive in a new process (%s) evaluated %d of %d calls, results %r vs %r' % (
                    'after load()' if use_load else 'no load()', v['evaluated'], len(xs), v['results'], want)})
    return problems, desc


def _worker(args):
    sd, lo, hi, nops, proc_every = args
    sys.dont_write_bytecode = False          # as in normal use: __pycache__ next to the sources
    scratch = Scratch('klepto-c04')
    out = []
    try:
        for idx in range(lo, hi):
            rng = random.Random('C04-%d-%d' % (sd, idx))
            label = CONFIGS[idx % len(CONFIGS)]
            try:
                if idx % 5 == 4:
                    probs, desc = run_refunc(label, rng, scratch)
                    out.append({'idx': idx, 'label': label, 'kind': 'refunc', 'problems': probs, 'n': len(desc['xs']), 'nproc': 2, 'desc': desc})
                else:
                    ops = gen_ops(rng, label, rng.randint(nops // 3, nops))
                    probs, n, nproc = run_history(label, ops, scratch, proc_every)
                    out.append({'idx': idx, 'label': label, 'kind': 'history', 'problems': probs, 'n': n, 'nproc': nproc})
            except Exception as e:
                import traceback
                out.append({'idx': idx, 'label': label, 'error': '%s: %s %s' % (type(e).__name__, e, traceback.format_exc()[-300:])})
    finally:
        scratch.close()
    return out


def shrink(label, ops, proc_every):
    def bad(o):
        s = Scratch('klepto-c04')
        try:
            return bool(run_history(label, o, s, proc_every)[0])
        finally:
            s.close()
    cur = list(ops)
    n = 2
    while len(cur) >= 2:
        chunk = max(1, len(cur) // n)
        changed = False
        for i in range(0, len(cur), chunk):
            cand = cur[:i] + cur[i + chunk:]
            if cand and bad(cand):
                cur = cand
                n = max(n - 1, 2)
                changed = True
                break
        if not changed:
            if chunk == 1:
                break
            n = min(len(cur), n * 2)
    return cur


def classify_known(label, ops, problem, findings):
    import findings as fmod
    for f in findings:
        if f.get('property') == 'C04' and f.get('status') == 'known' and f.get('predicate'):
            pred = getattr(fmod, f['predicate'], None)
            if pred and pred(label, ops, problem):
                return f
    return None


def main():
    t0 = time.time()
    prop = 'C04'
    thorough = tier() == 'thorough'
    sd = seed()
    rep = Report(prop)
    findings = load_findings()
    proof_ok, pinfo = coqcheck.proof_status(prop)
    os.environ.pop('PYTHONDONTWRITEBYTECODE', None)
    os.environ['VERIF_BYTECODE'] = '1'
    n, nops, proc_every = (8000, 40, 6) if thorough else (330, 24, 8)
    results = []
    if pinfo.get('build_ok'):
        nproc = min(16, os.cpu_count() or 4)
        chunk = max(5, n // (nproc * 4))
        jobs = [(sd, lo, min(lo + chunk, n), nops, proc_every) for lo in range(0, n, chunk)]
        with mp.Pool(nproc) as pool:
            for part in pool.imap_unordered(_worker, jobs):
                results.extend(part)
    results.sort(key=lambda r: r['idx'])
    seen = set()
    steps = procs = 0
    per = {}
    for r in results:
        if 'error' in r:
            if ('err', r['label']) not in seen:
                seen.add(('err', r['label']))
                rep.violation('harness error on %s: %s' % (r['label'], r['error']), {'label': r['label'], 'trace_index': r['idx'], 'seed': sd, 'broken': 'C04 harness'}, no_input=True)
            continue
        steps += r['n']
        procs += r['nproc']
        per[r['label']] = per.get(r['label'], 0) + 1
        if not r['problems']:
            continue
        p = r['problems'][0]
        key = (r['label'].split('-')[0], r['kind'], p['what'].split(' reads ')[0][:40])
        if key in seen or len(seen) > 10:
            continue
        if r['kind'] == 'refunc':
            kf = classify_known(r['label'], r['desc'], p, findings)
            if kf:
                rep.known_finding(kf['id'], kf['description'])
                continue
            seen.add(key)
            rep.violation('%s: %s' % (r['label'], p['what'][:500]), {'backend': r['label'], 'refunc': r['desc'], 'seed': sd, 'trace_index': r['idx'], 'problems': r['problems'][:3]})
            continue
        rng = random.Random('C04-%d-%d' % (sd, r['idx']))
        ops = gen_ops(rng, r['label'], rng.randint(nops // 3, nops))
        small = shrink(r['label'], ops, 1)
        s2 = Scratch('klepto-c04')
        try:
            probs, _, _ = run_history(r['label'], small, s2, 1)
        finally:
            s2.close()
        if not probs:
            small, probs = ops, r['problems']
        kf = classify_known(r['label'], small, probs[0], findings)
        if kf:
            rep.known_finding(kf['id'], kf['description'])
            continue
        seen.add(key)
        rep.violation('%s: %s' % (r['label'], probs[0]['what'][:500]),
                      {'backend': r['label'], 'ops': [list(o) for o in small], 'seed': sd, 'trace_index': r['idx'], 'problems': probs[:3]})
    for f in findings:
        if f.get('property') == 'C04' and f.get('status') == 'known' and f.get('probe'):
            try:
                if getattr(__import__('findings'), f['probe'])():
                    rep.known_finding(f['id'], f['description'])
            except Exception as e:
                rep.violation('probe of known finding %s failed: %s' % (f['id'], e), {'broken': 'known-finding probe'}, no_input=True)
    if not proof_ok:
        rep.violation('proof obligation no longer checks: %s' % (pinfo.get('log') or pinfo.get('build_log') or pinfo.get('hygiene')),
                      {'broken': 'coq/Props/C04.v'}, no_input=True)
    nth = len(pinfo.get('theorems', []))
    cov = {'obligations': nth, 'discharged': nth if proof_ok else 0,
           'checker_cmd': 'cd /verif && ./build.sh && cd coq && coqc -Q Base Klepto -Q Cache Klepto -Q Keys Klepto -Q Store Klepto -Q Props Klepto Props/C04.v',
           'trusted_base': ['Coq 8.16.1 kernel', 'axioms: %s' % (', '.join(pinfo.get('axioms', [])) or 'none (Closed under the global context x%d)' % pinfo.get('closed', 0)),
                            'the model has immutable integer values: "a snapshot taken at store time" and "keys of their original type" are decided by the differential check only',
                            'dill / json / repr+import round trips, sqlite3, the file system, the Python import system (bytecode cache enabled)'],
           'theorems': pinfo.get('theorems', []), 'print_assumptions': pinfo.get('print_assumptions', ''),
           'evaluations': len(results), 'distinct_nontrivial': len([r for r in results if r.get('n', 0) >= 2]),
           'rule': 'one evaluation = one random write history on one of %d persistent archive configurations (fresh handle compared after every step, fresh process every %d steps, handles rebuilt/copied/unpickled at the end) or one decorated-function session (function re-created in the same and in a new process, with and without load()); non-trivial = at least 2 steps' % (len(CONFIGS), proc_every),
           'steps_compared': steps, 'fresh_process_reads': procs, 'configurations': per,
           'decorated_function_sessions': len([r for r in results if r.get('kind') == 'refunc']),
           'known_findings_reproduced': [k for k, _ in rep.known]}
    write_evidence(prop, 'other', cov, time.time() - t0, len(rep.violations),
                   ['key pools are alias-free per backend (K1, K9 are C03 findings)', 'archives are addressed by absolute paths'])
    return rep.emit()


def replay(p, path):
    if 'backend' not in p or ('ops' not in p and 'refunc' not in p):
        print('replay: %s records a broken proof/correspondence (%s), nothing to execute' % (path, p.get('broken')))
        return 1
    sys.dont_write_bytecode = False
    os.environ.pop('PYTHONDONTWRITEBYTECODE', None)
    s = Scratch('klepto-c04')
    os.environ['VERIF_BYTECODE'] = '1'
    try:
        if 'ops' in p:
            def key(k):
                return tuple(key(x) for x in k) if isinstance(k, list) else k
            ops = []
            for o in p['ops']:
                o = list(o)
                if o[0] in ('set', 'del', 'pop', 'setdefault', 'mutate', 'rewrite', 'popd'):
                    o[1] = key(o[1])
                elif o[0] in ('update', 'cached-dump'):
                    o[1] = [(key(a), b) for a, b in o[1]]
                ops.append(tuple(o))
            probs, _, _ = run_history(p['backend'], ops, s, 1)
        else:
            d = p['refunc']
            probs = []
            for sd in range(40):
                rng = random.Random(sd)
                pr, desc = run_refunc(p['backend'], rng, s)
                if pr:
                    probs = pr
                    break
    finally:
        s.close()
    print(json.dumps(probs[:4], indent=1, default=repr))
    if probs:
        print('VIOLATION property=C04 replay=%s' % path)
        return 1
    print('replay: the recorded case no longer fails')
    return 0


if __name__ == '__main__':
    sys.exit(main())
