"""entry point: dispatch a property id to the module that decides it"""
import os
import sys

sys.path.insert(0, os.path.dirname(os.path.abspath(__file__)))

CACHE = {'C01', 'C02', 'C05', 'C06', 'C07', 'C15', 'C16', 'C18'}
KEYS = {'C09', 'C10', 'C11', 'C17'}


def main():
    prop = sys.argv[1]
    if os.environ.get('VERIF_REPLAY'):
        import replay
        return replay.main(prop, os.environ['VERIF_REPLAY'])
    if prop in CACHE:
        import cache_check
        return cache_check.run_property(prop)
    if prop in KEYS:
        import keys_check
        return keys_check.run_property(prop)
    mod = __import__('check_' + prop.lower())
    return mod.main()


if __name__ == '__main__':
    sys.exit(main())
