"""C13: crash atomicity of archive writes.
Every mutating operation (and merely opening an archive) is run in a child process under strace;
for EVERY file-system-changing system call the operation issues, a further run kills the process on
entering that call (SIGKILL injected by strace).  A fresh process then opens the archive: it must read
it without error, see old-or-new for each touched key, every untouched key unchanged and no key that
was never stored.  The system-call trace of the file archive is abstracted to the action alphabet of
coq/Store/FileArch.v and compared with the model's protocol (`save`), for which crash atomicity is a
theorem (Props/C13.v)."""
import json
import os
import random
import re
import shutil
import sys
import time
from concurrent.futures import ThreadPoolExecutor

sys.path.insert(0, os.path.dirname(os.path.abspath(__file__)))
from common import Scratch, Report, seed, tier, write_evidence, load_findings
import coqcheck
import crashlib as cl

CONFIGS = ['file-pickle', 'file-json', 'file-source', 'dir-pickle', 'dir-fast', 'dir-json', 'dir-source', 'sql']
BIG = ['__big__', 300000, 'x']
ABSENT = '__absent__'


def keys_for(label):
    return ['a', 'b', 'c', 'k1'] if ('json' in label or 'source' in label) else ['a', 'b', 'c', 7]


def vals_for(label, rng):
    base = [0, 1, 'v', 'w', 2.5, None] if label != 'sql' else [0, 1, 'v', 'w', 2.5]
    if 'json' in label or label.startswith('file-p') or label.startswith('dir-p') or label == 'dir-fast':
        base = base + [[1, 2], {'n': 1}]
    return base


def touched(action, pre):
    k = action[0]
    if k in ('set', 'del', 'pop', 'setdefault'):
        return [action[1]]
    if k in ('update', 'dump', 'seed'):
        return [kv[0] for kv in action[1]]
    if k == 'dump-keys':
        return [kv[0] for kv in action[1]][:1]
    if k == 'popkeys':
        return list(action[1])
    if k == 'clear':
        return [kv[0] for kv in pre]
    return []


def fixed_scenarios(label):
    ks = keys_for(label)
    a, b, c = ks[0], ks[1], ks[2]
    pre = [[a, 1], [b, 'old']]
    out = [
        (pre, ['open']),
        (pre, ['open-cached']),
        (pre, ['set', c, 5]),                 # a new key
        (pre, ['set', a, 2]),                 # overwrite
        (pre, ['del', a]),
        (pre, ['pop', b]),
        (pre, ['update', [[a, 3], [c, 4]]]),
        (pre, ['clear']),
        (pre, ['dump', [[a, 9], [c, 8]]]),
        (pre, ['seed', [[c, 1]]]),            # constructor seeded with a dict on an existing archive
        ([], ['set', a, 1]),                  # first write to a fresh location
    ]
    if label != 'sql':
        out.append((pre, ['set', a, BIG]))    # a value written in several write() calls
        out.append(([[a, BIG], [b, 1]], ['set', b, 2]))
    else:
        out.append((pre, ['set', c, ['__big__', 20000, 'y']]))     # a commit of several database pages
        out.append((pre, ['update', [[a, ['__big__', 20000, 'z']], [c, 1]]]))
    if label.startswith('dir'):
        # keys whose text starts with the characters of the directory prefix
        odd = [['Kappa', 1], ['_t', 2], ['K_2', 3], [a, 4]]
        out.append((odd, ['clear']))
        out.append((odd, ['del', 'Kappa']))
        out.append((odd, ['update', [['_t', 5], ['K_2', 6]]]))
    if label.startswith('dir'):
        # an earlier removal / overwrite of the same key was itself interrupted (at its k-th call), the key was
        # stored again, and now the operation is interrupted a second time
        for k in (0, 1, 2):
            out.append(({'pre': pre, 'history': [[['del', b], k], [['set', b, 7], None]]}, ['del', b]))
            out.append(({'pre': pre, 'history': [[['set', b, 6], 3 + k], [['set', b, 7], None]]}, ['set', b, 8]))
    return out


def gen_scenarios(label, rng, n):
    ks = keys_for(label)
    vs = vals_for(label, rng)
    out = []
    for _ in range(n):
        pre = [[k, rng.choice(vs)] for k in rng.sample(ks, rng.randint(0, len(ks)))]
        kind = rng.choice(['set', 'set', 'del', 'pop', 'update', 'clear', 'dump', 'dump-keys', 'setdefault', 'popkeys', 'open', 'seed'])
        if kind == 'set':
            act = ['set', rng.choice(ks), rng.choice(vs)]
        elif kind in ('del', 'pop'):
            if not pre:
                continue
            act = [kind, rng.choice(pre)[0]]
        elif kind in ('update', 'dump', 'dump-keys', 'seed'):
            kk = rng.sample(ks, rng.randint(1, 3))
            act = [kind, [[k, rng.choice(vs)] for k in kk]]
        elif kind == 'setdefault':
            act = ['setdefault', rng.choice(ks), rng.choice(vs)]
        elif kind == 'popkeys':
            if not pre:
                continue
            act = ['popkeys', [kv[0] for kv in rng.sample(pre, rng.randint(1, len(pre)))]]
        else:
            act = [kind]
        out.append((pre, act))
    return out


def as_map(items):
    return {json.dumps(k, sort_keys=True): v for k, v in items}


def judge(pre, post, obs, action):
    """-> list of problems: obs is what a fresh process read after the crash"""
    probs = []
    if not obs.get('ok'):
        return ['a new process cannot read the archive: %s' % obs.get('error')]
    pm, qm, om = as_map(pre), as_map(post), as_map(obs['value'])
    tk = set(json.dumps(k, sort_keys=True) for k in touched(action, pre))
    for k, v in om.items():
        if k not in pm and k not in qm:
            probs.append('key %s was never stored but is listed' % k)
    for k in set(pm) | set(qm) | set(om):
        o = om.get(k, ABSENT)
        if k in tk:
            if o != pm.get(k, ABSENT) and o != qm.get(k, ABSENT):
                probs.append('touched key %s reads %s: neither its previous value %s nor the new one %s' % (
                    k, short(o), short(pm.get(k, ABSENT)), short(qm.get(k, ABSENT))))
        else:
            if o != pm.get(k, ABSENT):
                probs.append('untouched key %s reads %s, was %s' % (k, short(o), short(pm.get(k, ABSENT))))
    return probs


def short(v):
    s = json.dumps(v) if not isinstance(v, str) else v
    return s if len(s) < 60 else s[:40] + '...(%d chars)' % len(s)


# ---------------------------------------------------------------- abstraction of file-archive traces
def abstract_file(calls, target):
    """system calls of one file_archive action -> the action alphabet of coq/Store/FileArch.v"""
    out = []
    tmpfd = None
    for n, a in calls:
        if n in ('open', 'openat') and '.I_' in a and cl.mutating(n, a):
            out.append('AWriteTmp')
            m = re.search(r'=\s*(\d+)\s*$', a)
            tmpfd = m.group(1) if m else None
        elif n in ('unlink', 'unlinkat') and target in a:
            out.append('ARemoveTarget')
        elif n in ('rename', 'renameat', 'renameat2') and '.I_' in a and target in a:
            out.append('AReplaceTmp' if (not out or out[-1] != 'ARemoveTarget') else 'ARenameTmp')
    return out


def _ret_ok(args):
    m = re.search(r'=\s*(-?\d+)', args[::-1] and args)   # last "= n"
    m = re.findall(r'=\s*(-?\d+)(?:\s|$)', args)
    return bool(m) and not m[-1].startswith('-')


def abstract_dir(calls):
    """system calls of one dir_archive action -> the action alphabet of coq/Store/DirProto.v.
    Only calls that succeeded change the state; consecutive repeats are merged."""
    out = []
    fds = {}

    def kind(path):
        base = path.rstrip('/')
        if '/K_.I_' in base:
            # a temporary name is FRESH: the model's theorems assume no directory of that name exists yet
            return 'temp' if re.search(r'/K_\.I_[0-9a-f]{32}(/[^/]*)?$', base) else 'temp-not-fresh'
        if re.search(r'/K_[^/]*(/[^/]*)?$', base):
            return 'entry'
        return 'other'

    def push(x):
        if not out or out[-1] != x or x in ('MkTemp', 'MoveAside', 'MoveIn'):
            out.append(x)
    for n, a in calls:
        ok = _ret_ok(a)
        paths = re.findall(r'"((?:[^"\\]|\\.)*)"', a)
        if n in ('open', 'openat'):
            m = re.findall(r'=\s*(\d+)\s*$', a)
            if ok and m and paths:
                fds[m[-1]] = paths[0]
            if ok and paths and cl.mutating(n, a):
                push('Fill' if kind(paths[0]) == 'temp' else 'WriteEntry' if kind(paths[0]) == 'entry' else 'WriteOther')
        elif n in ('mkdir', 'mkdirat'):
            if ok and paths and kind(paths[0]) == 'temp':
                push('MkTemp')
            elif ok and paths and kind(paths[0]) == 'entry':
                push('MkEntry')
        elif n in ('rename', 'renameat', 'renameat2'):
            if ok and len(paths) >= 2:
                ka, kb = kind(paths[0]), kind(paths[1])
                push({('entry', 'temp'): 'MoveAside', ('temp', 'entry'): 'MoveIn'}.get((ka, kb), 'Rename-%s-%s' % (ka, kb)))
        elif n in ('unlink', 'unlinkat', 'rmdir'):
            if not ok:
                continue
            if n == 'unlinkat':
                fd = a.split(',')[0].strip()
                base = fds.get(fd, '') if fd != 'AT_FDCWD' else ''
                path = os.path.join(base, paths[0]) if paths else base
            else:
                path = paths[0] if paths else ''
            k = kind(path)
            if k == 'temp':
                push('RmTemp')
            elif k == 'entry':
                push('RmDir' if (n == 'rmdir' or 'AT_REMOVEDIR' in a) and path.rstrip('/').count('/K_') and not re.search(r'/K_[^/]*/[^/]+$', path.rstrip('/')) else 'RmFile')
    return out


DIR_PROTOCOL = re.compile(r'^((MkTemp Fill (MoveAside (RmTemp )?)?MoveIn )|(MoveAside (RmTemp )?)|(RmTemp ))*$')


class Runner:
    def __init__(self, scratch):
        self.scratch = scratch

    def prepare(self, label, pre):
        """an archive holding `pre`, built by a separate process; returns the snapshot directory"""
        snap = self.scratch.new('-snap')
        os.makedirs(os.path.join(snap, 'w'))
        path = os.path.join(snap, 'w', 'arch')
        history = []
        if isinstance(pre, dict):
            # {'pre': contents, 'history': [[action, k], ...]}: earlier operations, the k-th file-system-changing
            # call of which was never made because the process was killed (k = None: the operation completed)
            pre, history = pre.get('pre', []), pre.get('history', [])
        if pre:
            r = cl.run_child({'config': label, 'path': path, 'action': ['update', pre]}, os.path.join(snap, 'w'))
            if not r.get('ok'):
                raise RuntimeError('setup failed: %s' % r)
        wdir = os.path.join(snap, 'w')
        for act, k in history:
            spec = {'config': label, 'path': path, 'action': act, 'mark': True}
            if k is None:
                r = cl.run_child(dict(spec, mark=False), wdir)
                continue
            probe = self.scratch.new('-probe')
            shutil.copytree(wdir, probe)
            lg = probe + '.trace'
            cl.traced_run(dict(spec, path=os.path.join(probe, 'arch')), probe, lg)
            calls = cl.parse_trace(lg)
            b, e = cl.window(calls)
            shutil.rmtree(probe, ignore_errors=True)
            os.remove(lg)
            pts = [i for i in range((b or 0) + 1, e or 0) if cl.mutating(*calls[i])]
            if not pts:
                continue
            i = pts[min(k, len(pts) - 1)]
            lg2 = snap + '.hist.trace'
            cl.traced_run(spec, wdir, lg2, when=cl.ordinal(calls, i))
            try:
                os.remove(lg2)
            except OSError:
                pass
        return snap

    def scenario(self, label, pre, action, pool):
        """-> dict(points=n, problems=[...], trace=[...])"""
        res = {'label': label, 'pre': pre, 'action': action, 'points': 0, 'problems': [], 'skipped': 0}
        snap = self.prepare(label, pre)
        try:
            work = self.scratch.new('-run')
            shutil.copytree(os.path.join(snap, 'w'), work)
            path = os.path.join(work, 'arch')
            spec = {'config': label, 'path': path, 'action': action, 'mark': True}
            log = work + '.trace'
            rc, err = cl.traced_run(spec, work, log)
            calls = cl.parse_trace(log)
            b, e = cl.window(calls)
            if rc != 0 or b is None:
                res['problems'].append({'kind': 'harness', 'what': 'trace run failed rc=%s %s' % (rc, err)})
                return res
            # (reading creates a missing archive: read a copy, never the snapshot itself)
            pcopy = self.scratch.new('-pre')
            shutil.copytree(os.path.join(snap, 'w'), pcopy)
            pre_seen = cl.run_child({'config': label, 'path': os.path.join(pcopy, 'arch'), 'action': ['read']}, pcopy)
            shutil.rmtree(pcopy, ignore_errors=True)
            post_seen = cl.run_child({'config': label, 'path': path, 'action': ['read']}, work)
            if not pre_seen.get('ok') or not post_seen.get('ok'):
                res['problems'].append({'kind': 'harness', 'what': 'cannot read before/after: %s %s' % (pre_seen, post_seen)})
                return res
            prev, postv = pre_seen['value'], post_seen['value']
            res['pre_effective'] = prev
            res['trace'] = [cl.norm(n, a) for n, a in calls[b + 1:e] if cl.mutating(n, a)]
            res['calls'] = calls[b + 1:e]
            points = [i + 1 for i in range(b + 1, e) if cl.mutating(*calls[i])]
            res['points'] = len(points)
            shutil.rmtree(work, ignore_errors=True)

            def one(when):
                w = self.scratch.new('-crash')
                shutil.copytree(os.path.join(snap, 'w'), w)
                lg = w + '.trace'
                try:
                    sp = dict(spec, path=os.path.join(w, 'arch'))
                    rc2, err2 = cl.traced_run(sp, w, lg, when=cl.ordinal(calls, when - 1))
                    c2 = cl.parse_trace(lg)
                    # the kill must have hit the same call as in the recorded run
                    same = len(c2) == when and cl.norm(*c2[-1]).replace(w, '<W>') == cl.norm(*calls[when - 1]).replace(work, '<W>')
                    if rc2 != -9 and rc2 != 137 or not same:
                        return when, None, 'the run diverged from the recorded trace (rc=%s, %d calls for %d: %s vs %s)' % (
                            rc2, len(c2), when, cl.norm(*c2[-1])[:120] if c2 else None, cl.norm(*calls[when - 1])[:120])
                    obs = cl.run_child({'config': label, 'path': os.path.join(w, 'arch'), 'action': ['read']}, w)
                    probs = judge(prev, postv, obs, action)
                    if not probs:
                        obs2 = cl.run_child({'config': label, 'path': os.path.join(w, 'arch'), 'action': ['read-cache']}, w)
                        probs = ['cache.load(): ' + p for p in judge(prev, postv, obs2, action)]
                    return when, probs, None
                finally:
                    shutil.rmtree(w, ignore_errors=True)
                    try:
                        os.remove(lg)
                    except OSError:
                        pass
            for when, probs, skip in pool.map(one, points):
                if skip:
                    res['skipped'] += 1
                    res.setdefault('skips', []).append(skip)
                    continue
                if probs:
                    res['problems'].append({'kind': 'crash', 'when': when, 'before_call': cl.norm(*calls[when - 1]).replace(work, '<W>'),
                                            'index_in_action': points.index(when), 'what': probs[0], 'all': probs[:4]})
            try:
                os.remove(log)
            except OSError:
                pass
            return res
        finally:
            shutil.rmtree(snap, ignore_errors=True)


def classify_known(label, action, pre, problem, findings):
    import findings as fmod
    for f in findings:
        if f.get('property') == 'C13' and f.get('status') == 'known':
            pred = getattr(fmod, f['predicate'], None)
            if pred and pred(label, action, pre, problem):
                return f
    return None


def main():
    t0 = time.time()
    prop = 'C13'
    thorough = tier() == 'thorough'
    sd = seed()
    rep = Report(prop)
    findings = load_findings()
    proof_ok, pinfo = coqcheck.proof_status(prop)
    rng = random.Random('C13-%d' % sd)
    scen = []
    for label in CONFIGS:
        fx = fixed_scenarios(label)
        if not thorough:
            fx = [s for s in fx]
        scen += [(label, p, a) for p, a in fx]
        scen += [(label, p, a) for p, a in gen_scenarios(label, rng, 90 if thorough else 2)]
    scratch = Scratch('klepto-c13')
    results = []
    try:
        runner = Runner(scratch)
        with ThreadPoolExecutor(16) as pool, ThreadPoolExecutor(4) as outer:
            futs = [outer.submit(runner.scenario, label, pre, act, pool) for label, pre, act in scen]
            for f in futs:
                try:
                    results.append(f.result())
                except Exception as e:
                    results.append({'label': '?', 'problems': [{'kind': 'harness', 'what': repr(e)}], 'points': 0, 'skipped': 0, 'action': None, 'pre': None})
    finally:
        scratch.close()
    # ---- protocol correspondence for the file archive: trace abstraction == model's `save`
    proto_bad = []
    for r in results:
        if r.get('label', '').startswith('file') and r.get('calls') is not None:
            ext = {'file-pickle': 'arch.pkl', 'file-json': 'arch.json', 'file-source': 'arch.py'}[r['label']]
            acts = abstract_file(r['calls'], ext)
            # every save of the model is [AWriteTmp; AReplaceTmp]
            ok = len(acts) % 2 == 0 and all(acts[i:i + 2] == ['AWriteTmp', 'AReplaceTmp'] for i in range(0, len(acts), 2))
            r['protocol'] = acts
            if not ok:
                proto_bad.append(r)
    for r in results:
        if r.get('label', '').startswith('dir') and r.get('calls') is not None:
            acts = abstract_dir(r['calls'])
            r['protocol'] = acts
            if not DIR_PROTOCOL.match(''.join(x + ' ' for x in acts)):
                proto_bad.append(r)
    seen = set()
    points = sum(r['points'] for r in results)
    skipped = sum(r['skipped'] for r in results)
    for r in results:
        for p in r['problems']:
            if p['kind'] == 'harness':
                if ('h', r['label']) not in seen:
                    seen.add(('h', r['label']))
                    rep.violation('harness error on %s: %s' % (r['label'], p['what']), {'broken': 'C13 harness', 'scenario': [r['label'], r.get('pre'), r.get('action')]}, no_input=True)
                continue
            kf = classify_known(r['label'], r['action'], r.get('pre_effective', r['pre']), p, findings)
            if kf:
                rep.known_finding(kf['id'], kf['description'])
                continue
            key = (r['label'].split('-')[0], r['action'][0], re.sub(r'\W+', ' ', p['what'])[:30])
            if key in seen or len(seen) > 12:
                continue
            seen.add(key)
            rep.violation('%s: killed before %s during %s on %s: %s' % (r['label'], p['before_call'][:80], json.dumps(r['action'])[:80], short(r['pre']), p['what']),
                          {'backend': r['label'], 'pre': r['pre'], 'action': r['action'], 'crash_before_call': p['before_call'],
                           'crash_point_index': p['index_in_action'], 'problems': p['all'], 'seed': sd})
    for fam in ('file', 'dir'):
        bad = [r for r in proto_bad if r['label'].startswith(fam)]
        if bad and not any(k[0] == fam for k in seen if isinstance(k, tuple) and k[0] != 'h'):
            r = bad[0]
            rep.violation('%s: the system calls of %s are %s, not the protocol of the model (coq/Store/%s) for which the crash theorems are proved' % (
                r['label'], json.dumps(r['action'])[:60], r['protocol'], 'FileArch.v: save' if fam == 'file' else 'DirProto.v: store / remove'),
                {'broken': 'correspondence of the %s archive write protocol with its Coq model' % fam, 'backend': r['label'], 'pre': r['pre'], 'action': r['action'], 'protocol': r['protocol']}, no_input=True)
    # ---- the SQL statements of every operation (sqlite trace callback) == the model's statement list, one commit each
    sql_bad, sql_n = [], 0
    if pinfo.get('build_ok'):
        try:
            from check_c03 import sql_rows_check
            sql_bad, sql_n = sql_rows_check(sd, 120 if thorough else 30)
        except Exception as e:
            sql_bad = [('sql_rows_check', repr(e), '')]
    if sql_bad:
        rep.violation('the statements sqltable_archive issues differ from the model (coq/Store/SqlCrash.v: sql_stmts, one commit per statement): after %r the model gives %r, the table %r' % sql_bad[0],
                      {'broken': 'correspondence of sqltable_archive statements with SqlCrash.sql_stmts (premise of C13_sql_op_crash_prefix)', 'cases': sql_bad[:5]}, no_input=True)
    if points and skipped * 10 > points:
        rep.violation('crash coverage lost: %d of %d crash runs did not follow the recorded system-call trace' % (skipped, points),
                      {'broken': 'C13 crash injection (deterministic replay of the recorded trace)', 'examples': [r['skips'][0] for r in results if r.get('skips')][:3]}, no_input=True)
    if not proof_ok:
        rep.violation('proof obligation no longer checks: %s' % (pinfo.get('log') or pinfo.get('build_log') or pinfo.get('hygiene')),
                      {'broken': 'coq/Props/C13.v'}, no_input=True)
    nth = len(pinfo.get('theorems', []))
    per = {}
    for r in results:
        per[r['label']] = per.get(r['label'], 0) + r['points']
    div = {}
    for r in results:
        if r.get('skipped'):
            div[r['label'] + ' ' + r['action'][0]] = div.get(r['label'] + ' ' + r['action'][0], 0) + r['skipped']
    kinds = {}
    for r in results:
        if r.get('action'):
            kinds[r['action'][0]] = kinds.get(r['action'][0], 0) + 1
    cov = {'obligations': nth, 'discharged': nth if proof_ok else 0,
           'checker_cmd': 'cd /verif && ./build.sh && cd coq && coqc -Q Base Klepto -Q Cache Klepto -Q Keys Klepto -Q Store Klepto -Q Props Klepto Props/C13.v',
           'trusted_base': ['Coq 8.16.1 kernel', 'axioms: %s' % (', '.join(pinfo.get('axioms', [])) or 'none (Closed under the global context x%d)' % pinfo.get('closed', 0)),
                            'strace 6 signal injection (the kill is delivered on entering the system call, before it executes)',
                            'the abstraction of system-call traces to the action alphabets of coq/Store/FileArch.v and DirProto.v (harness/check_c13.py: abstract_file, abstract_dir)',
                            'crash = process death; the kernel completes or does not start each system call (no torn metadata, no power loss: data reaches the page cache)',
                            'sqlite3 journalling (each statement + commit is atomic); the statement sequence itself is compared with the model on %d model commands this run' % sql_n],
           'theorems': pinfo.get('theorems', []), 'print_assumptions': pinfo.get('print_assumptions', ''),
           'evaluations': points, 'distinct_nontrivial': points - skipped,
           'rule': 'one evaluation = one (archive configuration, prior contents, operation, crash point) - the process is killed before one file-system-changing system call of the operation, and a fresh process reads the archive (directly and through cache.load()); every such call of every scenario is covered',
           'scenarios': len(results), 'crash_points_by_backend': per, 'operations': kinds, 'runs_diverged_from_recorded_trace': skipped, 'diverged_by_scenario': div, 'diverged_examples': [r['skips'][0] for r in results if r.get('skips')][:5],
           'protocols_matching_model': len([r for r in results if r.get('protocol') is not None]) - len(proto_bad), 'protocols_compared': len([r for r in results if r.get('protocol') is not None]),
           'known_findings_reproduced': [k for k, _ in rep.known]}
    cov['explanation'] = 'partial: machine-checked theorems about the protocol models, tied to the code by trace correspondence and by exhaustive injection on the real processes; the kernel (each system call atomic), sqlite and the file system are trusted'
    write_evidence(prop, 'other', cov, time.time() - t0, len(rep.violations),
                   ['a crash is the death of the writing process (SIGKILL), not a power failure'])
    return rep.emit()


def replay(p, path):
    if 'action' not in p or 'backend' not in p or 'pre' not in p:
        print('replay: %s records a broken proof/correspondence (%s), nothing to execute' % (path, p.get('broken')))
        return 1
    scratch = Scratch('klepto-c13')
    try:
        with ThreadPoolExecutor(16) as pool:
            r = Runner(scratch).scenario(p['backend'], p['pre'], p['action'], pool)
    finally:
        scratch.close()
    findings = load_findings()
    left = []
    for q in r['problems']:
        kf = classify_known(p['backend'], p['action'], r.get('pre_effective', p['pre']), q, findings) if q['kind'] == 'crash' else None
        if kf:
            print('KNOWN-FINDING: property=C13 %s: %s' % (kf['id'], q['what']))
        else:
            left.append(q)
    r['problems'] = left
    print(json.dumps([{k: v for k, v in q.items() if k != 'all'} for q in r['problems']][:8], indent=1))
    if r['problems']:
        print('VIOLATION property=C13 replay=%s' % path)
        return 1
    print('replay: the recorded case no longer fails (%d crash points)' % r['points'])
    return 0


if __name__ == '__main__':
    sys.exit(main())
