"""Property monitors over implementation traces only (no reference to the Coq model).

Each monitor takes (cfg, eff, recs) and returns a list of hits
{'prop': 'Cxx', 'step': i, 'what': text}.  eff = (effective alg id, maxsize) the decorator should
have according to its constructor arguments.
"""
from cache_trace import ALGS, g_cfg, vcode, realcall


def _alg(eff):
    return ALGS[eff[0]]


def _kid(r):
    kr = r['extra'].get('kr')
    if kr and kr[0] == 'ok':
        return kr[1]
    return None


def mon_c01(cfg, eff, recs):
    """a completed call returns what the undecorated function returns"""
    hits = []
    for i, r in enumerate(recs):
        if r['op'][0] == 'call' and r['out'][0] == 'ret':
            want = vcode(g_cfg(cfg, r['op'][1]))
            if r['out'][1] != want:
                hits.append({'prop': 'C01', 'step': i,
                             'what': 'call f%r returned %r, the function returns %r'
                                     % (realcall(r['op'][1], cfg), r['out'][1], want)})
            rec = r['extra'].get('received')
            if rec is not None:
                ar, kwd = realcall(r['op'][1], cfg)
                x = ar[0] if ar else kwd.get('x')
                y = ar[1] if len(ar) > 1 else kwd.get('y', 0)
                if repr((x, y)) != repr(rec) and not (x is rec[0]):
                    hits.append({'prop': 'C01', 'step': i,
                                 'what': 'the function was evaluated on %r, the caller passed %r' % (rec, (x, y))})
    return hits


def mon_c02(cfg, eff, recs):
    """evaluated only when the result is in neither the memory cache nor the attached archive;
    at most one evaluation per call; with a lossless archive attached throughout: once per key"""
    hits = []
    lossless = cfg['backend'] in ('dictarch', 'file', 'file-json', 'dir', 'sql')
    evals = {}
    raising = set(cfg.get('raising', []))
    for i, r in enumerate(recs):
        op = r['op']
        if op[0] in ('clear', 'setarch') or (op[0] == 'archived' and op[1] is not None):
            lossless = False
        if op[0] != 'call':
            continue
        ev = r['out'][2]
        if ev > 1:
            hits.append({'prop': 'C02', 'step': i, 'what': 'function evaluated %d times in one call' % ev})
        k = _kid(r)
        if k is None:
            continue
        pre = r['pre']
        stored = k in pre['mem'] or (pre['arch'] is not None and k in pre['arch'])
        if ev > 0 and stored:
            hits.append({'prop': 'C02', 'step': i,
                         'what': 'f(%r) was evaluated although its result was stored (memory: %s, archive: %s)'
                                 % (op[1], k in pre['mem'], pre['arch'] is not None and k in pre['arch'])})
        if ev > 0 and op[1] not in raising:
            evals[k] = evals.get(k, 0) + 1
            if lossless and evals[k] > 1:
                hits.append({'prop': 'C02', 'step': i,
                             'what': 'f(%r) evaluated %d times although a lossless archive was attached throughout'
                                     % (op[1], evals[k])})
    return hits


def mon_c05(cfg, eff, recs):
    hits = []
    alg, mx = _alg(eff), eff[1]
    for i, r in enumerate(recs):
        if r['op'][0] != 'call':
            continue
        pre, post = r['pre'], r['post']
        n0, n1 = len(pre['mem']), len(post['mem'])
        if post['info'][4] != n1:
            hits.append({'prop': 'C05', 'step': i, 'what': 'info().size=%r but %d entries resident' % (post['info'][4], n1)})
        if alg == 'inf':
            gone = [k for k in pre['mem'] if k not in post['mem']]
            if gone:
                hits.append({'prop': 'C05', 'step': i, 'what': 'unbounded cache evicted %r' % gone})
            continue
        bound = 0 if alg == 'no' else mx
        if n1 > max(bound, n0):
            hits.append({'prop': 'C05', 'step': i,
                         'what': 'size %d after the call exceeds max(maxsize=%d, size before=%d)' % (n1, bound, n0)})
        if alg == 'no' and r['out'][0] == 'ret' and n1 != 0 and _kid(r) is not None:
            hits.append({'prop': 'C05', 'step': i, 'what': 'maxsize=0 cache keeps %d entries resident' % n1})
        if alg not in ('no', 'inf') and cfg.get('purge') and pre['arch'] is not None and r['out'][0] == 'ret':
            k = _kid(r)
            if k is not None and k not in pre['mem'] and n0 + 1 > mx and n1 != 0:
                hits.append({'prop': 'C05', 'step': i,
                             'what': 'purge enabled on an archived cache: overflow left %d entries resident' % n1})
    return hits


def mon_c07(cfg, eff, recs):
    """with an archive attached: whatever leaves memory during a call is in the archive with the
    same value; cache traffic never changes or removes an archived entry"""
    hits = []
    for i, r in enumerate(recs):
        if r['op'][0] == 'call' and r['out'][0] == 'raise' and r['out'][1] == 'OSError' and r['pre']['arch'] is not None \
                and r['post']['arch'] is not None and _alg(eff) != 'no':
            # the archive refused a write during this call: whatever was in memory is still somewhere
            for kk, v in r['pre']['mem'].items():
                if r['post']['mem'].get(kk) != v and r['post']['arch'].get(kk) != v:
                    hits.append({'prop': 'C07', 'step': i,
                                 'what': 'the archive refused a write during the call; entry %r=%r is now neither in memory nor in the archive' % (kk, v)})
            continue
        if r['op'][0] != 'call' or r['out'][0] != 'ret':
            continue
        pre, post = r['pre'], r['post']
        if pre['arch'] is None or post['arch'] is None:
            continue
        # no_cache's memory is only a staging area for what it just fetched from the archive:
        # the clause is about the entry this call computed
        before = dict(pre['mem']) if _alg(eff) != 'no' else {}
        k = _kid(r)
        if k is not None and k not in before and r['out'][2] > 0:
            before[k] = r['out'][1]         # the entry computed by this call
        for kk, v in before.items():
            if post['mem'].get(kk) != v and post['arch'].get(kk) != v:
                hits.append({'prop': 'C07', 'step': i,
                             'what': 'entry %r=%r left memory and is not in the archive (archive has %r)'
                                     % (kk, v, post['arch'].get(kk))})
        for kk, v in pre['arch'].items():
            if kk not in post['arch']:
                hits.append({'prop': 'C07', 'step': i, 'what': 'archived entry %r removed by cache traffic' % kk})
            elif post['arch'][kk] != v and pre['mem'].get(kk, v) == v:
                hits.append({'prop': 'C07', 'step': i,
                             'what': 'archived entry %r changed from %r to %r' % (kk, v, post['arch'][kk])})
    return hits


def mon_c15(cfg, eff, recs):
    """info() is an exact account: classify each completed call from the state before it"""
    hits = []
    alg, mx = _alg(eff), eff[1]
    h = m = l = 0
    done = 0
    for i, r in enumerate(recs):
        op = r['op']
        pre, post = r['pre'], r['post']
        if op[0] == 'clear':
            if not op[1]:
                h = m = l = 0
                done = 0
            if alg != 'no' and len(post['mem']) != 0:
                hits.append({'prop': 'C15', 'step': i, 'what': 'clear() left %d entries resident' % len(post['mem'])})
        elif op[0] == 'call' and r['out'][0] == 'ret':
            done += 1
            k = _kid(r)
            if k is None:
                m += 1
            elif alg == 'no':
                if k in pre['mem'] or (pre['arch'] is not None and k in pre['arch']):
                    l += 1
                else:
                    m += 1
            elif k in pre['mem']:
                h += 1
            elif pre['arch'] is not None and k in pre['arch']:
                l += 1
            else:
                m += 1
        st = post['info']
        if tuple(st[:3]) != (h, m, l):
            hits.append({'prop': 'C15', 'step': i,
                         'what': 'info() reports (hit,miss,load)=%r, what happened is %r' % (tuple(st[:3]), (h, m, l))})
            h, m, l = st[:3]
        if st[0] + st[1] + st[2] != done:
            hits.append({'prop': 'C15', 'step': i, 'what': 'hit+miss+load=%d, completed calls=%d' % (sum(st[:3]), done)})
            done = sum(st[:3])
        if st[4] != len(post['mem']):
            hits.append({'prop': 'C15', 'step': i, 'what': 'info().size=%r, resident=%d' % (st[4], len(post['mem']))})
        want = 0 if alg == 'no' else (None if alg == 'inf' else mx)
        if st[3] != want:
            hits.append({'prop': 'C15', 'step': i, 'what': 'info().maxsize=%r, configured %r' % (st[3], want)})
    return hits


def mon_c16(cfg, eff, recs):
    """a raising function: same exception, one evaluation, state untouched; safe: never a key error"""
    hits = []
    raising = set(cfg.get('raising', []))
    for i, r in enumerate(recs):
        if r['op'][0] != 'call':
            continue
        a = r['op'][1]
        kr = r['extra'].get('kr')
        if r['out'][0] == 'raise' and r['out'][1] == 'User':
            if r['out'][2] != 1:
                hits.append({'prop': 'C16', 'step': i, 'what': 'raising function evaluated %d times' % r['out'][2]})
            if r['pre'] != r['post']:
                diff = [f for f in r['pre'] if r['pre'][f] != r['post'][f]]
                hits.append({'prop': 'C16', 'step': i,
                             'what': 'state changed by a call that raised: %s' % ', '.join(diff)})
        elif a in raising and not (r['out'][0] == 'raise' and not cfg['safe'] and kr and kr[0] != 'ok'):
            # the function raises for this argument: only a stored result may be returned instead
            # (a standard cache may fail earlier, on the unusable key)
            k = _kid(r)
            stored = k is not None and (k in r['pre']['mem'] or (r['pre']['arch'] or {}).get(k) is not None)
            if not stored:
                hits.append({'prop': 'C16', 'step': i,
                             'what': 'function raises for %r but the call produced %r' % (a, r['out'])})
        elif r['out'][0] == 'raise' and cfg['safe']:
            hits.append({'prop': 'C16', 'step': i,
                         'what': 'safe cache failed with %s for argument %r (key result %r)' % (r['out'][1], a, kr)})
        elif r['out'][0] == 'ret' and cfg['safe'] and kr and kr[0] != 'ok':
            if r['out'][2] != 1:
                hits.append({'prop': 'C16', 'step': i, 'what': 'safe fallback evaluated %d times' % r['out'][2]})
            want = vcode(g_cfg(cfg, a))
            if r['out'][1] != want:
                hits.append({'prop': 'C16', 'step': i,
                             'what': 'safe fallback for %r returned %r, the function returns %r' % (realcall(a, cfg), r['out'][1], want)})
            rec = r['extra'].get('received')
            if rec is not None:
                ar, kwd = realcall(a, cfg)
                x = ar[0] if ar else kwd.get('x')
                if repr(x) != repr(rec[0]) and x is not rec[0]:
                    hits.append({'prop': 'C16', 'step': i,
                                 'what': 'safe fallback evaluated the function on %r, the caller passed %r' % (rec[0], x)})
    return hits


def mon_c18(cfg, eff, recs):
    """key()/lookup() agree with calls and change nothing"""
    hits = []
    for i, r in enumerate(recs):
        op = r['op']
        if op[0] in ('key', 'lookup', 'info'):
            if r['pre'] != r['post']:
                diff = [f for f in r['pre'] if r['pre'][f] != r['post'][f]]
                hits.append({'prop': 'C18', 'step': i, 'what': '%s() changed %s' % (op[0], ', '.join(diff))})
            if len(r['out']) > 2 and r['out'][0] == 'raise' and r['out'][2]:
                hits.append({'prop': 'C18', 'step': i, 'what': '%s() evaluated the function' % op[0]})
        if op[0] == 'lookup':
            k = _kid(r)
            if k is not None:
                want = ('val', r['pre']['mem'][k]) if k in r['pre']['mem'] else ('raise', 'KeyError')
                if tuple(r['out'][:2]) != want:
                    hits.append({'prop': 'C18', 'step': i,
                                 'what': 'lookup(%r) gave %r, resident state says %r' % (op[1], r['out'][:2], want)})
        if op[0] == 'call' and r['out'][0] == 'ret' and r['out'][2] == 1:
            # the entry stored by this call (if any survived) sits under key(args)
            k = _kid(r)
            new = [kk for kk in r['post']['mem'] if kk not in r['pre']['mem']]
            newa = [kk for kk in (r['post']['arch'] or {}) if kk not in (r['pre']['arch'] or {})]
            if k is not None:
                for kk in new:
                    if kk != k:
                        hits.append({'prop': 'C18', 'step': i,
                                     'what': 'f(%r) stored its result under key id %r, key() says %r' % (op[1], kk, k)})
    return hits


# ------------------------------------------------------------------ C06: ideal policies
def mon_c06(cfg, eff, recs):
    """eviction follows the advertised policy.  Ideal bookkeeping is kept here independently:
    a recency list (LRU/MRU) and per-entry use counts (LFU) over *calls only*; the policy clauses
    are checked on histories where every resident entry entered through a call (no bulk load)."""
    hits = []
    alg, mx = _alg(eff), eff[1]
    if alg in ('no', 'inf'):
        return hits
    recency = []          # least recent first; keys with a recorded use that are resident
    counts = {}
    clean = True          # every resident entry has a recorded use
    for i, r in enumerate(recs):
        op = r['op']
        pre, post = r['pre'], r['post']
        if op[0] in ('load',):
            if set(post['mem']) - set(pre['mem']):
                clean = False
        if op[0] == 'clear':
            recency, counts = [], {}
            clean = len(post['mem']) == 0
        if op[0] != 'call':
            continue
        k = _kid(r)
        gone = sorted(set(pre['mem']) - set(post['mem']))
        if k is None or r['out'][0] != 'ret':
            if gone and r['out'][0] == 'ret':
                hits.append({'prop': 'C06', 'step': i, 'what': 'a call without a key removed %r' % gone})
            continue
        if k in pre['mem']:
            # a hit never removes anything
            if gone:
                hits.append({'prop': 'C06', 'step': i, 'what': 'a hit removed %r' % gone})
            if k in recency:
                recency.remove(k)
            recency.append(k)
            counts[k] = counts.get(k, 0) + 1
            continue
        # load or miss: the entry enters memory
        overflow = len(pre['mem']) + 1 > mx
        purged = bool(cfg.get('purge')) and pre['arch'] is not None
        if not overflow:
            if gone:
                hits.append({'prop': 'C06', 'step': i, 'what': 'no overflow but %r disappeared' % gone})
            recency.append(k)
            counts[k] = 1
            continue
        if purged:
            recency, counts = [], {}
            if alg == 'mru':
                pass
            clean = len(post['mem']) == 0
            continue
        # overflow without purge: policy victims
        cand = dict(pre['mem'])
        cand[k] = None
        removed = sorted(set(cand) - set(post['mem']))
        if clean:
            if alg == 'lru':
                want = [recency[0]] if recency else [k]
                if removed != want:
                    hits.append({'prop': 'C06', 'step': i,
                                 'what': 'LRU evicted %r, least recently used is %r (recency %r)' % (removed, want, recency)})
            elif alg == 'mru':
                want = [recency[-1]] if recency else [k]
                if removed != want:
                    hits.append({'prop': 'C06', 'step': i,
                                 'what': 'MRU evicted %r, most recently used before this call is %r' % (removed, want)})
            elif alg == 'lfu':
                c2 = dict(counts)
                c2[k] = 1
                if not removed:
                    hits.append({'prop': 'C06', 'step': i, 'what': 'LFU overflow evicted nothing'})
                for v in removed:
                    for s in post['mem']:
                        if c2.get(v, 0) > c2.get(s, 0):
                            hits.append({'prop': 'C06', 'step': i,
                                         'what': 'LFU evicted %r (count %d) but kept %r (count %d)'
                                                 % (v, c2.get(v, 0), s, c2.get(s, 0))})
                            break
            elif alg == 'rr':
                if len(removed) != 1:
                    hits.append({'prop': 'C06', 'step': i, 'what': 'RR removed %r (must be exactly one resident entry)' % removed})
        else:
            if alg in ('lru', 'mru', 'rr') and len(removed) > 1:
                hits.append({'prop': 'C06', 'step': i, 'what': '%s removed %r in one call' % (alg, removed)})
        # update the ideal bookkeeping with what really happened
        recency.append(k)
        counts[k] = 1
        for v in removed:
            if v in recency:
                recency.remove(v)
            counts.pop(v, None)
    return hits


ALL = {'C01': mon_c01, 'C02': mon_c02, 'C05': mon_c05, 'C06': mon_c06, 'C07': mon_c07,
       'C15': mon_c15, 'C16': mon_c16, 'C18': mon_c18}
