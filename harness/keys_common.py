"""Generators, value conversions and implementation/model drivers for the key pipeline
(klepto._inspect._keygen, klepto.keymaps) - model M4, coq/Keys/Keys.v."""
import inspect
import itertools
import random

from common import run_model

NAMES = ['a', 'b', 'x', 'y', 'z', 'p', 'q']
KWONLY = ['k', 'm', 'w']
EXTRA = ['e', 'f2', 'x9', 'aa']
VALUES = [0, 1, 2, 3, 5, True, False, 1.0, 2.5, 0.25, 'a', 'x', '5', 'y', 'k', None, (1, 2), ('a',), (1,), 3.0]


class Sentinel:
    def __repr__(self):
        return '<SENTINEL>'

    def __eq__(self, o):
        return isinstance(o, Sentinel)

    def __hash__(self):
        return 7919


SENT = Sentinel()


# ---------------------------------------------------------------- values <-> s-expressions
def sx_str(s):
    return '(' + ' '.join(str(ord(c)) for c in s) + ')'


def sx_val(v):
    import klepto
    from klepto._inspect import NULL
    if v is None:
        return 'n'
    if v is NULL:
        return 'u'
    if v is SENT:
        return 'e'
    if isinstance(v, bool):
        return '(b %d)' % (1 if v else 0)
    if isinstance(v, int):
        return '(i %d)' % v
    if isinstance(v, float):
        q = v * 4
        if q != int(q):
            raise ValueError('float outside the model universe: %r' % v)
        return '(f %d)' % int(q)
    if isinstance(v, str):
        return '(s' + ''.join(' %d' % ord(c) for c in v) + ')'
    if isinstance(v, type):
        return '(t %d)' % TYPE_IDS[v]
    if isinstance(v, tuple):
        return '(T' + ''.join(' ' + sx_val(x) for x in v) + ')'
    if isinstance(v, dict):
        return '(D' + ''.join(' (%s %s)' % (sx_str(k), sx_val(x)) for k, x in v.items()) + ')'
    raise ValueError('value outside the model universe: %r' % (v,))


def _type_ids():
    from klepto._inspect import NULL
    return {int: 0, bool: 1, float: 2, str: 3, type(None): 4, tuple: 5, type(NULL): 6, Sentinel: 7, type: 8, dict: 9}


class _Lazy(dict):
    def __missing__(self, k):
        self.update(_type_ids())
        return dict.__getitem__(self, k)


TYPE_IDS = _Lazy()


def canon_val(v, sort_dicts=True):
    """canonical text of an implementation value (dicts sorted: dict equality ignores order)"""
    if isinstance(v, dict) and sort_dicts:
        return '(D' + ''.join(' (%s %s)' % (sx_str(k), canon_val(x)) for k, x in sorted(v.items())) + ')'
    if isinstance(v, tuple):
        return '(T' + ''.join(' ' + canon_val(x, sort_dicts) for x in v) + ')'
    return sx_val(v)


def canon_sx(text):
    """canonical form of a model value printed by the driver: sort (D ...) entries"""
    toks = text.replace('(', ' ( ').replace(')', ' ) ').split()

    def parse(i):
        if toks[i] == '(':
            items = []
            i += 1
            while toks[i] != ')':
                x, i = parse(i)
                items.append(x)
            return items, i + 1
        return toks[i], i + 1

    def show(x):
        if isinstance(x, str):
            return x
        if x and x[0] == 'D':
            ents = sorted(x[1:], key=lambda e: [int(t) for t in e[0]])
            return '(D' + ''.join(' ' + show(e) for e in ents) + ')'
        return '(' + ' '.join(show(y) for y in x) + ')'
    out = []
    i = 0
    while i < len(toks):
        x, i = parse(i)
        out.append(show(x))
    return ' '.join(out)


def fresh(v):
    """a distinct object for every use of a container value: pickle's memo makes the bytes of a key
    depend on which argument objects are shared, which is not a fact about the values"""
    if isinstance(v, tuple):
        return tuple([fresh(x) for x in v])
    return v


# ---------------------------------------------------------------- signatures
def gen_sig(rng, allow_kwonly=True):
    np_ = rng.choice([0, 1, 1, 2, 2, 3, 4])
    names = rng.sample(NAMES, np_)
    ndef = rng.randint(0, np_)
    params = []
    for i, n in enumerate(names):
        params.append((n, fresh(rng.choice(VALUES)) if i >= np_ - ndef else inspect.Parameter.empty))
    varargs = rng.random() < 0.4
    kwonly = []
    if allow_kwonly and rng.random() < 0.4:
        for n in rng.sample(KWONLY, rng.randint(1, 2)):
            kwonly.append((n, fresh(rng.choice(VALUES)) if rng.random() < 0.6 else inspect.Parameter.empty))
    varkw = rng.random() < 0.4
    return {'params': params, 'varargs': varargs, 'kwonly': kwonly, 'varkw': varkw}


def sig_text(sig, name='f'):
    parts = []
    for n, d in sig['params']:
        parts.append(n if d is inspect.Parameter.empty else '%s=%r' % (n, d))
    if sig['varargs']:
        parts.append('*args')
    elif sig['kwonly']:
        parts.append('*')
    for n, d in sig['kwonly']:
        parts.append(n if d is inspect.Parameter.empty else '%s=%r' % (n, d))
    if sig['varkw']:
        parts.append('**kw')
    return 'def %s(%s):\n    return 0\n' % (name, ', '.join(parts))


def make_func(sig, name='f'):
    ns = {}
    exec(sig_text(sig, name), ns)
    return ns[name]


def sx_sig(sig):
    def p(n, d):
        return '(%s)' % sx_str(n) if d is inspect.Parameter.empty else '(%s %s)' % (sx_str(n), sx_val(d))
    return '((%s) %d (%s) %d)' % (' '.join(p(n, d) for n, d in sig['params']), 1 if sig['varargs'] else 0,
                                  ' '.join(p(n, d) for n, d in sig['kwonly']), 1 if sig['varkw'] else 0)


def sx_call(args, kwds):
    return '((%s) (%s))' % (' '.join(sx_val(v) for v in args),
                            ' '.join('(%s %s)' % (sx_str(k), sx_val(v)) for k, v in kwds.items()))


def sx_ign(ignore):
    return '(' + ' '.join('(n %s)' % sx_str(i) if isinstance(i, str) else '(x %d)' % i for i in ignore) + ')'


# ---------------------------------------------------------------- calls
def gen_binding(rng, sig):
    """a full assignment: values for every parameter, some extra positionals / keywords"""
    vals = {n: (fresh(d) if (d is not inspect.Parameter.empty and rng.random() < 0.35) else fresh(rng.choice(VALUES)))
            for n, d in sig['params'] + sig['kwonly']}
    extra_pos = [fresh(rng.choice(VALUES)) for _ in range(rng.choice([0, 0, 1, 2]))] if sig['varargs'] else []
    extra_kw = {}
    if sig['varkw']:
        for n in rng.sample(EXTRA, rng.choice([0, 0, 1, 2])):
            extra_kw[n] = fresh(rng.choice(VALUES))
    return {'vals': vals, 'extra_pos': extra_pos, 'extra_kw': extra_kw}


def call_forms(rng, sig, b, nforms=4):
    """different ways of writing a call that Python binds to the assignment b.  Defaults may be
    omitted when the assigned value *is* the default (spelled out or not)."""
    forms = []
    pnames = [n for n, _ in sig['params']]
    for _ in range(nforms * 3):
        # how many parameters are passed positionally (all of them if there are extra positionals)
        npos = len(pnames) if b['extra_pos'] else rng.randint(0, len(pnames))
        args = [b['vals'][n] for n in pnames[:npos]] + list(b['extra_pos'])
        kw = {}
        for n, d in sig['params'][npos:]:
            if d is not inspect.Parameter.empty and _same(d, b['vals'][n]) and rng.random() < 0.5:
                continue
            kw[n] = b['vals'][n]
        for n, d in sig['kwonly']:
            if d is not inspect.Parameter.empty and _same(d, b['vals'][n]) and rng.random() < 0.5:
                continue
            kw[n] = b['vals'][n]
        kw.update(b['extra_kw'])
        items = list(kw.items())
        rng.shuffle(items)
        form = (tuple(args), dict(items))
        if form not in forms:
            forms.append(form)
        if len(forms) >= nforms:
            break
    return forms


def _same(a, b):
    return type(a) is type(b) and a == b


def gen_ignore(rng, sig):
    pool = [n for n, _ in sig['params']] + [n for n, _ in sig['kwonly']] + EXTRA[:2] + ['*', '**', 'nosuch']
    k = rng.choice([0, 0, 1, 1, 2, 3])
    out = []
    for _ in range(k):
        if rng.random() < 0.35:
            out.append(rng.randint(0, max(1, len(sig['params']) + 1)))
        else:
            out.append(rng.choice(pool))
    return tuple(out)


def py_bind(func, args, kwds):
    """CPython's own binding: (arguments dict with defaults applied) or None"""
    try:
        ba = inspect.signature(func).bind(*args, **kwds)
    except TypeError:
        return None
    ba.apply_defaults()
    return ba


# ---------------------------------------------------------------- keymaps
RAW_CFGS = [(t, f, m) for t in (False, True) for f in (True, False) for m in (False, True)]


def raw_keymap(typed, flat, mark):
    import klepto.keymaps as km
    if mark:
        return km.keymap(typed=typed, flat=flat, sentinel=SENT)
    return km.keymap(typed=typed, flat=flat)


def all_keymaps():
    """every keymap class x options, as (label, constructor, info-preserving?)"""
    import klepto.keymaps as km
    out = []
    for typed in (False, True):
        for flat in (True, False):
            for mark in (False, True):
                kw = dict(typed=typed, flat=flat)
                if mark:
                    kw['sentinel'] = SENT
                tag = '%s%s%s' % ('T' if typed else 't', 'F' if flat else 'f', 'M' if mark else 'm')
                out.append(('raw-' + tag, lambda kw=kw: km.keymap(**kw)))
                out.append(('hash-' + tag, lambda kw=kw: km.hashmap(**kw)))
                out.append(('md5-' + tag, lambda kw=kw: km.hashmap(algorithm='md5', **kw)))
                out.append(('str-' + tag, lambda kw=kw: km.stringmap(**kw)))
                out.append(('repr-' + tag, lambda kw=kw: km.stringmap(encoding='repr', **kw)))
                out.append(('pik-' + tag, lambda kw=kw: km.picklemap(**kw)))
                out.append(('pickle-' + tag, lambda kw=kw: km.picklemap(serializer='pickle', **kw)))
    return out


def hashable(k):
    try:
        hash(k)
        return True
    except TypeError:
        return False


def key_id(k):
    """identity of a key as a dict key would see it (== and hash), or structural text if unhashable"""
    if hashable(k):
        return ('h', k)
    return ('u', canon_val_any(k))


def canon_val_any(v):
    if isinstance(v, dict):
        return '{' + ','.join('%r:%s' % (k, canon_val_any(x)) for k, x in sorted(v.items(), key=lambda kv: repr(kv[0]))) + '}'
    if isinstance(v, (tuple, list)):
        return '(' + ','.join(canon_val_any(x) for x in v) + ')'
    return '%s:%r' % (type(v).__name__, v)


# ---------------------------------------------------------------- model access
def model_keygen(lines):
    return run_model(lines)
