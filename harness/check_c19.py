"""C19: klepto.validate / isvalid vs Python's own argument binding.
Truth = really calling a side-effect-free stub (TypeError from binding or not).  The Coq model M6
(coq/Keys/Validate.v) covers plain functions; its theorem says validate agrees with binding on
signatures without keyword-only parameters.  Outside the proven fragment (keyword-only or
positional-only parameters, partials fixing defaulted parameters) disagreements are known findings."""
import functools
import inspect
import json
import multiprocessing as mp
import os
import random
import sys
import time

sys.path.insert(0, os.path.dirname(os.path.abspath(__file__)))
from common import Report, seed, tier, write_evidence, run_model, load_findings
import keys_common as kc
import coqcheck


def gen_callable(rng):
    """(features, text, callable, model_sig or None)"""
    sig = kc.gen_sig(rng)
    posonly = 0
    kind = rng.choice(['plain', 'plain', 'plain', 'posonly', 'partial', 'partial', 'method', 'instance', 'classmethod', 'partial-method'])
    feats = {'kind': kind, 'kwonly': bool(sig['kwonly']), 'posonly': False, 'partial_fixes_defaulted': False,
             'partial_kw': False}
    text = kc.sig_text(sig)
    if kind == 'posonly' and sig['params']:
        posonly = rng.randint(1, len(sig['params']))
        parts = text.split('(', 1)[1].rsplit('):', 1)[0].split(', ')
        parts.insert(posonly, '/')
        text = 'def f(%s):\n    return 0\n' % ', '.join(parts)
        feats['posonly'] = True
    ns = {}
    try:
        exec(text, ns)
    except SyntaxError:
        exec(kc.sig_text(sig), ns)
        feats['posonly'] = False
        feats['kind'] = 'plain'
        kind = 'plain'
    f = ns['f']
    obj = f
    if kind == 'partial':
        n = rng.randint(0, len(sig['params']) + (1 if sig['varargs'] else 0))
        vals = [rng.choice(kc.VALUES) for _ in range(n)]
        names = [p for p, _ in sig['params']] + [p for p, _ in sig['kwonly']] + (['e'] if sig['varkw'] else [])
        kw = {p: rng.choice(kc.VALUES) for p in rng.sample(names, min(len(names), rng.choice([0, 0, 1, 2])))}
        obj = functools.partial(f, *vals, **kw)
        nreq = len([1 for _, d in sig['params'] if d is inspect.Parameter.empty])
        feats['partial_fixes_defaulted'] = n > nreq
        feats['partial_kw'] = bool(kw)
        text = 'partial(%s, *%r, **%r)' % (text.split('\n')[0], vals, kw)
    elif kind in ('method', 'instance'):
        msig = dict(sig)
        msig['params'] = [('self', inspect.Parameter.empty)] + [p for p in sig['params'] if p[0] != 'self']
        mtext = kc.sig_text(msig, 'meth')
        ns2 = {}
        exec(mtext, ns2)
        cls = type('V', (), {'meth': ns2['meth'], '__call__': ns2['meth']})
        inst = cls()
        if kind == 'instance' and rng.random() < 0.5:
            # a callable object that merely HAS data attributes with the names a functools.partial uses
            # (a command object keeping its argument list): it is not a partial
            inst.args = tuple(rng.choice(kc.VALUES) for _ in range(rng.randint(1, 2)))
            if rng.random() < 0.3:
                inst.keywords = {'e': 1}
        obj = inst.meth if kind == 'method' else inst
        text = ('bound ' if kind == 'method' else 'instance ') + mtext.split('\n')[0]
    elif kind in ('classmethod', 'partial-method'):
        first = 'cls' if kind == 'classmethod' else 'self'
        msig = dict(sig)
        msig['params'] = [(first, inspect.Parameter.empty)] + [p for p in sig['params'] if p[0] not in ('self', 'cls')]
        sig = dict(sig)
        sig['params'] = [p for p in sig['params'] if p[0] not in ('self', 'cls')]
        mtext = kc.sig_text(msig, 'meth')
        ns2 = {}
        exec(mtext, ns2)
        if kind == 'classmethod':
            cls = type('W', (), {'meth': classmethod(ns2['meth'])})
            obj = cls.meth if rng.random() < 0.5 else cls().meth
            text = 'classmethod ' + mtext.split('\n')[0]
        else:
            cls = type('W', (), {'meth': ns2['meth']})
            nreq = len([1 for _, d in sig['params'] if d is inspect.Parameter.empty])
            n = rng.randint(0, nreq)
            vals = [rng.choice(kc.VALUES) for _ in range(n)]
            obj = functools.partial(cls().meth, *vals)
            # the remaining signature, as the caller of the partial sees it
            sig['params'] = sig['params'][n:]
            text = 'partial(bound %s, *%r)' % (mtext.split('\n')[0], vals)
    model_sig = sig if kind == 'plain' else None
    return feats, text, obj, model_sig, sig


def gen_call(rng, sig):
    """valid and invalid calls"""
    names = [n for n, _ in sig['params']] + [n for n, _ in sig['kwonly']] + ['e', 'zz']
    npos = rng.randint(0, len(sig['params']) + 2)
    args = tuple(rng.choice(kc.VALUES) for _ in range(npos))
    kw = {n: rng.choice(kc.VALUES) for n in rng.sample(names, rng.randint(0, min(3, len(names))))}
    return args, kw


def truth(obj, args, kw):
    try:
        obj(*args, **kw)
        return True
    except TypeError:
        return False


def outside_fragment(feats):
    """which known limitation of validate() a disagreement falls under, or None"""
    if feats['posonly']:
        return 'K5b'
    if feats['kwonly']:
        return 'K5a'
    if feats['kind'] == 'partial' and feats['partial_fixes_defaulted']:
        return 'K5c'
    return None


def _worker(args):
    sd, lo, hi = args
    import klepto
    out = []
    for idx in range(lo, hi):
        rng = random.Random('C19-%d-%d' % (sd, idx))
        try:
            feats, text, obj, msig, sig = gen_callable(rng)
        except Exception as e:
            out.append({'idx': idx, 'error': 'generator: %s: %s' % (type(e).__name__, e)})
            continue
        rows = []
        lines = []
        calls = [gen_call(rng, sig) for _ in range(8)]
        for a, k in calls:
            t = truth(obj, a, k)
            try:
                iv = bool(klepto.isvalid(obj, *a, **k))
            except Exception as e:
                iv = 'EXC:%s' % type(e).__name__
            try:
                klepto.validate(obj, *a, **k)
                vr = True
            except TypeError:
                vr = False
            except Exception as e:
                vr = 'EXC:%s' % type(e).__name__
            rows.append({'call': kc.sx_call(a, k) if True else None, 'args': [repr(a), repr(k)], 'truth': t, 'isvalid': iv, 'validate': vr})
            if msig is not None:
                lines.append('k.validate %s %s' % (kc.sx_sig(msig), kc.sx_call(a, k)))
        mout = run_model(lines) if lines else []
        res = {'idx': idx, 'feats': feats, 'text': text, 'rows': [], 'corr': [], 'ncalls': len(rows),
               'valid': len([r for r in rows if r['truth']])}
        for i, r in enumerate(rows):
            if r['isvalid'] != r['truth'] or r['validate'] != r['truth']:
                res['rows'].append(r)
            if msig is not None:
                mv, mb = mout[i].split()
                if (mb == '1') != r['truth']:
                    res['corr'].append({'what': 'model bind_ok=%s but the call is %s' % (mb, 'valid' if r['truth'] else 'invalid'), 'row': r})
                if (mv == '1') != (r['validate'] is True):
                    res['corr'].append({'what': 'model validate_ok=%s but klepto.validate %s' % (mv, 'accepts' if r['validate'] is True else 'rejects'), 'row': r})
        out.append(res)
    return out


def main():
    t0 = time.time()
    prop = 'C19'
    thorough = tier() == 'thorough'
    sd = seed()
    rep = Report(prop)
    findings = {f['id']: f for f in load_findings() if f.get('property') == 'C19' and f.get('status') == 'known'}
    proof_ok, pinfo = coqcheck.proof_status(prop)
    n = 400000 if thorough else 1500
    results = []
    if pinfo.get('build_ok'):
        nproc = min(16, os.cpu_count() or 4)
        chunk = max(10, n // (nproc * 3))
        jobs = [(sd, lo, min(lo + chunk, n)) for lo in range(0, n, chunk)]
        with mp.Pool(nproc) as pool:
            for part in pool.imap_unordered(_worker, jobs):
                results.extend(part)
    results.sort(key=lambda r: r['idx'])
    seen = set()
    buckets = {}
    ncalls = nvalid = 0
    samples = []
    for r in results:
        if 'error' in r:
            if 'err' not in seen:
                seen.add('err')
                rep.violation('harness error: %s' % r['error'], {'trace_index': r['idx'], 'seed': sd, 'broken': 'C19 harness'}, no_input=True)
            continue
        ncalls += r['ncalls']
        nvalid += r['valid']
        b = outside_fragment(r['feats']) or 'fragment:' + r['feats']['kind']
        st = buckets.setdefault(b, {'callables': 0, 'calls': 0, 'disagreements': 0})
        st['callables'] += 1
        st['calls'] += r['ncalls']
        st['disagreements'] += len(r['rows'])
        if len(samples) < 3 and r['idx'] % 101 == 0:
            samples.append({'callable': r['text'], 'features': r['feats']})
        for row in r['rows']:
            kid = outside_fragment(r['feats'])
            if kid and kid in findings:
                rep.known_finding(kid, findings[kid]['description'])
                continue
            key = ('dis', r['feats']['kind'])
            if key in seen:
                continue
            seen.add(key)
            rep.violation('isvalid/validate disagree with Python on %s called with %s: really %s, isvalid=%r, validate %s'
                          % (r['text'], row['args'], 'valid' if row['truth'] else 'invalid', row['isvalid'],
                             'accepts' if row['validate'] is True else 'rejects'),
                          {'callable': r['text'], 'features': r['feats'], 'call': row['args'], 'truth': row['truth'],
                           'isvalid': row['isvalid'], 'validate': row['validate'], 'seed': sd, 'trace_index': r['idx']})
        if r['corr'] and 'corr' not in seen:
            seen.add('corr')
            c0 = r['corr'][0]
            rep.violation('klepto and the model disagree: %s on %s %s' % (c0['what'], r['text'], c0['row']['args']),
                          {'callable': r['text'], 'divergence': c0, 'seed': sd, 'trace_index': r['idx'],
                           'broken': 'correspondence of klepto.validate / CPython binding with coq/Keys/Validate.v, Keys.v (theorem C19_fragment)'},
                          no_input=True)
    if not proof_ok:
        rep.violation('proof obligation no longer checks: %s' % (pinfo.get('log') or pinfo.get('build_log')), {'broken': 'coq/Props/C19.v'}, no_input=True)
    nth = len(pinfo.get('theorems', []))
    cov = {'obligations': nth, 'discharged': nth if proof_ok else 0,
           'checker_cmd': 'cd /verif && ./build.sh && cd coq && coqc -Q Base Klepto -Q Cache Klepto -Q Keys Klepto -Q Store Klepto -Q Props Klepto Props/C19.v',
           'trusted_base': ['Coq 8.16.1 kernel', 'axioms: %s' % (', '.join(pinfo.get('axioms', [])) or 'none (Closed under the global context x%d)' % pinfo.get('closed', 0)),
                            'truth = really calling a stub with an empty body and catching TypeError',
                            'model of Python binding and of validate() for plain functions (coq/Keys/Keys.v, Validate.v), compared on every plain-function call'],
           'theorems': pinfo.get('theorems', []), 'print_assumptions': pinfo.get('print_assumptions', ''),
           'evaluations': ncalls, 'distinct_nontrivial': len([r for r in results if 'error' not in r and 0 < r['valid'] < r['ncalls']]),
           'rule': 'one evaluation = one (callable, argument list): plain functions, positional-only variants, partials fixing positionals/keywords, bound methods, callable instances x 8 generated calls (valid and invalid); non-trivial callable = has both valid and invalid calls',
           'traces_validated_against_impl': len([r for r in results if 'error' not in r and not r['corr']]),
           'valid_calls': nvalid, 'buckets': buckets, 'samples': samples or [{'note': 'none'}],
           'known_findings_reproduced': [k for k, _ in rep.known]}
    write_evidence(prop, 'proof', cov, time.time() - t0, len(rep.violations),
                   ['the full statement is refuted outside the fragment (theorem C19_refuted_keyword_only); those disagreements are known findings K5a/b/c'])
    return rep.emit()


if __name__ == '__main__':
    sys.exit(main())
