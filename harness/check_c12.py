"""C12: rounding tolerance.  Model M5 (coq/Keys/Rounding.v) vs klepto.rounding and the tol/deep path of
every cache decorator and klepto.keygen; the leaf oracle for round(x, tol) is exact decimal
arithmetic (decimal module), independent of float.__round__."""
import collections
import decimal
import json
import math
import multiprocessing as mp
import os
import random
import struct
import sys
import time

sys.path.insert(0, os.path.dirname(os.path.abspath(__file__)))
from common import Report, seed, tier, write_evidence, run_model, load_findings
import coqcheck

Point = collections.namedtuple('Point', 'x y')


class Obj:
    def __init__(self, n):
        self.n = n

    def __repr__(self):
        return 'Obj(%r)' % (self.n,)

    def __eq__(self, o):
        return isinstance(o, Obj) and o.n == self.n

    def __hash__(self):
        return hash(('Obj', self.n))


def bits(x):
    return struct.unpack('<Q', struct.pack('<d', x))[0]


def oracle_round(x, n):
    """round(x, n) by exact decimal arithmetic: round the exact value of the double half-even to n
    decimals, then take the nearest double.  'overflow' when the result is not representable."""
    if math.isnan(x) or math.isinf(x) or x == 0.0:
        return x
    ctx = decimal.Context(prec=2000, rounding=decimal.ROUND_HALF_EVEN, Emax=decimal.MAX_EMAX, Emin=decimal.MIN_EMIN)
    d = ctx.create_decimal(decimal.Decimal(x))
    q = d.quantize(decimal.Decimal(1).scaleb(-n), context=ctx)
    if q.is_zero():
        return math.copysign(0.0, x)
    try:
        r = float(q)
    except OverflowError:
        return 'overflow'
    if math.isinf(r):
        return 'overflow'
    return r


FLOAT_POOL = [0.25, 2.675, 1.005, 0.5, 1.5, 2.5, -0.5, -2.5, 1.26, 1.31, 2.52, 1.349, 1e-7, 123456.789, -0.0, 0.0,
              float('inf'), float('-inf'), float('nan'), 1e22, 5e-324, 0.1 + 0.2, 1 / 3, 2 / 3, 14.5, 15.5, 0.125, 0.375,
              99999.99999, 1.7976931348623157e308, 1e300, -1e-300, 3.0, 27.0]


def gen_float(rng):
    r = rng.random()
    if r < 0.55:
        return rng.choice(FLOAT_POOL)
    if r < 0.8:
        return round(rng.uniform(-100, 100), rng.randint(0, 6)) + rng.choice([0, 0.5, 0.05, 0.005])
    if r < 0.9:
        return rng.uniform(-1, 1) * 10 ** rng.randint(-12, 12)
    return struct.unpack('<d', struct.pack('<Q', rng.getrandbits(64)))[0]


def gen_value(rng, depth, allow_opaque=True):
    r = rng.random()
    if depth <= 0 or r < 0.45:
        k = rng.random()
        if k < 0.45:
            return gen_float(rng)
        if k < 0.6:
            return rng.randint(-5, 50)
        if k < 0.68:
            return rng.choice([True, False])
        if k < 0.82:
            return rng.choice(['abc', '', 'x', '1.26', 'hello world'])
        if k < 0.87:
            return None
        if k < 0.92:
            return rng.choice([b'ab', b''])
        if k < 0.96:
            return Obj(rng.randint(0, 3))
        return ValueError('boom')
    n = rng.randint(0, 3)
    if r < 0.6:
        return [gen_value(rng, depth - 1) for _ in range(n)]
    if r < 0.72:
        return tuple(gen_value(rng, depth - 1) for _ in range(n))
    if r < 0.8:
        return set(gen_hashable(rng, depth - 1) for _ in range(n))
    if r < 0.84:
        return frozenset(gen_hashable(rng, depth - 1) for _ in range(n))
    if r < 0.94:
        d = {}
        for _ in range(n):
            kk = rng.choice(['a', 'b', 'k1', 1, 2, (1, 2), 2.5, None]) if rng.random() < 0.5 else rng.choice(['a', 'b', 'c'])
            d[kk] = gen_value(rng, depth - 1)
        r2 = rng.random()
        if r2 < 0.12:
            import collections
            return collections.OrderedDict(d)
        if r2 < 0.24:
            import collections
            return collections.defaultdict(int, d)       # a dict subclass whose constructor takes a factory first
        return d
    if allow_opaque:
        if rng.random() < 0.5:
            return range(rng.randint(0, 3))
        return Point(gen_float(rng), rng.randint(0, 3))
    return [gen_value(rng, depth - 1) for _ in range(n)]


def gen_hashable(rng, depth):
    r = rng.random()
    if r < 0.5:
        f = gen_float(rng)
        return f if not math.isnan(f) else 1.5
    if r < 0.7:
        return rng.randint(0, 9)
    if r < 0.85:
        return rng.choice(['p', 'q'])
    return tuple(gen_hashable(rng, depth - 1) for _ in range(rng.randint(0, 2))) if depth > 0 else None


class Tables:
    def __init__(self):
        self.f = {}        # bits -> id
        self.fl = []       # id -> float
        self.s = {}
        self.sl = []
        self.o = {}
        self.ol = []

    def fid(self, x):
        b = bits(x)
        if b not in self.f:
            self.f[b] = len(self.fl)
            self.fl.append(x)
        return self.f[b]

    def sid(self, x):
        k = (type(x).__name__, repr(x), id(x) if isinstance(x, BaseException) else 0)
        if k not in self.s:
            self.s[k] = len(self.sl)
            self.sl.append(x)
        return self.s[k]

    def oid(self, x):
        k = (type(x).__name__, repr(x))
        if k not in self.o:
            self.o[k] = len(self.ol)
            self.ol.append(x)
        return self.o[k]


def to_sx(v, t):
    if isinstance(v, bool):
        return '(B %d)' % (1 if v else 0)
    if isinstance(v, float):
        return '(F %d)' % t.fid(v)
    if isinstance(v, int):
        return '(I %d)' % v
    if v is None:
        return 'N'
    if isinstance(v, (str, BaseException)):
        return '(S %d)' % t.sid(v)
    if isinstance(v, Point) or isinstance(v, range):
        return '(Q o%s)' % ''.join(' ' + to_sx(x, t) for x in v)
    if isinstance(v, dict):
        return '(D%s)' % ''.join(' (%s %s)' % (to_sx(k, t), to_sx(x, t)) for k, x in v.items())
    for typ, tag in ((list, 'l'), (tuple, 't'), (set, 's'), (frozenset, 'f'), (bytes, 'b')):
        if isinstance(v, typ):
            items = list(v)
            if typ in (set, frozenset):
                items = sorted(items, key=lambda e: (type(e).__name__, repr(e)))
            return '(Q %s%s)' % (tag, ''.join(' ' + to_sx(x, t) for x in items))
    return '(O %d)' % t.oid(v)


def from_sx(text, t, originals):
    """parse the model's output back into Python objects (opaque iterables: the original object)"""
    toks = text.replace('(', ' ( ').replace(')', ' ) ').split()

    def parse(i):
        if toks[i] == '(':
            items = []
            i += 1
            while toks[i] != ')':
                x, i = parse(i)
                items.append(x)
            return items, i + 1
        return toks[i], i + 1

    def build(x):
        if x == 'N':
            return None
        tag = x[0]
        if tag == 'F':
            return t.fl[int(x[1])]
        if tag == 'I':
            return int(x[1])
        if tag == 'B':
            return x[1] == '1'
        if tag == 'S':
            return t.sl[int(x[1])]
        if tag == 'O':
            return t.ol[int(x[1])]
        if tag == 'Q':
            kind = x[1]
            items = [build(y) for y in x[2:]]
            if kind == 'l':
                return items
            if kind == 't':
                return tuple(items)
            if kind == 's':
                return set(items)
            if kind == 'f':
                return frozenset(items)
            if kind == 'b':
                return bytes(items)
            return ('OPAQUE', tuple(items))
        if tag == 'D':
            return {build_key(k): build(v) for k, v in x[1:]}
        raise ValueError(x)

    def build_key(k):
        v = build(k)
        return v
    out = []
    i = 0
    while i < len(toks):
        x, i = parse(i)
        out.append(x)
    return out, build


def same(a, b):
    """structural identity: same types, floats bit-identical, containers elementwise"""
    if isinstance(b, tuple) and len(b) == 2 and b[0] == 'OPAQUE':
        return (isinstance(a, (range, Point))) and len(tuple(a)) == len(b[1]) and all(same(x, y) for x, y in zip(tuple(a), b[1]))
    if isinstance(a, dict) and isinstance(b, dict) and type(a) is not type(b):
        # a dict subclass (OrderedDict, defaultdict): the model has one kind of dict; when nothing is rounded the
        # function gets the caller's own object, when something is, a plain dict - compared by contents
        a, b = dict(a), dict(b)
    if type(a) is not type(b):
        return False
    if isinstance(a, float):
        return bits(a) == bits(b) or (math.isnan(a) and math.isnan(b))
    if isinstance(a, (list, tuple)):
        return len(a) == len(b) and all(same(x, y) for x, y in zip(a, b))
    if isinstance(a, (set, frozenset)):
        # rounding may merge elements that are equal but of different type (0 and 0.0): which one a
        # set keeps depends on iteration order, so sets are compared as Python compares them
        return a == b
    if isinstance(a, dict):
        if len(a) != len(b):
            return False
        for (k1, v1), (k2, v2) in zip(a.items(), b.items()):
            if not same(k1, k2) or not same(v1, v2):
                return False
        return True
    if isinstance(a, BaseException):
        return repr(a) == repr(b)
    return a == b


def float_leaves(v, out):
    if isinstance(v, float):
        out.append(v)
    elif isinstance(v, dict):
        for k, x in v.items():
            float_leaves(k, out)
            float_leaves(x, out)
    elif isinstance(v, (list, tuple, set, frozenset)):
        for x in v:
            float_leaves(x, out)


def gen_case(sd, idx):
    rng = random.Random('C12-%d-%d' % (sd, idx))
    mode = rng.choice(['s', 'd', 'd', 'h'])
    tol = rng.choice([None, -2, -1, 0, 0, 1, 1, 2, 3, 6, 15])
    nargs = rng.randint(1, 3)
    args = [gen_value(rng, 3) for _ in range(nargs)]
    kwds = {}
    for n in rng.sample(['p', 'q', 'r'], rng.randint(0, 2)):
        kwds[n] = gen_value(rng, 3)
    return {'mode': mode, 'tol': tol, 'args': args, 'kwds': kwds}


def model_round(case, t):
    """run the Coq model on the case; returns (args, kwds) as Python objects, or 'overflow'"""
    leaves = []
    for a in case['args']:
        float_leaves(a, leaves)
    for a in case['kwds'].values():
        float_leaves(a, leaves)
    table = []
    if case['tol'] is not None:
        for x in leaves:
            r = oracle_round(x, case['tol'])
            if r == 'overflow':
                return 'overflow'
            table.append((t.fid(x), t.fid(r)))
    names = {n: i for i, n in enumerate(sorted(case['kwds']))}
    line = 'r.call %d %s (%s) (%s) (%s)' % (
        0 if case['tol'] is None else 1, case['mode'],
        ' '.join('(%d %d)' % p for p in sorted(set(table))),
        ' '.join(to_sx(a, t) for a in case['args']),
        ' '.join('(%d %s)' % (names[n], to_sx(v, t)) for n, v in case['kwds'].items()))
    out = run_model([line])[0]
    if out.startswith('error'):
        raise RuntimeError(out + ' :: ' + line)
    parsed, build = from_sx(out, t, None)
    margs = [build(x) for x in parsed[0]]
    inv = {i: n for n, i in names.items()}
    mkw = {inv[int(e[0])]: build(e[1]) for e in parsed[1]}
    return margs, mkw


def run_case(case):
    """returns list of problems {kind: 'corr'|'monitor', what}"""
    import klepto
    import klepto.rounding as kr
    problems = []
    t = Tables()
    mode, tol = case['mode'], case['tol']
    args, kwds = case['args'], case['kwds']
    expected = model_round(case, t)
    deco = {'s': kr.simple_round, 'd': kr.deep_round, 'h': kr.shallow_round}[mode]
    got = {}

    def f(*a, **k):
        got['a'], got['k'] = a, k
        return 0
    # ---- the standalone decorators hand the rounded arguments to the function
    try:
        deco(tol)(f)(*args, **kwds)
        res = (list(got['a']), got['k'])
    except Exception as e:
        res = e
    if expected == 'overflow':
        pass            # known finding K7 (rounded value too large): not compared
    elif isinstance(res, Exception):
        problems.append({'kind': 'monitor', 'sub': 'raises',
                         'what': '%s_round(tol=%r) raised %s: %s on %r %r' % (
                             {'s': 'simple', 'd': 'deep', 'h': 'shallow'}[mode], tol, type(res).__name__, res, args, kwds)})
    else:
        margs, mkw = expected
        ok = len(res[0]) == len(margs) and all(same(x, y) for x, y in zip(res[0], margs)) and \
            set(res[1]) == set(mkw) and all(same(res[1][n], mkw[n]) for n in mkw)
        if not ok:
            problems.append({'kind': 'corr', 'sub': 'standalone',
                             'what': '%s_round(tol=%r): function received %r %r, rounding oracle + model say %r %r' % (
                                 {'s': 'simple', 'd': 'deep', 'h': 'shallow'}[mode], tol, res[0], res[1], margs, mkw)})
    # ---- cache decorators / keygen: the key is computed from rounded arguments, the function sees the originals
    if mode in ('s', 'd') and expected != 'overflow':
        margs, mkw = expected
        deep = mode == 'd'
        lv = []
        for a in list(args) + list(kwds.values()):
            float_leaves(a, lv)
        has_nan = any(math.isnan(x) for x in lv)
        import klepto.keymaps as km

        def stub(*a, **k):
            got['a'], got['k'] = a, k
            return 1
        # all 12 decorators, alternating over the evaluations (the case's float leaves pick the half)
        names = ('lru_cache', 'lfu_cache', 'inf_cache', 'no_cache', 'mru_cache', 'rr_cache')
        half = len(repr((args, kwds))) % 2
        for i, name in enumerate(names):
            mod = klepto if (i + half) % 2 == 0 else klepto.safe
            cls = getattr(mod, name)
            # the standard caches need a hashable key whatever the arguments are: a string key;
            # the safe caches are exercised with the raw (possibly unhashable) key and their fall-back
            kmap = km.stringmap(flat=False) if mod is klepto else km.keymap(flat=False)
            fr = cls(maxsize=5, keymap=kmap, tol=tol, deep=deep)(stub) if 'no_' not in name and 'inf' not in name else \
                cls(keymap=kmap, tol=tol, deep=deep)(stub)
            f0 = cls(maxsize=5, keymap=kmap)(stub) if 'no_' not in name and 'inf' not in name else cls(keymap=kmap)(stub)
            try:
                k1 = fr.key(*args, **kwds)
            except Exception as e:
                problems.append({'kind': 'monitor', 'sub': 'raises',
                                 'what': '%s.%s(tol=%r, deep=%r).key raised %s: %s on %r %r' % (
                                     mod.__name__, name, tol, deep, type(e).__name__, e, args, kwds)})
                continue
            try:
                k0 = f0.key(*[rebuild(m, a) for m, a in zip(margs, args)], **{n: rebuild(mkw[n], kwds[n]) for n in mkw})
            except Skip:
                k0 = None
            except Exception as e:
                k0 = None
            if k0 is not None and not has_nan and k1 != k0 and not (mod is klepto and _has_set((args, kwds))):
                # (a string key spells out the iteration order of a set, which differs between two equal set objects)
                problems.append({'kind': 'corr', 'sub': 'key',
                                 'what': '%s.%s(tol=%r, deep=%r): key(%r, %r) = %r but key of the oracle-rounded arguments = %r' % (
                                     mod.__name__, name, tol, deep, args, kwds, k1, k0)})
            got.clear()
            try:
                fr(*args, **kwds)
            except Exception as e:
                if not (mod is klepto and 'unhashable' in str(e)):
                    problems.append({'kind': 'monitor', 'sub': 'raises',
                                     'what': '%s.%s(tol=%r, deep=%r) call raised %s: %s' % (mod.__name__, name, tol, deep, type(e).__name__, e)})
                continue
            if 'a' in got:
                if len(got['a']) != len(args) or any(x is not y for x, y in zip(got['a'], args)) or \
                        set(got['k']) != set(kwds) or any(got['k'][n] is not kwds[n] for n in kwds):
                    problems.append({'kind': 'monitor', 'sub': 'received',
                                     'what': '%s.%s(tol=%r, deep=%r): the function received %r %r, the caller passed %r %r' % (
                                         mod.__name__, name, tol, deep, got['a'], got['k'], args, kwds)})
        # ---- klepto.keygen: calling it returns the key, .key() the key of the most recent call, .call() evaluates
        try:
            kmap = km.stringmap(flat=False)
            kg = klepto.keygen(keymap=kmap, tol=tol, deep=deep)(stub)
            ka = kg(*args, **kwds)
            kb = kg.key()
            if ka != kb and not has_nan:
                problems.append({'kind': 'monitor', 'sub': 'keygen',
                                 'what': 'klepto.keygen(tol=%r, deep=%r): the call returned key %r but .key() of the same call is %r' % (tol, deep, ka, kb)})
            try:
                k0 = klepto.keygen(keymap=km.stringmap(flat=False))(stub)(*[rebuild(m, a) for m, a in zip(margs, args)], **{n: rebuild(mkw[n], kwds[n]) for n in mkw})
            except Exception:
                k0 = None
            if k0 is not None and not has_nan and ka != k0 and not _has_set((args, kwds)):
                problems.append({'kind': 'corr', 'sub': 'key',
                                 'what': 'klepto.keygen(tol=%r, deep=%r): key(%r, %r) = %r but key of the oracle-rounded arguments = %r' % (tol, deep, args, kwds, ka, k0)})
            got.clear()
            kg.call()
            if 'a' in got and (len(got['a']) != len(args) or any(x is not y for x, y in zip(got['a'], args)) or
                               set(got['k']) != set(kwds) or any(got['k'][n] is not kwds[n] for n in kwds)):
                problems.append({'kind': 'monitor', 'sub': 'received',
                                 'what': 'klepto.keygen(tol=%r, deep=%r).call(): the function received %r %r, the caller passed %r %r' % (tol, deep, got['a'], got['k'], args, kwds)})
        except Exception as e:
            problems.append({'kind': 'monitor', 'sub': 'raises', 'what': 'klepto.keygen(tol=%r, deep=%r) raised %s: %s on %r %r' % (tol, deep, type(e).__name__, e, args, kwds)})
    return problems


class Skip(Exception):
    pass


def _has_set(x):
    """contains something whose str() is not a function of its value alone: a set (iteration order) or a
    dict subclass (OrderedDict(...) / defaultdict(...) spell their class)"""
    if isinstance(x, (set, frozenset)):
        return True
    if isinstance(x, dict) and type(x) is not dict:
        return True
    if isinstance(x, dict):
        return any(_has_set(k) or _has_set(v) for k, v in x.items())
    if isinstance(x, (list, tuple)):
        return any(_has_set(y) for y in x)
    return False


def rebuild(m, orig):
    """the model's rounded value as a Python object, opaque iterables taken from the original"""
    if isinstance(m, tuple) and len(m) == 2 and m[0] == 'OPAQUE':
        return orig
    if isinstance(m, list):
        return [rebuild(x, y) for x, y in zip(m, orig)]
    if isinstance(m, tuple):
        return tuple(rebuild(x, y) for x, y in zip(m, orig))
    if isinstance(m, dict):
        return {k: rebuild(v, orig[ko]) for (k, v), ko in zip(m.items(), orig)}
    if isinstance(m, (set, frozenset)):
        for x in m:
            if isinstance(x, tuple) and x[:1] == ('OPAQUE',):
                raise Skip()
        return m
    return m


def pair_case(sd, idx):
    """pairs of calls: merged iff they round to the same values (oracle)"""
    rng = random.Random('C12p-%d-%d' % (sd, idx))
    tol = rng.choice([0, 1, 1, 2, 3])
    base = rng.choice([1.26, 2.675, 0.25, 14.5, 1.005, 99.995])
    delta = rng.choice([0.0, 10 ** -(tol + 2), 10 ** -(tol + 1) * 0.4, 10 ** -tol * 0.6, 10 ** -tol, -10 ** -(tol + 1) * 0.3])
    deep = rng.random() < 0.5
    wrap = rng.choice(['top', 'list', 'dict', 'kw'])
    return {'tol': tol, 'x': base, 'y': base + delta, 'deep': deep, 'wrap': wrap}


def run_pair(pc):
    import klepto
    import klepto.keymaps as km
    problems = []
    tol, deep = pc['tol'], pc['deep']

    def mk(v):
        if pc['wrap'] == 'top':
            return (v,), {}
        if pc['wrap'] == 'list':
            return ([v, 'a', 3],), {}
        if pc['wrap'] == 'dict':
            return ({'u': v, 'w': [v]},), {}
        return (), {'z': v}
    calls = []

    def stub(*a, **k):
        calls.append(1)
        return 7
    f = klepto.inf_cache(keymap=km.picklemap(flat=False), tol=tol, deep=deep)(stub)
    a1, k1 = mk(pc['x'])
    a2, k2 = mk(pc['y'])
    f(*a1, **k1)
    f(*a2, **k2)
    rounded_same = bits(oracle_round(pc['x'], tol)) == bits(oracle_round(pc['y'], tol)) or \
        oracle_round(pc['x'], tol) == oracle_round(pc['y'], tol)
    reaches = pc['wrap'] in ('top', 'kw') or deep
    want_merge = rounded_same if reaches else bits(pc['x']) == bits(pc['y'])
    merged = len(calls) == 1
    if merged != want_merge:
        problems.append({'kind': 'monitor', 'sub': 'merge',
                         'what': 'tol=%r deep=%r: calls with %r and %r (%s) were %s; they round to %r and %r' % (
                             tol, deep, pc['x'], pc['y'], pc['wrap'], 'merged' if merged else 'kept apart',
                             oracle_round(pc['x'], tol), oracle_round(pc['y'], tol))})
    return problems


def _worker(args):
    sd, lo, hi = args
    out = []
    for idx in range(lo, hi):
        case = gen_case(sd, idx)
        try:
            probs = run_case(case)
        except Exception as e:
            out.append({'idx': idx, 'error': '%s: %s' % (type(e).__name__, e)})
            continue
        pp = run_pair(pair_case(sd, idx))
        leaves = []
        for a in case['args']:
            float_leaves(a, leaves)
        out.append({'idx': idx, 'problems': probs[:4] + pp, 'mode': case['mode'], 'tol': case['tol'], 'nfloats': len(leaves),
                    'sample': {'mode': case['mode'], 'tol': case['tol'], 'args': repr(case['args'])[:200], 'kwds': repr(case['kwds'])[:120]} if idx % 67 == 0 else None})
    return out


def leaf_oracle_check(sd, n):
    """the decimal oracle against float.__round__ on many doubles (a test of the oracle itself)"""
    rng = random.Random('C12o-%d' % sd)
    bad = []
    for _ in range(n):
        x = gen_float(rng)
        nd = rng.randint(-5, 18)
        o = oracle_round(x, nd)
        try:
            r = round(x, nd)
        except OverflowError:
            r = 'overflow'
        if o == 'overflow' or r == 'overflow':
            if o != r:
                bad.append((x, nd, o, r))
        elif bits(o) != bits(r) and not (math.isnan(o) and math.isnan(r)):
            bad.append((x, nd, o, r))
    return bad


def classify_known(p, findings):
    import findings as fmod
    for f in findings:
        if f.get('property') == 'C12' and f.get('status') == 'known':
            pred = getattr(fmod, f['predicate'], None)
            if pred and pred(p):
                return f
    return None


def main():
    t0 = time.time()
    prop = 'C12'
    thorough = tier() == 'thorough'
    sd = seed()
    rep = Report(prop)
    findings = load_findings()
    proof_ok, pinfo = coqcheck.proof_status(prop)
    n = 200000 if thorough else 500
    results = []
    if pinfo.get('build_ok'):
        nproc = min(16, os.cpu_count() or 4)
        chunk = max(5, n // (nproc * 3))
        jobs = [(sd, lo, min(lo + chunk, n)) for lo in range(0, n, chunk)]
        with mp.Pool(nproc) as pool:
            for part in pool.imap_unordered(_worker, jobs):
                results.extend(part)
    results.sort(key=lambda r: r['idx'])
    obad = leaf_oracle_check(sd, 300000 if thorough else 6000)
    if obad:
        rep.violation('round(x, n) disagrees with exact decimal rounding: round(%r, %r) = %r, oracle %r' % (obad[0][0], obad[0][1], obad[0][3], obad[0][2]),
                      {'cases': [list(map(repr, b)) for b in obad[:5]]})
    seen = set()
    dist = {}
    for r in results:
        if 'error' in r:
            if 'err' not in seen:
                seen.add('err')
                rep.violation('harness error: %s' % r['error'], {'trace_index': r['idx'], 'seed': sd, 'broken': 'C12 correspondence harness'}, no_input=True)
            continue
        dist['mode=%s' % r['mode']] = dist.get('mode=%s' % r['mode'], 0) + 1
        dist['tol=%s' % r['tol']] = dist.get('tol=%s' % r['tol'], 0) + 1
        for p in r['problems']:
            kf = classify_known(p, findings)
            if kf:
                rep.known_finding(kf['id'], kf['description'])
                continue
            key = (p['kind'], p['sub'])
            if key in seen:
                continue
            seen.add(key)
            case = gen_case(sd, r['idx'])
            payload = {'case': {'mode': case['mode'], 'tol': case['tol'], 'args': repr(case['args']), 'kwds': repr(case['kwds'])},
                       'trace_index': r['idx'], 'seed': sd, 'problem': p}
            if p['kind'] == 'monitor':
                rep.violation(p['what'][:600], payload)
            else:
                payload['broken'] = 'correspondence of klepto.rounding with coq/Keys/Rounding.v + decimal oracle (theorems of Props/C12.v)'
                rep.violation(p['what'][:600], payload)
    # ---- recorded known findings are probed directly: the line is printed only while they reproduce
    for f in findings:
        if f.get('property') == 'C12' and f.get('status') == 'known' and f.get('probe'):
            try:
                if getattr(__import__('findings'), f['probe'])():
                    rep.known_finding(f['id'], f['description'])
            except Exception as e:
                rep.violation('probe of known finding %s failed: %s' % (f['id'], e), {'broken': 'known-finding probe'}, no_input=True)
    if not proof_ok:
        rep.violation('proof obligation no longer checks: %s' % (pinfo.get('log') or pinfo.get('build_log')), {'broken': 'coq/Props/C12.v'}, no_input=True)
    nth = len(pinfo.get('theorems', []))
    cov = {'obligations': nth, 'discharged': nth if proof_ok else 0,
           'checker_cmd': 'cd /verif && ./build.sh && cd coq && coqc -Q Base Klepto -Q Cache Klepto -Q Keys Klepto -Q Store Klepto -Q Props Klepto Props/C12.v',
           'trusted_base': ['Coq 8.16.1 kernel', 'axioms: %s' % (', '.join(pinfo.get('axioms', [])) or 'none (Closed under the global context x%d)' % pinfo.get('closed', 0)),
                            'leaf rounding oracle: exact decimal arithmetic (decimal module), checked against float.__round__ on %d doubles this run' % (300000 if thorough else 6000),
                            'hand-written structure-walk model coq/Keys/Rounding.v tied to klepto.rounding by differential comparison'],
           'theorems': pinfo.get('theorems', []), 'print_assumptions': pinfo.get('print_assumptions', ''),
           'evaluations': len(results), 'distinct_nontrivial': len([r for r in results if r.get('nfloats', 0) >= 1]),
           'rule': 'one evaluation = one generated call (nested lists/tuples/sets/dicts with str and non-str keys, ranges, namedtuples, strings, exceptions, floats incl. ties, signed zeros, inf, nan, subnormals) under one of simple/deep/shallow x tol, run through the standalone decorator, 6 of the 12 cache decorators (alternating halves, all 12 over the run) and a merge/split pair; non-trivial = contains a float',
           'traces_validated_against_impl': len([r for r in results if 'error' not in r and not [p for p in r['problems'] if p['kind'] == 'corr']]),
           'distribution': dict(sorted(dist.items())), 'samples': [r['sample'] for r in results if r.get('sample')][:3] or [{'note': 'none'}],
           'known_findings_reproduced': [k for k, _ in rep.known]}
    write_evidence(prop, 'proof', cov, time.time() - t0, len(rep.violations),
                   ['round(x, tol) itself is CPython; the oracle is independent decimal arithmetic', 'generators passed as arguments are outside the grammar (iterating consumes them)'])
    return rep.emit()


if __name__ == '__main__':
    sys.exit(main())
