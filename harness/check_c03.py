"""C03: every archive type refines a Python dict.
Random sequences of mapping operations on every constructible archive configuration are compared,
after every step, with a real dict (the specification) and with the Coq dict specification
coq/Store/DictSpec.v (dstep); the backend models coq/Store/{FileArch,Backends}.v are proved to
refine that specification."""
import json
import multiprocessing as mp
import os
import random
import sys
import time

sys.path.insert(0, os.path.dirname(os.path.abspath(__file__)))
from common import Scratch, Report, seed, tier, write_evidence, run_model, load_findings
import coqcheck

NONE_CODE = -7777


def configs():
    """(label, constructor(path) -> archive, key kinds, value kinds)"""
    import klepto.archives as ar
    out = []
    out.append(('dict', lambda p: ar.dict_archive('d', cached=False), 'any', 'any'))
    out.append(('null', lambda p: ar.null_archive('n', cached=False), 'any', 'any'))
    # the same archives behind an in-memory cache (klepto.archives.cache): the mapping protocol of the front end
    out.append(('dict-cached', lambda p: ar.dict_archive('dc', cached=True), 'any', 'any'))
    out.append(('file-cached', lambda p: ar.file_archive(p + '.pkl', cached=True), 'any', 'any'))
    out.append(('file-pickle', lambda p: ar.file_archive(p + '.pkl', cached=False), 'any', 'any'))
    out.append(('file-pickle-p2', lambda p: ar.file_archive(p + '.pkl', cached=False, protocol=2), 'any', 'any'))
    out.append(('file-json', lambda p: ar.file_archive(p + '.json', cached=False, protocol='json'), 'str', 'json'))
    out.append(('file-source', lambda p: ar.file_archive(p + '.py', cached=False, serialized=False), 'lit', 'lit'))
    out.append(('dir-pickle', lambda p: ar.dir_archive(p + '.d', cached=False), 'dir', 'any'))
    out.append(('dir-fast', lambda p: ar.dir_archive(p + '.d', cached=False, fast=True), 'dir', 'any'))
    out.append(('dir-compressed', lambda p: ar.dir_archive(p + '.d', cached=False, compression=3), 'dir', 'any'))
    out.append(('dir-memmap', lambda p: ar.dir_archive(p + '.d', cached=False, memmode='r'), 'dir', 'any'))
    out.append(('dir-json', lambda p: ar.dir_archive(p + '.d', cached=False, protocol='json'), 'dirstr', 'json'))
    out.append(('dir-source', lambda p: ar.dir_archive(p + '.d', cached=False, serialized=False), 'dirsrc', 'lit'))
    # keys whose directory names collide (known finding K1): anything else that goes wrong here is a violation
    out.append(('dir-alias', lambda p: ar.dir_archive(p + '.d', cached=False), 'diralias', 'any'))
    # keys whose entry name is longer than a file name may be (known finding K15: the store is refused); next to
    # them, keys just under the limit that differ only in their last character
    out.append(('dir-long', lambda p: ar.dir_archive(p + '.d', cached=False), 'dirlong', 'any'))
    # source mode with keys whose directory name is not an importable module name (known finding K9)
    out.append(('dir-source-names', lambda p: ar.dir_archive(p + '.d', cached=False, serialized=False), 'dirsrcbad', 'lit'))
    out.append(('sql', lambda p: ar.sqltable_archive('sqlite:///%s.db?table=memo' % p, cached=False), 'sql', 'sql'))
    out.append(('sql-memory', lambda p: ar.sqltable_archive(None, cached=False), 'sql', 'sql'))
    return out


KEYS = {
    # alias-free key pools per backend (aliasing under dir_archive is the known finding K1)
    'any': [0, 1, 2, 'a', 'b', (1, 2), (1, 'x'), b'k1', -3, 'key with space', ('t',)],
    'str': ['a', 'b', 'c', 'key', 'k1', 'x y', '7'],
    'lit': [0, 1, 2, 'a', 'b', (1, 2), 'k1'],
    'dir': [0, 1, 2, 'a', 'b', (1, 2), b'k1', 'k2', 'Key', 'key', 'KEY', 7777, ('t', 1), '_x', 'K_y', -3, 'x-y', 'u-v-w'],
    'diralias': [0, '0', 1, '1', 'a-b', 'a_b', (1, 2), '(1, 2)', 'z'],
    'dirsrc': ['a', 'b', 'k1', 'zz', 0, 1, 'x-y', -3],
    'dirlong': ['a', 'L' * 252 + 'a', 'L' * 252 + 'b', 'M' * 262 + 'a', 'M' * 262 + 'b', 7],
    'dirsrcbad': ['a', 0, (1, 2), 'x y', 2.5, 'k1'],
    'dirstr': ['a', 'b', 'c', 'key', 'Key', 'k1', 'zz', '_u', 'x-y'],
    'sql': [0, 1, 2, 'a', 'b', 'k1', b'kb', -3, 'x y'],
}
VALUES = {
    'any': [0, 1, -5, 'v', 'w', None, 2.5, float('inf'), [1, 2], (1, 'a'), {'n': [1, {'m': None}]}, b'bytes', True, [], 3.0],
    'json': [0, 1, -5, 'v', None, 2.5, [1, 2], {'n': [1, {'m': None}]}, True, [], 'w'],
    'lit': [0, 1, -5, 'v', None, 2.5, [1, 2], (1, 'a'), {'n': [1]}, True, b'bytes'],
    'sql': [0, 1, -5, 'v', 'w', None, 2.5, b'bytes', 10 ** 12],
}


class Bad:
    """a value no backend can encode"""
    def __reduce__(self):
        raise TypeError('cannot encode Bad')

    def __repr__(self):
        raise TypeError('cannot repr Bad')


def ref_popkeys(d, keys, *value):
    """reference semantics of popkeys on a dict (klepto.archives.cache.popkeys)"""
    if len(value):
        return [d.pop(k, *value) for k in keys]
    memo = dict.fromkeys(d.keys())
    [memo.pop(k) for k in keys]
    return [d.pop(k) for k in keys]


def gen_ops(rng, kk, vk, n):
    ks, vs = KEYS[kk], VALUES[vk]
    ops = []
    w = dict(set=16, get=8, delete=6, contains=5, len=3, items=4, keys=2, values=2, iter=2, getd=5, pop=6, popd=4,
             popitem=3, popkeys=7, popkeysd=3, setdefault=4, update=5, clear=1, bad=2, eq=2, copy=1)
    kinds, weights = list(w), list(w.values())
    for _ in range(n):
        k = rng.choices(kinds, weights)[0]
        key = rng.choice(ks)
        val = rng.choice(vs)
        if k == 'set':
            ops.append(('set', key, val))
        elif k in ('get', 'delete', 'contains', 'pop'):
            ops.append((k, key))
        elif k in ('len', 'items', 'keys', 'values', 'iter', 'popitem', 'clear', 'eq', 'copy'):
            ops.append((k,))
        elif k == 'getd':
            ops.append(('getd', key, val))
        elif k == 'popd':
            ops.append(('popd', key, val))
        elif k == 'popkeys':
            sel = rng.sample(ks, rng.randint(0, 3))
            if sel and rng.random() < 0.45:
                sel = sel + [sel[0]]                 # the same key named twice
            ops.append(('popkeys', sel))
        elif k == 'popkeysd':
            ops.append(('popkeysd', [rng.choice(ks) for _ in range(rng.randint(0, 3))], val))
        elif k == 'setdefault':
            ops.append(('setdefault', key, val))
        elif k == 'update':
            ops.append(('update', [(rng.choice(ks), rng.choice(vs)) for _ in range(rng.randint(0, 3))]))
        elif k == 'bad':
            ops.append(('bad', key))
    return ops


def same_val(a, b):
    if type(a) is not type(b):
        return (isinstance(a, (list, tuple)) and isinstance(b, (list, tuple)) and False) or False
    if isinstance(a, float) and a != a:
        return b != b
    if isinstance(a, (list, tuple)):
        return len(a) == len(b) and all(same_val(x, y) for x, y in zip(a, b))
    if isinstance(a, dict):
        return set(a) == set(b) and all(same_val(a[k], b[k]) for k in a)
    return a == b


def same_dict(a, b):
    if set(a.keys()) != set(b.keys()):
        return False
    for k in a:
        if not same_val(a[k], b[k]):
            return False
        # keys of their original type
    for k in a:
        kb = [x for x in b if x == k][0]
        if type(k) is not type(kb):
            return False
    return True


def run_ops(label, ctor, ops, scratch):
    """returns (problems, nsteps, model lines info)"""
    path = scratch.new('')
    a = ctor(path)
    other = ctor(scratch.new(''))          # an archive under another name: must never be affected
    other_ref = {}
    try:
        other['sentinel-key' if 'json' in label or 'str' in label or 'source' in label else 'a'] = 1
        other_ref = dict(other.items())
    except Exception:
        other_ref = None
    ref = {}
    null = label == 'null'
    problems = []
    trace = []

    def expect(i, op, got, want):
        if got != want:
            problems.append({'step': i, 'op': op, 'what': '%s: returned %r, a dict returns %r' % (opname(op), got, want)})
    for i, op in enumerate(ops):
        k = op[0]
        res = exc = None
        rres = rexc = None
        try:
            if k == 'set':
                a[op[1]] = op[2]
                if not null:
                    ref[op[1]] = op[2]
            elif k == 'get':
                try:
                    rres = ref[op[1]]
                except KeyError:
                    rexc = 'KeyError'
                res = a[op[1]]
            elif k == 'delete':
                try:
                    del ref[op[1]]
                except KeyError:
                    rexc = 'KeyError'
                del a[op[1]]
            elif k == 'contains':
                rres = op[1] in ref
                res = op[1] in a
            elif k == 'len':
                rres = len(ref)
                res = len(a)
            elif k == 'items':
                rres = sorted(map(repr, ref.items()))
                res = sorted(map(repr, a.items()))
            elif k == 'keys':
                rres = sorted(map(repr, ref.keys()))
                res = sorted(map(repr, a.keys()))
            elif k == 'values':
                rres = sorted(map(repr, ref.values()))
                res = sorted(map(repr, a.values()))
            elif k == 'iter':
                rres = sorted(map(repr, iter(ref)))
                res = sorted(map(repr, iter(a)))
            elif k == 'getd':
                rres = ref.get(op[1], op[2])
                res = a.get(op[1], op[2])
            elif k == 'pop':
                try:
                    rres = ref.pop(op[1])
                except KeyError:
                    rexc = 'KeyError'
                res = a.pop(op[1])
            elif k == 'popd':
                rres = ref.pop(op[1], op[2])
                res = a.pop(op[1], op[2])
            elif k == 'popitem':
                if not ref:
                    rexc = 'KeyError'
                res = a.popitem()
                if res[0] in ref and same_val(ref[res[0]], res[1]):
                    del ref[res[0]]
                    rres = res
                else:
                    rres = ('an item of', dict(ref))
            elif k == 'popkeys':
                r2 = dict(ref)
                try:
                    rres = ref_popkeys(r2, op[1])
                    ref = r2
                except KeyError:
                    rexc = 'KeyError'
                res = a.popkeys(op[1])
            elif k == 'popkeysd':
                rres = ref_popkeys(ref, op[1], op[2])
                res = a.popkeys(op[1], op[2])
            elif k == 'setdefault':
                rres = ref.setdefault(op[1], op[2]) if not null else ref.get(op[1], op[2])
                res = a.setdefault(op[1], op[2])
            elif k == 'update':
                if not null:
                    ref.update(op[1])
                a.update(dict(op[1]))
            elif k == 'clear':
                ref.clear()
                a.clear()
            elif k == 'bad':
                # a value that cannot be encoded: the operation must fail and leave the contents
                # unchanged and the archive usable (in-memory archives store any object: skipped)
                if label not in ('dict', 'null', 'sql-memory', 'sql') and not label.endswith('-cached'):
                    try:
                        a[op[1]] = Bad()
                        problems.append({'step': i, 'op': op, 'what': 'storing a value that cannot be encoded did not fail'})
                    except Exception:
                        pass
                elif label.startswith('sql'):
                    try:
                        a[op[1]] = [1, 2]       # sqlite cannot bind a list
                        problems.append({'step': i, 'op': op, 'what': 'storing a value sqlite cannot bind did not fail'})
                    except Exception:
                        pass
            elif k == 'eq':
                twin = ctor(scratch.new(''))
                twin.update(dict(ref))
                res = (a == twin, a != twin)
                rres = (True, False)
                twin['a' if 'json' not in label else 'zz'] = 12345
                if (a == twin) and not null and ref.get('a' if 'json' not in label else 'zz') != 12345:
                    problems.append({'step': i, 'op': op, 'what': '== is True for archives with different contents'})
                # same size, same values, ONE key renamed - in particular a key whose value is None
                nk = [kk for kk in ref if ref[kk] is None] or list(ref)
                if nk and not null:
                    twin2 = ctor(scratch.new(''))
                    other_key = 'zz9' if 'zz9' not in ref else 'zz8'
                    twin2.update(dict((other_key if kk == nk[0] else kk, vv) for kk, vv in ref.items()))
                    if (a == twin2) or not (a != twin2):
                        problems.append({'step': i, 'op': op, 'what': '== is True for archives that differ in one key (%r holds %r on one side, %r on the other)' % (nk[0], ref[nk[0]], other_key)})
            elif k == 'copy':
                newname = scratch.new('')
                if label.startswith('file'):
                    newname += {'file-json': '.json', 'file-source': '.py'}.get(label, '.pkl')
                if label.startswith('sql'):
                    newname = 'sqlite:///%s.db?table=memo' % newname if label == 'sql' else None
                if label.startswith('dir'):
                    newname += '.d'
                if newname is None:
                    continue
                c = a.copy(newname)
                try:
                    copied = dict(c.items())
                except Exception as e:
                    copied = None
                    problems.append({'step': i, 'op': op, 'what': 'the archive returned by copy(name) cannot be read: %s: %s' % (type(e).__name__, e)})
                if copied is None:
                    pass
                elif not same_dict(copied, ref if not null else {}):
                    problems.append({'step': i, 'op': op, 'what': 'copy(name) is not an equal archive: %r vs %r' % (dict(c.items()), ref)})
                else:
                    kk = next(iter(ref), None)
                    if kk is not None:
                        c[kk] = 'changed-in-copy'
                        if not same_dict(dict(a.items()), ref):
                            problems.append({'step': i, 'op': op, 'what': 'writing to the copy changed the original'})
        except KeyError:
            exc = 'KeyError'
        except Exception as e:
            exc = '%s: %s' % (type(e).__name__, e)
        if k not in ('bad', 'copy'):
            if exc != rexc:
                problems.append({'step': i, 'op': op, 'what': '%s: %s, a dict %s' % (
                    opname(op), 'raised ' + exc if exc else 'returned %r' % (res,), 'raises ' + rexc if rexc else 'returns %r' % (rres,))})
                if rexc is None and exc is not None and k == 'popkeys':
                    pass
            elif exc is None and k not in ('set', 'delete', 'update', 'clear', 'eq') and not (null and k in ('setdefault',)):
                if not same_val(res, rres) and not (k == 'popitem' and rres == res):
                    problems.append({'step': i, 'op': op, 'what': '%s: returned %r, a dict returns %r' % (opname(op), res, rres)})
        # contents after every step
        try:
            cur = dict(a.items())
            if not same_dict(cur, ref if not null else {}):
                refd = ref if not null else {}
                problems.append({'step': i, 'op': op, 'what': 'contents after %s are %r, a dict holds %r' % (opname(op), cur, ref),
                                 'missing': sorted(repr(x) for x in refd if x not in cur),
                                 'extra': sorted(repr(x) for x in cur if x not in refd),
                                 'changed': sorted(repr(x) for x in refd if x in cur and not same_val(cur[x], refd[x]))})
                ref = dict(cur) if not null else ref
            if len(a) != len(cur):
                problems.append({'step': i, 'op': op, 'what': 'len() is %d but there are %d items' % (len(a), len(cur))})
        except Exception as e:
            problems.append({'step': i, 'op': op, 'what': 'archive unusable after %s: items() raised %s: %s' % (opname(op), type(e).__name__, e)})
            break
        if other_ref is not None:
            try:
                if not same_dict(dict(other.items()), other_ref):
                    problems.append({'step': i, 'op': op, 'what': 'an archive stored under another name changed'})
                    other_ref = dict(other.items())
            except Exception as e:
                problems.append({'step': i, 'op': op, 'what': 'the archive under another name became unreadable: %s' % e})
                other_ref = None
        trace.append((op, exc, res))
        if len(problems) > 5:
            break
    return problems, len(trace)


def opname(op):
    return '%s%r' % (op[0], tuple(op[1:]))


# ---------------------------------------------------------------- the Coq specification vs a real dict
def spec_check(sd, n):
    """dstep (extracted) against a real Python dict on integer keys/values: validates the spec itself"""
    rng = random.Random('C03spec-%d' % sd)
    bad = []
    lines = []
    expected = []
    for case in range(n):
        ref = {}
        lines.append('d.reset')
        expected.append('ok')
        for _ in range(rng.randint(5, 25)):
            k = rng.randint(0, 5)
            v = rng.randint(10, 99)
            kind = rng.choice(['set', 'get', 'del', 'contains', 'len', 'getd', 'pop', 'popd', 'popkeys', 'popkeysd', 'setdefault', 'update', 'clear', 'items'])
            if kind == 'set':
                ref[k] = v
                lines.append('d.set %d %d' % (k, v)); expected.append('unit')
            elif kind == 'get':
                lines.append('d.get %d' % k); expected.append('val %d' % ref[k] if k in ref else 'keyerror')
            elif kind == 'del':
                lines.append('d.del %d' % k)
                if k in ref:
                    del ref[k]; expected.append('unit')
                else:
                    expected.append('keyerror')
            elif kind == 'contains':
                lines.append('d.contains %d' % k); expected.append('bool %d' % (1 if k in ref else 0))
            elif kind == 'len':
                lines.append('d.len'); expected.append('len %d' % len(ref))
            elif kind == 'getd':
                lines.append('d.getd %d %d' % (k, v)); expected.append('val %d' % ref.get(k, v))
            elif kind == 'pop':
                lines.append('d.pop %d' % k)
                expected.append('val %d' % ref.pop(k) if k in ref else 'keyerror')
            elif kind == 'popd':
                lines.append('d.popd %d %d' % (k, v)); expected.append('val %d' % ref.pop(k, v))
            elif kind == 'popkeys':
                ks = [rng.randint(0, 5) for _ in range(rng.randint(0, 3))]
                r2 = dict(ref)
                try:
                    r = ref_popkeys(r2, ks)
                    ref = r2
                    expected.append('vals ' + ' '.join(str(x) for x in r))
                except KeyError:
                    expected.append('keyerror')
                lines.append('d.popkeys ' + ' '.join(map(str, ks)))
            elif kind == 'popkeysd':
                ks = [rng.randint(0, 5) for _ in range(rng.randint(0, 3))]
                r = ref_popkeys(ref, ks, v)
                lines.append('d.popkeysd %d %s' % (v, ' '.join(map(str, ks)))); expected.append('vals ' + ' '.join(str(x) for x in r))
            elif kind == 'setdefault':
                lines.append('d.setdefault %d %d' % (k, v)); expected.append('val %d' % ref.setdefault(k, v))
            elif kind == 'update':
                m = [(rng.randint(0, 5), rng.randint(10, 99)) for _ in range(rng.randint(0, 3))]
                ref.update(m)
                lines.append('d.update ' + ' '.join('%d %d' % p for p in m)); expected.append('unit')
            elif kind == 'clear':
                ref.clear()
                lines.append('d.clear'); expected.append('unit')
            elif kind == 'items':
                lines.append('d.items'); expected.append('items ' + ' '.join('%d:%d' % p for p in ref.items()))
    out = run_model(lines)
    for ln, o, e in zip(lines, out, expected):
        if o.strip() != e.strip():
            bad.append((ln, o, e))
    return bad, len(lines)


# ---------------------------------------------------------------- the SQL-table model vs the real table, row by row
def sql_rows_check(sd, n):
    """Backends.sql_step (extracted) against a real sqltable_archive on integer keys/values:
    the result of every operation AND the rows of the table (read through a second connection)"""
    import sqlite3
    import klepto.archives as ar
    rng = random.Random('C03sql-%d' % sd)
    sc = Scratch()
    bad = []
    nops = 0
    try:
        for case in range(n):
            path = sc.new('.db')
            a = ar.sqltable_archive('sqlite:///%s?table=memo' % path, cached=False)
            sqllog = []
            a._conn.set_trace_callback(sqllog.append)
            lines, got = ['d.mode sql', 'd.reset'], ['ok', 'ok']
            stmts = [None, None]
            for _ in range(rng.randint(5, 25)):
                k, v = rng.randint(0, 5), rng.randint(10, 99)
                kind = rng.choice(['set', 'set', 'get', 'del', 'contains', 'len', 'getd', 'pop', 'popd', 'popkeys', 'popkeysd', 'setdefault', 'update', 'clear', 'items'])
                try:
                    if kind == 'set':
                        a[k] = v; lines.append('d.set %d %d' % (k, v)); got.append('unit')
                    elif kind == 'get':
                        lines.append('d.get %d' % k); got.append('val %d' % a[k])
                    elif kind == 'del':
                        lines.append('d.del %d' % k); del a[k]; got.append('unit')
                    elif kind == 'contains':
                        lines.append('d.contains %d' % k); got.append('bool %d' % (1 if k in a else 0))
                    elif kind == 'len':
                        lines.append('d.len'); got.append('len %d' % len(a))
                    elif kind == 'getd':
                        lines.append('d.getd %d %d' % (k, v)); got.append('val %d' % a.get(k, v))
                    elif kind == 'pop':
                        lines.append('d.pop %d' % k); got.append('val %d' % a.pop(k))
                    elif kind == 'popd':
                        lines.append('d.popd %d %d' % (k, v)); got.append('val %d' % a.pop(k, v))
                    elif kind == 'popkeys':
                        ks = [rng.randint(0, 5) for _ in range(rng.randint(0, 3))]
                        lines.append('d.popkeys ' + ' '.join(map(str, ks))); got.append(('vals ' + ' '.join(str(x) for x in a.popkeys(ks))).strip())
                    elif kind == 'popkeysd':
                        ks = [rng.randint(0, 5) for _ in range(rng.randint(0, 3))]
                        lines.append('d.popkeysd %d %s' % (v, ' '.join(map(str, ks)))); got.append(('vals ' + ' '.join(str(x) for x in a.popkeys(ks, v))).strip())
                    elif kind == 'setdefault':
                        lines.append('d.setdefault %d %d' % (k, v)); got.append('val %d' % a.setdefault(k, v))
                    elif kind == 'update':
                        m = [(rng.randint(0, 5), rng.randint(10, 99)) for _ in range(rng.randint(0, 3))]
                        lines.append('d.update ' + ' '.join('%d %d' % p for p in dict(m).items())); a.update(dict(m)); got.append('unit')
                    elif kind == 'clear':
                        lines.append('d.clear'); a.clear(); got.append('unit')
                    elif kind == 'items':
                        lines.append('d.items'); got.append('items*' + ' '.join(sorted('%d:%d' % p for p in a.items())))
                except KeyError:
                    got.append('keyerror')
                stmts.append(_sql_statements(sqllog))
                del sqllog[:]
                # the rows, as another connection sees them
                con = sqlite3.connect(path)
                try:
                    rows = list(con.execute('select * from memo order by rowid'))
                finally:
                    con.close()
                lines.append('d.rows'); got.append(('rows ' + ' '.join('%s:%s' % (_iv(r[0]), _iv(r[1])) for r in rows)).strip())
                stmts.append(None)
            out = run_model(lines)
            nops += len(lines)
            for ln, o, g, st in zip(lines, out, got, stmts):
                o = o.strip()
                if st is not None:
                    # the model prints "result | statements": the real statements, each in its own transaction
                    o, _, mst = o.partition(' |')
                    o = o.strip()
                    if ln == 'd.clear':      # clear() pops the keys in set order: the order of the deletions is immaterial
                        mst, st = ' ; '.join(sorted(mst.strip().split(' ; '))), ' ; '.join(sorted(st.split(' ; ')))
                    if mst.strip() != st:
                        bad.append((ln, 'statements: ' + mst.strip(), 'statements: ' + st))
                        break
                if g.startswith('items*'):
                    o = 'items*' + ' '.join(sorted(o.split()[1:]))
                if o != g.strip():
                    bad.append((ln, o, g))
                    break
            if len(bad) > 3:
                break
        run_model(['d.mode dict'])
    finally:
        sc.close()
    return bad, nops


def dir_entries_check(sd, n):
    """DirStep.dir_step (extracted, naming = identity on integers) against a real dir_archive on integer
    keys/values: the result of every operation AND the entry directories (name, stored key, stored value)"""
    import dill
    import klepto.archives as ar
    rng = random.Random('C03dir-%d' % sd)
    sc = Scratch()
    bad = []
    nops = 0

    def entries(root):
        out = []
        for d in sorted(os.listdir(root)):
            if not d.startswith('K_') or d.startswith('K_.I_'):
                continue
            name = int(d[2:].replace('_', '-'))
            with open(os.path.join(root, d, 'output.pkl'), 'rb') as f:
                val = dill.load(f)
            ip = os.path.join(root, d, 'input.pkl')
            key = name
            if os.path.exists(ip):
                with open(ip, 'rb') as f:
                    key = dill.load(f)
            out.append((name, key, val))
        return sorted(out)
    try:
        for case in range(n):
            path = sc.new('.d')
            a = ar.dir_archive(path, cached=False)
            lines, got = ['d.mode dir', 'd.reset'], ['ok', 'ok']
            for _ in range(rng.randint(5, 25)):
                k, v = rng.randint(-2, 4), rng.randint(10, 99)
                kind = rng.choice(['set', 'set', 'get', 'del', 'contains', 'len', 'getd', 'pop', 'popd', 'popkeys', 'popkeysd', 'setdefault', 'update', 'clear', 'items'])
                try:
                    if kind == 'set':
                        a[k] = v; lines.append('d.set %d %d' % (k, v)); got.append('unit')
                    elif kind == 'get':
                        lines.append('d.get %d' % k); got.append('val %d' % a[k])
                    elif kind == 'del':
                        lines.append('d.del %d' % k); del a[k]; got.append('unit')
                    elif kind == 'contains':
                        lines.append('d.contains %d' % k); got.append('bool %d' % (1 if k in a else 0))
                    elif kind == 'len':
                        lines.append('d.len'); got.append('len %d' % len(a))
                    elif kind == 'getd':
                        lines.append('d.getd %d %d' % (k, v)); got.append('val %d' % a.get(k, v))
                    elif kind == 'pop':
                        lines.append('d.pop %d' % k); got.append('val %d' % a.pop(k))
                    elif kind == 'popd':
                        lines.append('d.popd %d %d' % (k, v)); got.append('val %d' % a.pop(k, v))
                    elif kind == 'popkeys':
                        ks = [rng.randint(-2, 4) for _ in range(rng.randint(0, 3))]
                        lines.append('d.popkeys ' + ' '.join(map(str, ks))); got.append(('vals ' + ' '.join(str(x) for x in a.popkeys(ks))).strip())
                    elif kind == 'popkeysd':
                        ks = [rng.randint(-2, 4) for _ in range(rng.randint(0, 3))]
                        lines.append('d.popkeysd %d %s' % (v, ' '.join(map(str, ks)))); got.append(('vals ' + ' '.join(str(x) for x in a.popkeys(ks, v))).strip())
                    elif kind == 'setdefault':
                        lines.append('d.setdefault %d %d' % (k, v)); got.append('val %d' % a.setdefault(k, v))
                    elif kind == 'update':
                        m = dict((rng.randint(-2, 4), rng.randint(10, 99)) for _ in range(rng.randint(0, 3)))
                        lines.append('d.update ' + ' '.join('%d %d' % p for p in m.items())); a.update(m); got.append('unit')
                    elif kind == 'clear':
                        lines.append('d.clear'); a.clear(); got.append('unit')
                    elif kind == 'items':
                        lines.append('d.items'); got.append('items*' + ' '.join(sorted('%d:%d' % p for p in a.items())))
                except KeyError:
                    got.append('keyerror')
                lines.append('d.entries'); got.append(('entries ' + ' '.join('%s:%s:%s' % tuple(_iv(x) for x in e) for e in entries(path))).strip())
            out = run_model(lines)
            nops += len(lines)
            for ln, o, g in zip(lines, out, got):
                o = o.strip()
                if g.startswith('items*'):
                    o = 'items*' + ' '.join(sorted(o.split()[1:]))
                if o != g.strip():
                    bad.append((ln, o, g))
                    break
            if len(bad) > 3:
                break
        run_model(['d.mode dict'])
    finally:
        sc.close()
    return bad, nops


def _iv(x):
    """an integer as the model prints it; anything else (a key that changed type in the store) spelled out"""
    return '%d' % x if isinstance(x, int) and not isinstance(x, bool) else repr(x)


def _sql_statements(log):
    """the data-changing statements of a sqlite trace, as the model prints them; every one must sit in
    its own BEGIN ... COMMIT (one commit per statement is what the crash theorem of C13 relies on)"""
    import re
    out = []
    open_tx = 0
    for ln in log:
        t = ln.strip().lower()
        if t.startswith('begin'):
            open_tx += 1
            n_in_tx = 0
        elif t.startswith('commit'):
            open_tx -= 1
        elif t.startswith('insert'):
            m = re.search(r'values\((-?\d+),(-?\d+)\)', t)
            out.append('ins %s %s' % (m.group(1), m.group(2)) if m else 'ins ?')
            n_in_tx += 1
            if n_in_tx > 1:
                out.append('(same transaction)')
        elif t.startswith('delete'):
            m = re.search(r'=\s*(-?\d+)', t)
            out.append('del %s' % m.group(1) if m else 'del ?')
            n_in_tx += 1
            if n_in_tx > 1:
                out.append('(same transaction)')
    if open_tx:
        out.append('(uncommitted)')
    return ' ; '.join(out)


def _worker(args):
    sd, lo, hi, nops = args
    scratch = Scratch()
    cfgs = configs()
    out = []
    try:
        for idx in range(lo, hi):
            rng = random.Random('C03-%d-%d' % (sd, idx))
            label, ctor, kk, vk = cfgs[idx % len(cfgs)]
            ops = gen_ops(rng, kk, vk, rng.randint(nops // 3, nops))
            try:
                problems, nsteps = run_ops(label, ctor, ops, scratch)
            except Exception as e:
                out.append({'idx': idx, 'label': label, 'error': '%s: %s' % (type(e).__name__, e)})
                continue
            kinds = {}
            for op in ops:
                kinds[op[0]] = kinds.get(op[0], 0) + 1
            out.append({'idx': idx, 'label': label, 'n': nsteps, 'problems': problems[:3], 'kinds': kinds,
                        'sample': [opname(o) for o in ops[:8]] if idx % 71 == 0 else None})
    finally:
        scratch.close()
    return out


def shrink(label, ops, scratch_factory):
    cfg = {c[0]: c for c in configs()}[label]

    def bad(o):
        sc = Scratch()
        try:
            p, _ = run_ops(label, cfg[1], o, sc)
            return bool(p)
        except Exception:
            return False
        finally:
            sc.close()
    cur = list(ops)
    changed = True
    while changed and len(cur) > 1:
        changed = False
        for i in range(len(cur)):
            cand = cur[:i] + cur[i + 1:]
            if bad(cand):
                cur = cand
                changed = True
                break
    return cur


def classify_known(label, ops, problem, findings):
    import findings as fmod
    for f in findings:
        if f.get('property') == 'C03' and f.get('status') == 'known':
            pred = getattr(fmod, f['predicate'], None)
            if pred and pred(label, ops, problem):
                return f
    return None


def main():
    t0 = time.time()
    prop = 'C03'
    thorough = tier() == 'thorough'
    sd = seed()
    rep = Report(prop)
    findings = load_findings()
    proof_ok, pinfo = coqcheck.proof_status(prop)
    n, nops = (5600, 70) if thorough else (560, 40)
    results = []
    spec_bad, spec_n = [], 0
    sql_bad, sql_n = [], 0
    dir_bad, dir_n = [], 0
    if pinfo.get('build_ok'):
        spec_bad, spec_n = spec_check(sd, 400 if thorough else 60)
        try:
            sql_bad, sql_n = sql_rows_check(sd, 300 if thorough else 60)
        except Exception as e:
            sql_bad, sql_n = [('sql_rows_check', 'exception', '%s: %s' % (type(e).__name__, e))], 0
        try:
            dir_bad, dir_n = dir_entries_check(sd, 300 if thorough else 60)
        except Exception as e:
            dir_bad, dir_n = [('dir_entries_check', 'exception', '%s: %s' % (type(e).__name__, e))], 0
        nproc = min(16, os.cpu_count() or 4)
        chunk = max(7, n // (nproc * 3))
        jobs = [(sd, lo, min(lo + chunk, n), nops) for lo in range(0, n, chunk)]
        with mp.Pool(nproc) as pool:
            for part in pool.imap_unordered(_worker, jobs):
                results.extend(part)
    results.sort(key=lambda r: r['idx'])
    if spec_bad:
        rep.violation('the Coq dict specification disagrees with a Python dict: %r gives %r, dict gives %r' % spec_bad[0],
                      {'broken': 'coq/Store/DictSpec.v vs Python dict', 'cases': spec_bad[:5]}, no_input=True)
    if sql_bad:
        rep.violation('the SQL-table model (coq/Store/Backends.v: sql_step) disagrees with sqltable_archive: after %r the model gives %r, the table %r' % sql_bad[0],
                      {'broken': 'coq/Store/Backends.v sql_step vs klepto sqltable_archive (results and rows)', 'cases': sql_bad[:5]}, no_input=True)
    if dir_bad:
        rep.violation('the directory model (coq/Store/DirStep.v: dir_step) disagrees with dir_archive: after %r the model gives %r, the directory %r' % dir_bad[0],
                      {'broken': 'coq/Store/DirStep.v dir_step vs klepto dir_archive (results and entry directories)', 'cases': dir_bad[:5]}, no_input=True)
    seen = set()
    kinds = {}
    per = {}
    steps = 0
    for r in results:
        if 'error' in r:
            if ('err', r['label']) not in seen:
                seen.add(('err', r['label']))
                rep.violation('harness error on %s: %s' % (r['label'], r['error']), {'label': r['label'], 'trace_index': r['idx'], 'seed': sd,
                                                                                      'broken': 'C03 harness'}, no_input=True)
            continue
        steps += r['n']
        per[r['label']] = per.get(r['label'], 0) + 1
        for k, v in r['kinds'].items():
            kinds[k] = kinds.get(k, 0) + v
        if r['problems']:
            rng = random.Random('C03-%d-%d' % (sd, r['idx']))
            cfg = {c[0]: c for c in configs()}[r['label']]
            ops = gen_ops(rng, cfg[2], cfg[3], rng.randint(nops // 3, nops))
            key = (r['label'].split('-')[0], r['problems'][0]['what'].split(':')[0][:25])
            if key in seen or len(seen) > 10:
                continue
            small = shrink(r['label'], ops, None)
            sc = Scratch()
            try:
                probs, _ = run_ops(r['label'], cfg[1], small, sc)
            finally:
                sc.close()
            if not probs:
                # not reproduced after shrinking: fall back to the history as generated
                small = ops
                sc = Scratch()
                try:
                    probs, _ = run_ops(r['label'], cfg[1], small, sc)
                finally:
                    sc.close()
            if not probs:
                # depends on the state of the worker process (module caches ...): still a failure of the real code
                seen.add(key)
                rep.violation('%s: %s (seen once in a worker process, not reproduced in isolation)' % (r['label'], r['problems'][0]['what'][:400]),
                              {'backend': r['label'], 'ops': [list(o) for o in ops], 'seed': sd, 'trace_index': r['idx'], 'problems': r['problems'][:3]})
                continue
            kf = classify_known(r['label'], small, probs[0], findings)
            if kf:
                rep.known_finding(kf['id'], kf['description'])
                continue
            seen.add(key)
            rep.violation('%s: %s' % (r['label'], probs[0]['what'][:500]),
                          {'backend': r['label'], 'ops': [list(o) for o in small], 'seed': sd, 'trace_index': r['idx'], 'problems': probs[:3]})
    # ---- recorded known findings are probed directly: the line is printed only while they reproduce
    for f in findings:
        if f.get('property') == 'C03' and f.get('status') == 'known' and f.get('probe'):
            try:
                if getattr(__import__('findings'), f['probe'])():
                    rep.known_finding(f['id'], f['description'])
            except Exception as e:
                rep.violation('probe of known finding %s failed: %s' % (f['id'], e), {'broken': 'known-finding probe'}, no_input=True)
    if not proof_ok:
        rep.violation('proof obligation no longer checks: %s' % (pinfo.get('log') or pinfo.get('build_log') or pinfo.get('hygiene')),
                      {'broken': 'coq/Props/C03.v'}, no_input=True)
    nth = len(pinfo.get('theorems', []))
    cov = {'obligations': nth, 'discharged': nth if proof_ok else 0,
           'checker_cmd': 'cd /verif && ./build.sh && cd coq && coqc -Q Base Klepto -Q Cache Klepto -Q Keys Klepto -Q Store Klepto -Q Props Klepto Props/C03.v',
           'trusted_base': ['Coq 8.16.1 kernel', 'axioms: %s' % (', '.join(pinfo.get('axioms', [])) or 'none (Closed under the global context x%d)' % pinfo.get('closed', 0)),
                            'the dict specification coq/Store/DictSpec.v, compared with a Python dict on %d operations this run' % spec_n,
                            'backend models (file / sql table / directory) proved to refine it; the real backends compared with a Python dict after every step',
                            'the SQL-table model compared with the real table row by row (and result by result) on %d model commands this run' % sql_n,
                            'the directory model compared with the real entry directories (name, key, value) and results on %d model commands this run' % dir_n,
                            'dill / json / repr+import round trips, sqlite3, the file system'],
           'theorems': pinfo.get('theorems', []), 'print_assumptions': pinfo.get('print_assumptions', ''),
           'evaluations': len(results), 'distinct_nontrivial': len([r for r in results if r.get('n', 0) >= 5]),
           'rule': 'one evaluation = one random sequence of mapping operations (17 methods, missing keys, unencodable values, copy, ==, a second archive under another name) on one of %d archive configurations, contents compared with a dict after every step; non-trivial = at least 5 steps' % len(configs()),
           'traces_validated_against_impl': len([r for r in results if 'error' not in r and not r['problems']]),
           'steps_compared': steps, 'operations': dict(sorted(kinds.items())), 'configurations': per,
           'samples': [{'backend': r['label'], 'ops': r['sample']} for r in results if r.get('sample')][:3] or [{'note': 'none'}],
           'known_findings_reproduced': [k for k, _ in rep.known]}
    write_evidence(prop, 'proof', cov, time.time() - t0, len(rep.violations),
                   ['key pools are alias-free per backend (dir_archive aliasing is known finding K1, probed separately)'])
    return rep.emit()


def _untuple(x):
    return x


def replay(p, path):
    """re-execute a recorded history against /repo"""
    if 'ops' not in p or 'backend' not in p:
        print('replay: %s records a broken proof/correspondence (%s), nothing to execute' % (path, p.get('broken')))
        return 1

    def fix(o):
        # JSON turned tuples into lists: keys that are lists are tuples again; update payloads are pair lists
        def key(k):
            return tuple(key(x) for x in k) if isinstance(k, list) else k
        o = list(o)
        if o[0] in ('set', 'get', 'delete', 'contains', 'pop', 'getd', 'popd', 'setdefault', 'bad'):
            o[1] = key(o[1])
        elif o[0] in ('popkeys', 'popkeysd'):
            o[1] = [key(k) for k in o[1]]
        elif o[0] == 'update':
            o[1] = [(key(k), v) for k, v in o[1]]
        return tuple(o)
    cfg = {c[0]: c for c in configs()}[p['backend']]
    sc = Scratch()
    try:
        probs, n = run_ops(p['backend'], cfg[1], [fix(o) for o in p['ops']], sc)
    finally:
        sc.close()
    print(json.dumps(probs[:5], indent=1, default=repr))
    if probs:
        print('VIOLATION property=C03 replay=%s' % path)
        return 1
    print('replay: the recorded case no longer fails')
    return 0


if __name__ == '__main__':
    sys.exit(main())
