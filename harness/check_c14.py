"""C14: concurrent processes - no lost entries, no phantom or torn reads.
Two or three REAL processes (store_child.py) operate on one archive; their file-system calls on the
archive are gated (store_child.Gate) and a scheduler enumerates the interleavings (gatelib.explore):
exhaustively for small scenarios, with a preemption bound for larger ones.  After each execution the
results of every process and the final contents (read by a fresh process) are judged.  The protocol
models of coq/Store/{FileArch,DirProto}.v carry the theorems (Props/C14.v)."""
import json
import os
import random
import re
import shutil
import sys
import threading
import time
from concurrent.futures import ThreadPoolExecutor

sys.path.insert(0, os.path.dirname(os.path.abspath(__file__)))
from common import Scratch, Report, seed, tier, write_evidence, load_findings
import coqcheck
import crashlib as cl
import gatelib as gl

ABSENT = '__absent__'


def scenarios(thorough):
    """(label, pre, [actions], what) - writers on distinct keys, writer/reader, overwrite/reader, writer/opener"""
    out = []
    for label in ('dir-pickle', 'dir-json', 'dir-source', 'sql', 'file-pickle', 'file-json'):
        ks = ['a', 'b', 'c', 'd']
        pre = [['a', 1]]
        readers = [['lookup', 'b'], ['len'], ['keys'], ['items'], ['read-cache']]
        if label.startswith('file'):
            # reader / opener against one writer
            for r in readers + [['open'], ['open-cached']]:
                out.append((label, pre, [['set', 'b', 2], r], 'writer/reader'))
            out.append((label, pre, [['update', [['b', 2], ['c', 3]]], ['items']], 'writer/reader'))
            out.append((label, pre, [['del', 'a'], ['items']], 'writer/reader'))
            # an existing but still empty archive; the default (cached) front end merely opens it
            out.append((label, 'EMPTY', [['set', 'b', 2], ['open-cached']], 'writer/opener'))
            out.append((label, 'EMPTY', [['set', 'b', 2], ['read-cache']], 'writer/reader'))
            continue
        out.append((label, pre, [['set', 'b', 2], ['set', 'c', 3]], 'writer/writer'))
        out.append((label, pre, [['set', 'b', 2], ['del', 'a']], 'writer/writer'))
        out.append((label, [], [['set', 'b', 2], ['set', 'c', 3]], 'writer/writer on a fresh location'))
        for r in readers:
            out.append((label, pre, [['set', 'b', 2], r], 'writer/reader'))
        out.append((label, pre, [['set', 'a', 9], ['lookup', 'a']], 'overwrite/reader'))
        out.append((label, pre, [['set', 'a', 9], ['items']], 'overwrite/reader'))
        out.append((label, pre, [['del', 'a'], ['items']], 'delete/reader'))
        out.append((label, pre, [['set', 'b', 2], ['open']], 'writer/opener'))
        out.append((label, 'EMPTY', [['set', 'b', 2], ['open-cached']], 'writer/opener'))
        out.append((label, pre, [['set', 'a', 9], ['contains', 'a']], 'overwrite/reader'))
        # a reader that keeps its handle open after a membership test on a key with several history rows
        out.append((label, [['a', 0], ['a', 1]], [['contains-hold', 'a'], ['set', 'b', 2]], 'reader holding its handle/writer'))
        out.append((label, pre, [['set', 'a', 9], ['keys']], 'overwrite/reader'))
        if thorough:
            out.append((label, pre, [['set', 'b', 2], ['set', 'c', 3], ['lookup', 'b']], 'writer/writer/reader'))
            out.append((label, pre, [['update', [['b', 2], ['c', 3]]], ['items']], 'writer/reader'))
            out.append((label, pre, [['dump', [['b', 2]]], ['read-cache']], 'writer/reader'))
            out.append((label, pre, [['pop', 'a'], ['keys']], 'delete/reader'))
    return out


def is_writer(act):
    return act[0] in ('set', 'del', 'pop', 'update', 'clear', 'dump', 'setdefault', 'popkeys')


def stored_values(pre, actions):
    """key -> set of JSON values ever stored for it (and whether absence is legitimate)"""
    vals = {}
    if pre == 'EMPTY':
        pre = []
    for k, v in pre:
        vals.setdefault(json.dumps(k), set()).add(json.dumps(v))
    for a in actions:
        if a[0] in ('set', 'setdefault'):
            vals.setdefault(json.dumps(a[1]), set()).add(json.dumps(a[2]))
        elif a[0] in ('update', 'dump'):
            for k, v in a[1]:
                vals.setdefault(json.dumps(k), set()).add(json.dumps(v))
    return vals


def judge(label, pre, actions, results, final):
    probs = []
    if pre == 'EMPTY':
        pre = []
    vals = stored_values(pre, actions)
    prem = {json.dumps(k): json.dumps(v) for k, v in pre}
    writers = [a for a in actions if is_writer(a)]
    deleted = {json.dumps(a[1]) for a in writers if a[0] in ('del', 'pop')} | \
        {k for a in writers if a[0] in ('clear',) for k in prem} | {json.dumps(k) for a in writers if a[0] == 'popkeys' for k in a[1]}
    touched = set()
    for a in writers:
        if a[0] in ('set', 'del', 'pop', 'setdefault'):
            touched.add(json.dumps(a[1]))
        elif a[0] in ('update', 'dump'):
            touched.update(json.dumps(k) for k, _ in a[1])

    def check_items(items, who):
        for k, v in items:
            kk = json.dumps(k)
            if kk not in vals:
                probs.append('%s sees key %s that was never stored' % (who, kk))
            elif json.dumps(v) not in vals[kk]:
                probs.append('%s sees %s = %s, never stored for that key (stored: %s)' % (who, kk, json.dumps(v)[:60], sorted(vals[kk])))
        if who != 'final':
            seen = {json.dumps(k) for k, _ in items}
            for kk in prem:
                if kk not in touched and kk not in seen:
                    probs.append('%s does not see key %s, which no one touches' % (who, kk))
                elif kk not in deleted and kk not in seen:
                    probs.append('%s does not see key %s, which is stored throughout (it is only being overwritten)' % (who, kk))
    for i, (a, r) in enumerate(zip(actions, results)):
        who = 'process %d %s' % (i, json.dumps(a)[:50])
        if r is None or not r.get('ok'):
            probs.append('%s failed: %s' % (who, (r or {}).get('error')))
            continue
        v = r.get('value')
        if a[0] in ('read', 'read-cache', 'items'):
            check_items(v, who)
        elif a[0] == 'keys':
            for k in v:
                if json.dumps(k) not in vals:
                    probs.append('%s lists key %s that was never stored' % (who, json.dumps(k)))
            for kk in prem:
                if kk not in deleted and kk not in {json.dumps(k) for k in v}:
                    probs.append('%s does not list key %s, which is stored throughout' % (who, kk))
        elif a[0] == 'len':
            lo = len([k for k in prem if k not in touched])
            hi = len(set(prem) | set(vals))
            if not (lo <= v <= hi):
                probs.append('%s returned %d: outside what any moment of the execution holds (%d..%d)' % (who, v, lo, hi))
        elif a[0] == 'lookup':
            present, got = v
            kk = json.dumps(a[1])
            if got != ABSENT and json.dumps(got) not in vals.get(kk, set()):
                probs.append('%s returned %s, never stored for that key' % (who, json.dumps(got)[:60]))
            if got == ABSENT and kk in prem and kk not in touched:
                probs.append('%s: key %s, which no one touches, is absent' % (who, kk))
            elif (got == ABSENT or not present) and kk in prem and kk not in deleted:
                probs.append('%s: key %s is stored throughout (it is only being overwritten) but is absent' % (who, kk))
        elif a[0] in ('contains', 'contains-hold'):
            kk = json.dumps(a[1])
            if not v and kk in prem and kk not in deleted:
                probs.append('%s: key %s is stored throughout but membership is False' % (who, kk))
    # final contents: sequential outcome of the writers in SOME order; with writers on distinct keys: all of them
    if not final.get('ok'):
        probs.append('the archive cannot be read afterwards: %s' % final.get('error'))
        return probs
    check_items(final['value'], 'final')
    fm = {json.dumps(k): json.dumps(v) for k, v in final['value']}
    exp = dict(prem)
    keys_written = []
    for a in writers:
        if a[0] in ('set',):
            exp[json.dumps(a[1])] = json.dumps(a[2]); keys_written.append(json.dumps(a[1]))
        elif a[0] in ('update', 'dump'):
            for k, v in a[1]:
                exp[json.dumps(k)] = json.dumps(v); keys_written.append(json.dumps(k))
        elif a[0] in ('del', 'pop'):
            exp.pop(json.dumps(a[1]), None); keys_written.append(json.dumps(a[1]))
    if len(set(keys_written)) == len(keys_written) and all(r and r.get('ok') for r in results):
        # writers on distinct keys: no entry is lost, whatever the interleaving
        if fm != exp:
            lost = [k for k in exp if fm.get(k) != exp[k]] + [k for k in fm if k not in exp]
            probs.append('after all processes finished the archive holds %s, expected %s (lost/corrupted: %s)' % (
                dict(sorted(fm.items())), dict(sorted(exp.items())), sorted(set(lost))))
    return probs


class Engine:
    def __init__(self, scratch):
        self.scratch = scratch

    def prepare(self, label, pre):
        snap = self.scratch.new('-snap')
        os.makedirs(os.path.join(snap, 'w'))
        if pre == 'EMPTY':
            r = cl.run_child({'config': label, 'path': os.path.join(snap, 'w', 'arch'), 'action': ['open']}, os.path.join(snap, 'w'))
            if not r.get('ok'):
                raise RuntimeError('setup failed: %s' % r)
        elif pre and isinstance(pre[0], list) and len({json.dumps(kv[0]) for kv in pre}) < len(pre):
            # the same key written several times (a table that keeps one row per write)
            for kv in pre:
                r = cl.run_child({'config': label, 'path': os.path.join(snap, 'w', 'arch'), 'action': ['set', kv[0], kv[1]]}, os.path.join(snap, 'w'))
                if not r.get('ok'):
                    raise RuntimeError('setup failed: %s' % r)
        elif pre:
            r = cl.run_child({'config': label, 'path': os.path.join(snap, 'w', 'arch'), 'action': ['update', pre]}, os.path.join(snap, 'w'))
            if not r.get('ok'):
                raise RuntimeError('setup failed: %s' % r)
        elif not label.startswith('dir'):
            pass
        return snap

    def one(self, snap, label, pre, actions, prefix):
        w = self.scratch.new('-c14')
        shutil.copytree(os.path.join(snap, 'w'), w)
        try:
            specs = [{'config': label, 'path': os.path.join(w, 'arch'), 'action': a} for a in actions]
            # two sqlite writers: a writer paused between its statement and its commit would hold the
            # database lock for as long as the scheduler likes; gate statements only
            sql_commit = not (label == 'sql' and sum(1 for a in actions if is_writer(a)) > 1)
            sched, enabled_at, labels, results = gl.execute(specs, w, w, prefix, sql_commit=sql_commit)
            final = cl.run_child({'config': label, 'path': os.path.join(w, 'arch'), 'action': ['read']}, w)
            probs = judge(label, pre, actions, results, final)
            return sched, enabled_at, labels, probs
        finally:
            shutil.rmtree(w, ignore_errors=True)

    def scenario(self, label, pre, actions, what, bound, limit, pool_size=8):
        """explore the schedules of one scenario in parallel; -> dict"""
        snap = self.prepare(label, pre)
        res = {'label': label, 'pre': pre, 'actions': actions, 'what': what, 'schedules': 0, 'problems': [], 'max_len': 0, 'truncated': False}
        lock = threading.Lock()
        stack = [[]]
        active = [0]
        done = threading.Event()

        def worker():
            while True:
                with lock:
                    if res['schedules'] + active[0] >= limit:
                        res['truncated'] = res['truncated'] or bool(stack)
                        prefix = None
                    elif stack:
                        prefix = stack.pop()
                        active[0] += 1
                    else:
                        prefix = None
                    if prefix is None:
                        if active[0] == 0:
                            done.set()
                            return
                if prefix is None:
                    time.sleep(0.02)
                    if done.is_set():
                        return
                    continue
                try:
                    sched, enabled_at, labels, probs = self.one(snap, label, pre, actions, prefix)
                except Exception as e:
                    sched, enabled_at, labels, probs = prefix, [], [], ['harness: %r' % e]
                with lock:
                    active[0] -= 1
                    res['schedules'] += 1
                    res['max_len'] = max(res['max_len'], len(sched))
                    if probs and len(res['problems']) < 80:
                        res['problems'].append({'schedule': sched, 'steps': labels, 'what': probs[0], 'all': probs[:4]})
                    for j in range(len(sched) - 1, len(prefix) - 1, -1):
                        for alt in enabled_at[j] if j < len(enabled_at) else []:
                            if alt != sched[j]:
                                cand = sched[:j] + [alt]
                                if bound is not None and gl.preemptions(cand, enabled_at[:j + 1]) > bound:
                                    continue
                                stack.append(cand)
        try:
            ths = [threading.Thread(target=worker) for _ in range(pool_size)]
            for t in ths:
                t.start()
            for t in ths:
                t.join()
        finally:
            shutil.rmtree(snap, ignore_errors=True)
        return res


def classify_known(r, problem, findings):
    import findings as fmod
    for f in findings:
        if f.get('property') == 'C14' and f.get('status') == 'known':
            pred = getattr(fmod, f['predicate'], None)
            if pred and pred(r['label'], r['actions'], r['pre'], problem):
                return f
    return None


def main():
    t0 = time.time()
    prop = 'C14'
    thorough = tier() == 'thorough'
    sd = seed()
    rep = Report(prop)
    findings = load_findings()
    proof_ok, pinfo = coqcheck.proof_status(prop)
    scen = scenarios(thorough)
    rng = random.Random('C14-%d' % sd)
    scratch = Scratch('klepto-c14')
    results = []
    bound = 3 if thorough else 2
    limit = 4000 if thorough else 120
    try:
        eng = Engine(scratch)
        with ThreadPoolExecutor(3) as outer:
            futs = [outer.submit(eng.scenario, label, pre, acts, what, bound, limit, 6) for label, pre, acts, what in scen]
            for f, sc in zip(futs, scen):
                try:
                    results.append(f.result())
                except Exception as e:
                    results.append({'label': sc[0], 'pre': sc[1], 'actions': sc[2], 'what': sc[3], 'schedules': 0, 'max_len': 0,
                                    'problems': [{'what': 'harness: %r' % e, 'schedule': [], 'steps': [], 'all': []}], 'truncated': False})
    finally:
        scratch.close()
    seen = set()
    for r in results:
        for p in r['problems']:
            if p['what'].startswith('harness'):
                if ('h', r['label']) not in seen:
                    seen.add(('h', r['label']))
                    rep.violation('harness error on %s: %s' % (r['label'], p['what']), {'broken': 'C14 harness', 'scenario': [r['label'], r['pre'], r['actions']]}, no_input=True)
                continue
            kf = classify_known(r, p, findings)
            if kf:
                rep.known_finding(kf['id'], kf['description'])
                continue
            key = (r['label'].split('-')[0], r['what'], re.sub(r'[^a-zA-Z ]+', ' ', p['what'])[:40])
            if key in seen or len(seen) > 12:
                continue
            seen.add(key)
            rep.violation('%s, %s %s on %s: %s' % (r['label'], r['what'], json.dumps(r['actions'])[:120], json.dumps(r['pre']), p['what'][:400]),
                          {'backend': r['label'], 'pre': r['pre'], 'actions': r['actions'], 'schedule': p['schedule'], 'steps': p['steps'], 'problems': p['all'], 'seed': sd})
    if not proof_ok:
        rep.violation('proof obligation no longer checks: %s' % (pinfo.get('log') or pinfo.get('build_log') or pinfo.get('hygiene')),
                      {'broken': 'coq/Props/C14.v'}, no_input=True)
    nth = len(pinfo.get('theorems', []))
    total = sum(r['schedules'] for r in results)
    per = {}
    for r in results:
        k = '%s %s' % (r['label'], r['what'])
        per[k] = per.get(k, 0) + r['schedules']
    cov = {'obligations': nth, 'discharged': nth if proof_ok else 0,
           'checker_cmd': 'cd /verif && ./build.sh && cd coq && coqc -Q Base Klepto -Q Cache Klepto -Q Keys Klepto -Q Store Klepto -Q Props Klepto Props/C14.v',
           'trusted_base': ['Coq 8.16.1 kernel', 'axioms: %s' % (', '.join(pinfo.get('axioms', [])) or 'none (Closed under the global context x%d)' % pinfo.get('closed', 0)),
                            'the gate (harness/store_child.py: Gate) patches os.* / open / sqlite3.connect in the child processes: a file-system call is atomic, processes interleave between calls',
                            'sqlite3 locking; with two sqlite writers only statements (not commits) are scheduling points',
                            'the file system'],
           'theorems': pinfo.get('theorems', []), 'print_assumptions': pinfo.get('print_assumptions', ''),
           'evaluations': total, 'distinct_nontrivial': total,
           'rule': 'one evaluation = one complete interleaving (schedule) of the gated file-system calls of 2-3 real processes on one archive, results and final contents judged; schedules enumerated depth-first, preemption bound %d, at most %d per scenario' % (bound, limit),
           'scenarios': len(results), 'schedules_by_scenario_kind': per, 'longest_schedule': max([r['max_len'] for r in results] or [0]),
           'scenarios_truncated_at_limit': len([r for r in results if r['truncated']]),
           'known_findings_reproduced': [k for k, _ in rep.known]}
    cov['explanation'] = 'partial: machine-checked theorems about the protocol models, tied to the code by trace correspondence and by exhaustive injection on the real processes; the kernel (each system call atomic), sqlite and the file system are trusted'
    write_evidence(prop, 'other', cov, time.time() - t0, len(rep.violations),
                   ['interleaving granularity is the Python-level file-system call (open, rename, unlink, mkdir, listdir, scandir, sqlite statement/commit), not the machine instruction'])
    return rep.emit()


def replay(p, path):
    if 'actions' not in p or 'schedule' not in p:
        print('replay: %s records a broken proof/correspondence (%s), nothing to execute' % (path, p.get('broken')))
        return 1
    scratch = Scratch('klepto-c14')
    try:
        eng = Engine(scratch)
        snap = eng.prepare(p['backend'], p['pre'])
        sched, en, labels, probs = eng.one(snap, p['backend'], p['pre'], p['actions'], p['schedule'])
    finally:
        scratch.close()
    findings = load_findings()
    left = []
    for w in probs:
        kf = classify_known({'label': p['backend'], 'actions': p['actions'], 'pre': p['pre']}, {'what': w, 'all': [w], 'steps': labels}, findings)
        if kf:
            print('KNOWN-FINDING: property=C14 %s: %s' % (kf['id'], w))
        else:
            left.append(w)
    print(json.dumps({'schedule': sched, 'steps': labels, 'problems': left}, indent=1))
    if left:
        print('VIOLATION property=C14 replay=%s' % path)
        return 1
    print('replay: the recorded case no longer fails')
    return 0


if __name__ == '__main__':
    sys.exit(main())
