"""C08: klepto.archives.cache synchronisation algebra.  Model M2 (coq/Cache/CacheDict.v, theorems in
coq/Cache/SyncLaws.v) vs the real cache object over every backend, per-step conformance + law monitors."""
import json
import multiprocessing as mp
import os
import random
import sys
import time

sys.path.insert(0, os.path.dirname(os.path.abspath(__file__)))
from common import Scratch, Report, seed, tier, write_evidence, run_model
import coqcheck

BACKENDS = ['none', 'null', 'dict', 'file', 'dir', 'sql']


def make_cache(backend, scratch):
    import klepto.archives as ar
    if backend == 'none':
        return ar.cache()
    if backend == 'null':
        return ar.null_archive('n', cached=True)
    if backend == 'dict':
        return ar.dict_archive('d', cached=True)
    if backend == 'file':
        return ar.file_archive(scratch.new('.pkl'), cached=True)
    if backend == 'dir':
        return ar.dir_archive(scratch.new('.dir'), cached=True)
    if backend == 'sql':
        return ar.sqltable_archive('sqlite:///%s?table=memo' % scratch.new('.db'), cached=True)
    raise ValueError(backend)


NONE_CODE = -7777


def _dec(v):
    return None if v == NONE_CODE else v


def _enc(v):
    return NONE_CODE if v is None else v


def observe(c):
    import klepto._archives as _ar

    def amap(a):
        if isinstance(a, _ar.null_archive):
            return None
        return {k: _enc(v) for k, v in dict(a.items()).items()}
    return {'mem': {k: _enc(v) for k, v in dict.items(c)}, 'arch': amap(c.archive), 'swp': amap(getattr(c, '__swap__'))}


def apply(c, op, scratch):
    import klepto.archives as ar
    k = op[0]
    try:
        if k == 'set':
            c[op[1]] = _dec(op[2])
            return ('unit',)
        if k == 'del':
            del c[op[1]]
            return ('unit',)
        if k == 'pop':
            return ('val', _enc(c.pop(op[1])))
        if k == 'clear':
            c.clear()
            return ('unit',)
        if k == 'update':
            c.update(dict((a, _dec(b)) for a, b in op[1]))
            return ('unit',)
        if k == 'load':
            c.load(*op[1])
            return ('unit',)
        if k == 'dump':
            c.dump(*op[1])
            return ('unit',)
        if k == 'sync':
            c.sync(clear=op[1]) if op[1] else c.sync()
            return ('unit',)
        if k == 'archived':
            if op[1] is None:
                return ('bool', 1 if c.archived() else 0)
            c.archived(op[1])
            return ('unit',)
        if k == 'open':
            if op[1] is None:
                new = ar.null_archive('n2', cached=False)
            else:
                new = ar.dict_archive('fresh', cached=False)
                new.update(dict((a, _dec(b)) for a, b in op[1]))
            c.open(new)
            return ('unit',)
        if k == 'setarchive':
            if op[1] is None:
                new = ar.null_archive('n3', cached=False)
            else:
                new = ar.dict_archive('assigned', cached=False)
                new.update(dict((a, _dec(b)) for a, b in op[1]))
            c.archive = new            # the property setter
            return ('unit',)
        if k == 'drop':
            c.drop()
            return ('unit',)
        if k == 'archset':
            c.archive[op[1]] = _dec(op[2])
            return ('unit',)
        if k == 'archdel':
            del c.archive[op[1]]
            return ('unit',)
    except KeyError:
        return ('raise', 'KeyError')
    except ValueError:
        return ('raise', 'ValueError')
    raise ValueError(op)


def fmt_map(m):
    return ' '.join('%d %d' % (k, v) for k, v in m.items())


def fmt_arch(a):
    return '-' if a is None else fmt_map(a)


def op_line(op):
    k = op[0]
    if k in ('set', 'archset'):
        return 'c.%s %d %d' % (k, op[1], op[2])
    if k in ('del', 'pop', 'archdel'):
        return 'c.%s %d' % (k, op[1])
    if k in ('clear', 'drop'):
        return 'c.' + k
    if k == 'update':
        return 'c.update ' + ' '.join('%d %d' % (a, b) for a, b in op[1])
    if k in ('load', 'dump'):
        return 'c.%s %s' % (k, ' '.join(str(x) for x in op[1]))
    if k == 'sync':
        return 'c.sync %d' % (1 if op[1] else 0)
    if k == 'archived':
        return 'c.archived ' + ('-' if op[1] is None else ('1' if op[1] else '0'))
    if k in ('open', 'setarchive'):
        return 'c.%s ' % k + ('-' if op[1] is None else ' '.join('%d %d' % (a, b) for a, b in op[1]))
    raise ValueError(op)


def parse(line):
    parts = [p.strip() for p in line.split(';')]

    def pm(s):
        s = s.strip()
        if s == '-':
            return None
        s = s.strip('[]')
        return {int(x.split(':')[0]): int(x.split(':')[1]) for x in s.split(',')} if s else {}
    out = tuple(parts[0].split())
    if out and out[0] in ('bool', 'val'):
        out = (out[0], int(out[1]))
    st = {}
    for p in parts[1:]:
        name, _, rest = p.partition(' ')
        st[name] = pm(rest)
    return out, st


def gen_ops(rng, n, backend):
    nk = rng.randint(3, 7)
    ops = []
    w = dict(set=14, delete=5, pop=3, clear=2, update=4, load=10, dump=10, sync=6, archived=8, open=3, drop=2,
             archset=10, archdel=4, setarchive=3)
    kinds, weights = list(w), list(w.values())
    val = 0
    for _ in range(n):
        kind = rng.choices(kinds, weights)[0]
        val += 1
        some = (lambda v: NONE_CODE if rng.random() < 0.12 else (rng.choice([1, 2, 3]) if rng.random() < 0.3 else v))     # None is a value like any other; small values recur
        key = rng.randrange(nk)
        if kind == 'set':
            ops.append(('set', key, some(val)))
        elif kind == 'delete':
            ops.append(('del', key))
        elif kind == 'pop':
            ops.append(('pop', key))
        elif kind == 'clear':
            ops.append(('clear',))
        elif kind == 'update':
            ks = rng.sample(range(nk), rng.randint(0, nk))
            ops.append(('update', [(k, some(val * 10 + i)) for i, k in enumerate(ks)]))
        elif kind in ('load', 'dump'):
            ks = [] if rng.random() < 0.45 else [rng.randrange(nk) for _ in range(rng.randint(1, 3))]
            ops.append((kind, ks))
        elif kind == 'sync':
            ops.append(('sync', rng.random() < 0.4))
        elif kind == 'archived':
            ops.append(('archived', rng.choice([None, True, False, False])))
        elif kind == 'open':
            if rng.random() < 0.2:
                ops.append(('open', None))
            else:
                ks = rng.sample(range(nk), rng.randint(0, nk))
                ops.append(('open', [(k, some(val * 10 + i)) for i, k in enumerate(ks)]))
        elif kind == 'setarchive':
            if rng.random() < 0.2:
                ops.append(('setarchive', None))
            else:
                ks = rng.sample(range(nk), rng.randint(0, nk))
                ops.append(('setarchive', [(k, some(val * 10 + i)) for i, k in enumerate(ks)]))
        elif kind == 'drop':
            ops.append(('drop',))
        elif kind == 'archset':
            ops.append(('archset', key, some(val)))
        elif kind == 'archdel':
            ops.append(('archdel', key))
    return ops


def laws(pre, op, out, post):
    """the C08 statement restated on implementation observations only; returns list of texts"""
    bad = []
    k = op[0]
    off = pre['arch'] is None

    def over(a, b):
        d = dict(a)
        d.update(b)
        return d
    if k in ('set', 'del', 'pop', 'clear', 'update'):
        if pre['arch'] != post['arch'] or pre['swp'] != post['swp']:
            bad.append('dict operation %s touched the archive' % k)
    if k in ('dump', 'load', 'sync') and off:
        if pre != post:
            bad.append('%s with archiving off changed %s' % (k, [f for f in pre if pre[f] != post[f]]))
    elif k == 'dump':
        if op[1]:
            want = dict(pre['arch'])
            for x in op[1]:
                if x in pre['mem']:
                    want[x] = pre['mem'][x]
        else:
            want = over(pre['arch'], pre['mem'])
        if post['arch'] != want or post['mem'] != pre['mem']:
            bad.append('dump%r: archive %r, expected %r (memory %s)' % (op[1], post['arch'], want,
                                                                         'kept' if post['mem'] == pre['mem'] else 'changed'))
    elif k == 'load':
        if op[1]:
            want = dict(pre['mem'])
            for x in op[1]:
                if x in pre['arch']:
                    want[x] = pre['arch'][x]
        else:
            want = over(pre['mem'], pre['arch'])
        if post['mem'] != want or post['arch'] != pre['arch']:
            bad.append('load%r: memory %r, expected %r' % (op[1], post['mem'], want))
    elif k == 'sync':
        if op[1]:
            if post['arch'] != pre['mem'] or post['mem'] != pre['mem']:
                bad.append('sync(clear=True): archive %r memory %r, expected both %r' % (post['arch'], post['mem'], pre['mem']))
        else:
            want = over(pre['arch'], pre['mem'])
            if post['arch'] != want or post['mem'] != want:
                bad.append('sync(): archive %r memory %r, expected both %r' % (post['arch'], post['mem'], want))
    if k == 'archived' and op[1] is True and pre['swp'] is not None:
        if post['arch'] != pre['swp']:
            bad.append('archived(True) did not restore the parked archive: %r vs %r' % (post['arch'], pre['swp']))
    if k == 'archived' and op[1] is False and pre['arch'] is not None:
        if post['swp'] != pre['arch'] or post['arch'] is not None:
            bad.append('archived(False) did not park the archive untouched')
    if post['arch'] is not None and post['swp'] is not None:
        bad.append('both an active and a parked archive')
    return bad


def run_trace(backend, ops, scratch):
    c = make_cache(backend, scratch)
    recs = []
    pre = observe(c)
    for op in ops:
        if op[0] == 'archdel' and (pre['arch'] is None or op[1] not in pre['arch']):
            # deleting a missing key directly on a backend is C03's subject (each backend refines a
            # dict), not the cache/archive algebra: replaced by a query
            op = ('archived', None)
        out = apply(c, op, scratch)
        post = observe(c)
        recs.append({'op': op, 'out': out, 'pre': pre, 'post': post})
        pre = post
    lines = []
    for r in recs:
        lines.append('c.state mem %s ; arch %s ; swp %s' % (fmt_map(r['pre']['mem']), fmt_arch(r['pre']['arch']),
                                                            fmt_arch(r['pre']['swp'])))
        lines.append(op_line(r['op']))
    mout = run_model(lines)
    div = None
    hits = []
    for i, r in enumerate(recs):
        mo, ms = parse(mout[2 * i + 1])
        io = tuple(r['out'])
        if tuple(mo) != io and div is None:
            div = {'step': i, 'field': 'out', 'model': mo, 'impl': io}
        for f in ('mem', 'arch', 'swp'):
            if ms.get(f) != r['post'][f] and div is None:
                div = {'step': i, 'field': f, 'model': ms.get(f), 'impl': r['post'][f]}
        for b in laws(r['pre'], r['op'], r['out'], r['post']):
            hits.append({'step': i, 'what': b})
    return recs, div, hits


def _worker(args):
    sd, lo, hi, nops = args
    scratch = Scratch()
    out = []
    try:
        for idx in range(lo, hi):
            rng = random.Random('C08-%d-%d' % (sd, idx))
            backend = BACKENDS[idx % len(BACKENDS)]
            ops = gen_ops(rng, rng.randint(nops // 3, nops), backend)
            try:
                recs, div, hits = run_trace(backend, ops, scratch)
            except Exception as e:
                out.append({'idx': idx, 'backend': backend, 'error': '%s: %s' % (type(e).__name__, e)})
                continue
            kinds = {}
            for r in recs:
                kinds[r['op'][0]] = kinds.get(r['op'][0], 0) + 1
                if r['pre']['arch'] is None and r['pre']['swp'] is not None and r['op'][0] in ('dump', 'load', 'sync'):
                    kinds['sync-op-while-off'] = kinds.get('sync-op-while-off', 0) + 1
            out.append({'idx': idx, 'backend': backend, 'n': len(ops), 'div': div, 'hits': hits[:3], 'kinds': kinds,
                        'sample': ops[:8] if idx % 53 == 0 else None})
    finally:
        scratch.close()
    return out


def shrink(backend, ops, pred):
    scratch = Scratch()
    try:
        cur = list(ops)
        changed = True
        while changed and len(cur) > 1:
            changed = False
            for i in range(len(cur)):
                cand = cur[:i] + cur[i + 1:]
                try:
                    _, div, hits = run_trace(backend, cand, scratch)
                except Exception:
                    continue
                if pred(div, hits):
                    cur = cand
                    changed = True
                    break
        return cur
    finally:
        scratch.close()


def main():
    t0 = time.time()
    prop = 'C08'
    thorough = tier() == 'thorough'
    sd = seed()
    rep = Report(prop)
    proof_ok, pinfo = coqcheck.proof_status(prop)
    ntr, nops = (160000, 90) if thorough else (420, 60)
    results = []
    if pinfo.get('build_ok'):
        nproc = min(16, os.cpu_count() or 4)
        chunk = max(6, ntr // (nproc * 3))
        jobs = [(sd, lo, min(lo + chunk, ntr), nops) for lo in range(0, ntr, chunk)]
        with mp.Pool(nproc) as pool:
            for part in pool.imap_unordered(_worker, jobs):
                results.extend(part)
    results.sort(key=lambda r: r['idx'])
    kinds = {}
    steps = 0
    reported = set()
    for r in results:
        if 'error' in r:
            if ('err',) not in reported:
                reported.add(('err',))
                rep.violation('harness error on %s: %s' % (r['backend'], r['error']),
                              {'backend': r['backend'], 'trace_index': r['idx'], 'seed': sd, 'broken': 'C08 correspondence harness'}, no_input=True)
            continue
        steps += r['n']
        for k, v in r['kinds'].items():
            kinds[k] = kinds.get(k, 0) + v
        if r['hits'] or r['div']:
            sig = ('law' if r['hits'] else 'corr', r['backend'])
            if sig in reported or len(reported) > 6:
                continue
            reported.add(sig)
            rng = random.Random('C08-%d-%d' % (sd, r['idx']))
            ops = gen_ops(rng, rng.randint(nops // 3, nops), r['backend'])
            if r['hits']:
                small = shrink(r['backend'], ops, lambda d, h: bool(h))
            else:
                small = shrink(r['backend'], ops, lambda d, h: d is not None)
            sc = Scratch()
            try:
                recs, div, hits = run_trace(r['backend'], small, sc)
            finally:
                sc.close()
            payload = {'backend': r['backend'], 'ops': small, 'seed': sd, 'divergence': div, 'law_hits': hits,
                       'last': recs[-1] if recs else None}
            if hits:
                rep.violation('C08 on %s: %s' % (r['backend'], hits[0]['what']), payload)
            else:
                payload['broken'] = 'per-step conformance of klepto.archives.cache with coq/Cache/CacheDict.v (theorems of Props/C08.v)'
                rep.violation('cache object and model disagree on %s at step %d: model %r, klepto %r'
                              % (div['field'], div['step'], div['model'], div['impl']), payload, no_input=True)
    if not proof_ok:
        rep.violation('proof obligation no longer checks: %s' % (pinfo.get('log') or pinfo.get('build_log')),
                      {'broken': 'coq/Props/C08.v', 'info': {k: v for k, v in pinfo.items() if k != 'print_assumptions'}}, no_input=True)
    need = ['dump', 'load', 'sync', 'archived', 'open', 'drop', 'sync-op-while-off']
    missing = [k for k in need if not kinds.get(k)]
    if pinfo.get('build_ok') and missing and not rep.violations:
        rep.violation('generator did not reach %r' % missing, {'broken': 'coverage', 'kinds': kinds}, no_input=True)
    nth = len(pinfo.get('theorems', []))
    cov = {'obligations': nth, 'discharged': nth if proof_ok else 0,
           'checker_cmd': 'cd /verif && ./build.sh && cd coq && coqc -Q Base Klepto -Q Cache Klepto -Q Keys Klepto -Q Store Klepto -Q Props Klepto Props/C08.v',
           'trusted_base': ['Coq 8.16.1 kernel', 'axioms: %s' % (', '.join(pinfo.get('axioms', [])) or 'none (Closed under the global context x%d)' % pinfo.get('closed', 0)),
                            'hand-written model coq/Cache/CacheDict.v tied to klepto.archives.cache by per-step conformance on 6 backends',
                            'extraction (ExtrOcamlBasic) + ml/driver.ml', 'that each archive backend behaves as a dict: property C03'],
           'theorems': pinfo.get('theorems', []), 'print_assumptions': pinfo.get('print_assumptions', ''),
           'evaluations': len(results), 'distinct_nontrivial': len({(r['backend'], r.get('n')) for r in results if r.get('n', 0) >= 5}),
           'rule': 'one evaluation = one random interleaving of cache mutations, direct archive mutations, dump/load/sync (with/without keys), archived on/off, open, drop on one backend; non-trivial = at least 5 operations',
           'traces_validated_against_impl': len([r for r in results if not r.get('div') and 'error' not in r]),
           'steps_compared': steps, 'distribution': dict(sorted(kinds.items())), 'backends': BACKENDS,
           'samples': [{'backend': r['backend'], 'ops': r['sample']} for r in results if r.get('sample')][:3] or [{'note': 'none'}]}
    write_evidence(prop, 'proof', cov, time.time() - t0, len(rep.violations),
                   ['model hand-written; assurance = min(theorems, sampled per-step conformance)',
                    'archive contents modelled as a dict (C03)'])
    return rep.emit()


def replay(p, path):
    sc = Scratch()
    try:
        recs, div, hits = run_trace(p['backend'], [tuple(o) if not isinstance(o, tuple) else o for o in p['ops']], sc)
    finally:
        sc.close()
    print(json.dumps({'divergence': div, 'law_hits': hits}, indent=1, default=repr))
    if div or hits:
        print('VIOLATION property=C08 replay=%s' % path)
        return 1
    return 0


if __name__ == '__main__':
    sys.exit(main())
