"""Checks of the cache-decorator properties (C01 C02 C05 C06 C07 C15 C16 C18): proof re-check,
per-step conformance of /repo against the extracted model, implementation-only monitors."""
import copy
import json
import multiprocessing as mp
import os
import random
import sys
import time

sys.path.insert(0, os.path.dirname(os.path.abspath(__file__)))
from common import Scratch, Report, seed, tier, write_evidence, load_findings, run_model
import cache_trace as ct
import cache_gen as cg
import cache_monitors as cm
import coqcheck

BOUNDED = ['lfu', 'lru', 'mru', 'rr']

B3 = ['lfu', 'lru', 'mru', 'rr'] * 3
SPECS = {
    'C01': dict(quick=(1100, 70), thorough=(60000, 110), focus={'p_twin': 0.3, 'p_digits': 0.15, 'weights': {'memclear': 1.5}}),
    'C02': dict(quick=(1000, 70), thorough=(60000, 110),
                focus={'weights': {'clear': 0.5, 'setarch': 0.5, 'archived': 0.5, 'archset': 6}, 'p_prologue': 0.5,
                       'p_detach': 0.03, 'p_restage': 0.03, 'algs': ['no', 'inf'] + B3,
                       'backends': ['plain', 'dictarch', 'dictarch', 'dictarch', 'dictarch', 'file', 'dir', 'sql', 'null'],
                       'maxsizes': [1, 1, 2, 2, 3, 3, 4, 5]}),
    'C05': dict(quick=(1400, 60), thorough=(60000, 100),
                focus={'weights': {'load': 9, 'archset': 8, 'clear': 1}, 'p_prologue': 0.6, 'p_special': 0.15, 'p_loadfill': 0.3,
                       'algs': ['no', 'inf'] + B3, 'p_detach': 0.3, 'maxsizes': [1, 1, 2, 2, 3, 4, 5, 10]}),
    'C06': dict(quick=(800, 140), thorough=(50000, 220),
                focus={'algs': BOUNDED, 'maxsizes': [1, 1, 2, 2, 3, 4, 5], 'p_special': 0.05, 'p_raising': 0.1,
                       'weights': {'call': 90, 'load': 1, 'dump': 1, 'clear': 0.3, 'archived': 0.5, 'setarch': 0.3,
                                   'archset': 1, 'lookup': 1, 'key': 1, 'info': 1}, 'p_prologue': 0.1}),
    'C07': dict(quick=(900, 70), thorough=(60000, 110),
                focus={'backends': ['dictarch', 'dictarch', 'dictarch', 'file', 'dir', 'sql', 'flaky', 'flaky'],
                       'algs': ['no', 'no'] + BOUNDED * 2 + ['inf'], 'maxsizes': [1, 2, 2, 3, 4, 5],
                       'weights': {'clear': 1, 'setarch': 1, 'archived': 1, 'archset': 7}, 'p_restage': 0.25, 'p_stale': 0.35}),
    'C15': dict(quick=(900, 70), thorough=(50000, 110),
                focus={'weights': {'clear': 5, 'info': 6}, 'p_special': 0.6, 'p_special_call': 0.2,
                       # the degraded paths of the safe decorators: key generation fails (hash of a list) / the key is unhashable (raw)
                       'keymaps': ['hash', 'hash', 'hash', 'raw', 'raw', 'str', 'md5', 'default', 'pickle', 'hash-typed', 'str-nf',
                                   'md5-typed', 'pickle-std', 'raw-typed']}),
    'C16': dict(quick=(1000, 60), thorough=(60000, 100),
                focus={'p_raising': 0.9, 'p_special': 0.85, 'p_special_raises': 0.6, 'p_special_call': 0.2,
                       'keymaps': ['hash', 'hash', 'hash', 'hash-typed', 'raw', 'raw', 'str', 'pickle', 'md5', 'default', 'raw-nf', 'str-nf',
                                   'pickle-std', 'pickle-std', 'pickle-std']}),
    'C18': dict(quick=(800, 60), thorough=(50000, 100),
                focus={'weights': {'lookup': 14, 'key': 10, 'info': 4}, 'p_special': 0.6, 'p_float': 0.4, 'p_special_call': 0.2,
                       'keymaps': ['hash', 'hash', 'hash', 'raw', 'raw', 'str', 'md5', 'default', 'pickle', 'hash-typed', 'str-nf',
                                   'md5-typed', 'pickle-std', 'raw-typed']}),
}


def outcome_classes(cfg, eff, recs):
    """branch classes reached by a trace (for the distribution written to the evidence)"""
    c = {}

    def bump(k):
        c[k] = c.get(k, 0) + 1
    for r in recs:
        op = r['op']
        bump('op:' + op[0])
        if op[0] != 'call':
            continue
        kr = r['extra'].get('kr', ('?',))
        pre, post = r['pre'], r['post']
        if r['out'][0] == 'raise':
            bump('call:raise:' + r['out'][1])
            continue
        if kr[0] != 'ok':
            bump('call:fallback')
            continue
        k = kr[1]
        if k in pre['mem']:
            bump('call:hit')
        elif r['out'][2] == 0:
            bump('call:load')
        else:
            bump('call:miss')
        gone = set(pre['mem']) - set(post['mem'])
        if gone:
            if len(post['mem']) == 0 and len(pre['mem']) > 0:
                bump('call:purge-or-clear')
            else:
                bump('call:evict')
        if pre['q'] is not None and post['q'] is not None and len(post['q']) < len(pre['q']) - 1:
            bump('call:queue-compaction')
        if len(pre['mem']) > max(eff[1], 0) and ct.ALGS[eff[0]] not in ('no', 'inf'):
            bump('call:overfull-before')
    return c


def trace_for(prop, sd, idx, thorough):
    spec = SPECS[prop]
    rng = random.Random('%s-%d-%d' % (prop, sd, idx))
    cfg = avoid_known(cg.gen_cfg(rng, spec['focus'], thorough))
    n = spec['thorough' if thorough else 'quick'][1]
    nops = rng.randint(max(10, n // 3), n)
    ops = cg.gen_ops(rng, cfg, nops, spec['focus'])
    return cfg, ops


def avoid_known(cfg):
    """keep the stream inside the properties' domain: an argument that cannot be pickled (a generator)
    gives, under the raw/hash keymaps, a key object or value that a pickling backend (file, dir,
    sqlite) cannot accept; a failed store in such a backend is C03's subject, not the decorators'."""
    if cfg['backend'] in ('dir', 'direct-dir', 'file', 'file-json', 'direct-file', 'sql') and ct.UNENC in cfg['special']:
        cfg = dict(cfg)
        cfg['special'] = [a for a in cfg['special'] if a != ct.UNENC]
    return cfg


def _worker(args):
    prop, sd, lo, hi, thorough = args
    scratch = Scratch()
    out = []
    mons = [cm.ALL[prop]] if prop in cm.ALL else []
    try:
        for idx in range(lo, hi):
            cfg, ops = trace_for(prop, sd, idx, thorough)
            cfg = avoid_known(cfg)
            try:
                res = ct.check_trace(cfg, ops, scratch, monitors=mons, prop=prop)
            except Exception as e:  # harness failure: reported, never silently dropped
                out.append({'idx': idx, 'cfg': cfg, 'harness_error': '%s: %s' % (type(e).__name__, e)})
                continue
            summ = {'idx': idx, 'cfg': cfg, 'nops': len(ops), 'eff': res['eff'],
                    'construct_error': res.get('construct_error'), 'div': res['div'],
                    'hits': [h for h in res['hits'] if h['prop'] == prop][:5],
                    'classes': outcome_classes(cfg, res['eff'], res['recs']) if res['recs'] else {}}
            if idx % 97 == 0 and res['recs']:
                summ['sample'] = {'cfg': cfg, 'ops': ops[:12], 'first_records': [
                    {'op': r['op'], 'out': r['out'], 'resident_after': sorted(r['post']['mem'])} for r in res['recs'][:6]]}
            out.append(summ)
    finally:
        scratch.close()
    return out


def problem_signature(prop, res):
    """what is wrong with a trace, as a comparable signature (None = nothing)"""
    if res.get('construct_error'):
        return ('construct', res['construct_error'].split(':')[0])
    hits = [h for h in res['hits'] if h['prop'] == prop]
    if hits:
        return ('monitor', prop)
    if res['div']:
        return ('corr', res['div']['field'])
    return None


def shrink(prop, cfg, ops, sig, budget=200):
    """delta debugging on the op list, keeping the same kind of problem"""
    scratch = Scratch()
    mons = [cm.ALL[prop]] if prop in cm.ALL else []

    def bad(o):
        try:
            res = ct.check_trace(cfg, o, scratch, monitors=mons, prop=prop)
        except Exception:
            return False
        return problem_signature(prop, res) == sig
    try:
        n = 2
        cur = list(ops)
        tries = 0
        while len(cur) >= 2 and tries < budget:
            chunk = max(1, len(cur) // n)
            reduced = False
            for i in range(0, len(cur), chunk):
                cand = cur[:i] + cur[i + chunk:]
                tries += 1
                if cand and bad(cand):
                    cur = cand
                    n = max(n - 1, 2)
                    reduced = True
                    break
                if tries >= budget:
                    break
            if not reduced:
                if chunk == 1:
                    break
                n = min(len(cur), n * 2)
        res = ct.check_trace(cfg, cur, scratch, monitors=mons, prop=prop)
        return cur, res
    finally:
        scratch.close()


def directed_search(prop, cfg, ops, sd, seconds=60):
    """a conformance divergence without a monitor hit: look for a concrete failing input of [prop]
    around the diverging case (same ops on every algorithm / variant / backend, mutated ops)."""
    if prop not in cm.ALL:
        return None
    scratch = Scratch()
    rng = random.Random('search-%s-%d' % (prop, sd))
    t0 = time.time()
    try:
        cands = []
        for alg in ct.ALGS:
            for safe in (False, True):
                for backend in ('plain', 'dictarch'):
                    c2 = dict(cfg, alg=alg, safe=safe, backend=backend)
                    cands.append((c2, ops))
        while cands or time.time() - t0 < seconds:
            if cands:
                c2, o2 = cands.pop()
            else:
                c2 = cg.gen_cfg(rng, SPECS[prop]['focus'], True)
                c2['alg'] = cfg['alg']
                c2['safe'] = cfg['safe']
                o2 = cg.gen_ops(rng, c2, rng.randint(20, 120), SPECS[prop]['focus'])
            if time.time() - t0 > seconds:
                break
            try:
                res = ct.check_trace(avoid_known(c2), o2, scratch, monitors=[cm.ALL[prop]], prop=prop)
            except Exception:
                continue
            if [h for h in res['hits'] if h['prop'] == prop]:
                return c2, o2
        return None
    finally:
        scratch.close()


def classify_known(prop, cfg, ops, res, findings):
    """is this failing case one of the recorded known findings of [prop]?"""
    import findings as fmod
    for f in findings:
        if f.get('property') != prop or f.get('status') != 'known':
            continue
        pred = getattr(fmod, f['predicate'], None)
        if pred and pred(cfg, ops, res):
            return f
    return None


def jsonable_res(res):
    recs = []
    for r in res.get('recs', [])[-6:]:
        recs.append({'op': r['op'], 'out': r['out'], 'pre': r['pre'], 'post': r['post'], 'extra': r['extra']})
    return {'divergence': res.get('div'), 'monitor_hits': res.get('hits'), 'construct_error': res.get('construct_error'),
            'last_records': recs}


def reuse_session():
    """memo = xxx_cache(...); f1 = memo(a); f2 = memo(b): hit/miss/load are counted per function"""
    import klepto
    import klepto.safe
    problems = []
    for mod in (klepto, klepto.safe):
        for name in ('lru_cache', 'lfu_cache', 'mru_cache', 'rr_cache', 'inf_cache', 'no_cache'):
            cls = getattr(mod, name)
            d = cls() if name in ('inf_cache', 'no_cache') else cls(maxsize=5)

            def fa(x):
                return ('a', x)

            def fb(x):
                return ('b', x)
            f1, f2 = d(fa), d(fb)
            tag = '%s.%s' % (mod.__name__, name)
            for x in (1, 2, 1):
                f1(x)
            if tuple(f2.info())[:3] != (0, 0, 0):
                problems.append('%s: a second function decorated by the same decorator object reports %r before its first call' % (tag, tuple(f2.info())[:3]))
                continue
            s1 = tuple(f1.info())[:3]
            for x in ('p', 'q', 'p'):
                f2(x)
            if tuple(f1.info())[:3] != s1:
                problems.append('%s: calls of one function changed the statistics of another decorated by the same decorator object (%r -> %r)' % (tag, s1, tuple(f1.info())[:3]))
                continue
            f2.clear()
            if tuple(f1.info())[:3] != s1:
                problems.append('%s: clear() of one function reset the statistics of another decorated by the same decorator object' % tag)
    return problems[:3]


def run_property(prop, level='proof', technique_note='', extra_obligations=None):
    t0 = time.time()
    thorough = tier() == 'thorough'
    sd = seed()
    rep = Report(prop)
    findings = load_findings()
    proof_ok, pinfo = coqcheck.proof_status(prop)
    ntr = SPECS[prop]['thorough' if thorough else 'quick'][0]
    nproc = min(16, os.cpu_count() or 4)
    results = []
    model_ok = pinfo.get('build_ok', False)
    if model_ok:
        chunk = max(5, ntr // (nproc * 3))
        jobs = [(prop, sd, lo, min(lo + chunk, ntr), thorough) for lo in range(0, ntr, chunk)]
        with mp.Pool(nproc) as pool:
            for part in pool.imap_unordered(_worker, jobs):
                results.extend(part)
    results.sort(key=lambda s: s['idx'])

    # ---- classification of problems
    classes = {}
    cfgs = set()
    samples = []
    nsteps = 0
    bad = []
    for s in results:
        if 'harness_error' in s:
            bad.append(s)
            continue
        for k, v in s['classes'].items():
            classes[k] = classes.get(k, 0) + v
        nsteps += s['nops']
        cfgs.add((s['cfg']['alg'], s['cfg']['safe'], s['cfg']['backend'], s['cfg']['keymap'],
                  s['cfg']['maxsize'], s['cfg']['maxhow'], s['cfg']['purge']))
        if 'sample' in s and len(samples) < 4:
            samples.append(s['sample'])
        if s['construct_error'] or s['div'] or s['hits']:
            bad.append(s)
    seen_sigs = set()
    corr_broken = None
    for s in bad:
        if 'harness_error' in s:
            rep.violation('harness error on trace %d: %s' % (s['idx'], s['harness_error']),
                          {'cfg': s['cfg'], 'trace_index': s['idx'], 'seed': sd,
                           'broken': 'correspondence harness for %s' % prop}, no_input=True)
            continue
        cfg, ops = trace_for(prop, sd, s['idx'], thorough)
        cfg = avoid_known(cfg)
        res0 = {'construct_error': s['construct_error'], 'hits': s['hits'], 'div': s['div']}
        sig = problem_signature(prop, res0)
        if sig is None:
            continue
        key = (sig, cfg['alg'], cfg['safe']) if sig[0] != 'construct' else (sig,)
        if key in seen_sigs or len(seen_sigs) >= 8:
            continue
        seen_sigs.add(key)
        if sig[0] == 'construct':
            sh_ops, res = [], ct.check_trace(cfg, [], Scratch(), prop=prop)
        else:
            sh_ops, res = shrink(prop, cfg, ops, sig)
        payload = {'cfg': cfg, 'ops': sh_ops, 'seed': sd, 'trace_index': s['idx'], 'signature': list(sig)}
        payload.update(jsonable_res(res))
        kf = classify_known(prop, cfg, sh_ops, res, findings)
        if kf:
            rep.known_finding(kf['id'], kf['description'])
            continue
        if sig[0] == 'monitor':
            what = [h for h in res['hits'] if h['prop'] == prop]
            rep.violation('%s on %s/%s: %s' % (prop, cfg['alg'], 'safe' if cfg['safe'] else 'std',
                                               what[0]['what'] if what else s['hits'][0]['what']), payload)
        elif sig[0] == 'construct':
            if prop == 'C05':
                rep.violation('decorator construction fails: %s (maxsize=%r passed %s)'
                              % (s['construct_error'], cfg['maxsize'], cfg['maxhow']), payload)
            else:
                # construction failures are C05's clause ("however maxsize is passed"); elsewhere
                # the trace simply cannot be run
                continue
        else:
            corr_broken = payload
            found = directed_search(prop, cfg, sh_ops or ops, sd, 90 if thorough else 30)
            payload['broken'] = ('per-step conformance of klepto with coq/Cache/CacheCore.v (theorems of Props/%s.v '
                                 'no longer transfer): field %s' % (prop, sig[1]))
            if found:
                c2, o2 = found
                o3, res3 = shrink(prop, c2, o2, ('monitor', prop))
                p3 = {'cfg': c2, 'ops': o3, 'seed': sd, 'found_by': 'directed search after conformance divergence',
                      'divergence_case': payload}
                p3.update(jsonable_res(res3))
                w3 = [h for h in res3['hits'] if h['prop'] == prop]
                rep.violation('%s: %s' % (prop, w3[0]['what'] if w3 else 'monitor hit'), p3)
            else:
                rep.violation('implementation and model disagree on %s (step %s: model %r, klepto %r)'
                              % (sig[1], res['div']['step'] if res.get('div') else '?',
                                 res['div']['model'] if res.get('div') else None,
                                 res['div']['impl'] if res.get('div') else None), payload, no_input=True)
    # ---- one decorator object applied to two functions: the statistics belong to each function (C15)
    if prop == 'C15':
        for pr in reuse_session():
            rep.violation('C15: ' + pr, {'session': 'one decorator instance, two functions', 'what': pr})
    # ---- recorded known findings with a probe are probed directly: the line is printed only while they reproduce
    for f in findings:
        if f.get('property') == prop and f.get('status') == 'known' and f.get('probe') and f['id'] not in [k for k, _ in rep.known]:
            try:
                if getattr(__import__('findings'), f['probe'])():
                    rep.known_finding(f['id'], f['description'])
            except Exception as e:
                rep.violation('probe of known finding %s failed: %s' % (f['id'], e), {'broken': 'known-finding probe'}, no_input=True)
    if not proof_ok:
        rep.violation('proof obligation no longer checks: %s' % (pinfo.get('log') or pinfo.get('build_log') or pinfo.get('hygiene')),
                      {'broken': 'coq/Props/%s.v' % prop, 'info': {k: v for k, v in pinfo.items() if k != 'print_assumptions'}},
                      no_input=True)

    # ---- coverage must reach the branch classes the property is about (fail closed)
    need = {'C01': ['call:hit', 'call:load', 'call:miss'], 'C02': ['call:load', 'call:miss', 'call:evict'],
            'C05': ['call:evict', 'call:purge-or-clear', 'call:overfull-before'],
            'C06': ['call:evict', 'call:hit', 'call:queue-compaction'], 'C07': ['call:evict', 'call:purge-or-clear'],
            'C15': ['call:hit', 'call:load', 'call:miss', 'op:clear'], 'C16': ['call:raise:User', 'call:fallback'],
            'C18': ['op:lookup', 'op:key']}.get(prop, [])
    missing = [k for k in need if not classes.get(k)]
    if model_ok and missing and not rep.violations:
        rep.violation('generator did not reach branch classes %r' % missing, {'broken': 'coverage of the correspondence run',
                                                                             'classes': classes}, no_input=True)

    nth = len(pinfo.get('theorems', []))
    coverage = {
        'obligations': nth + (extra_obligations or 0),
        'discharged': (nth + (extra_obligations or 0)) if proof_ok else 0,
        'checker_cmd': 'cd /verif && ./build.sh && cd coq && coqc -Q Base Klepto -Q Cache Klepto -Q Keys Klepto -Q Store Klepto -Q Props Klepto Props/%s.v' % prop,
        'trusted_base': ['Coq 8.16.1 kernel (coqc; vm_compute only in Example/finite lemmas; no native_compute)',
                         'axioms reported by Print Assumptions: %s' % (', '.join(pinfo.get('axioms', [])) or 'none (Closed under the global context x%d)' % pinfo.get('closed', 0)),
                         'hand-written model coq/Cache/CacheCore.v, CacheDict.v, OMap.v tied to /repo by per-step differential conformance (harness/cache_trace.py)',
                         'extraction with ExtrOcamlBasic only + ml/driver.ml; OCaml 4.13.1',
                         'CPython 3.12, dill, sqlite3, the file system'],
        'theorems': pinfo.get('theorems', []),
        'print_assumptions': pinfo.get('print_assumptions', ''),
        'evaluations': len(results),
        'distinct_nontrivial': len({json.dumps([s['cfg'], s['nops']], sort_keys=True, default=repr) for s in results
                                    if not s.get('harness_error') and s.get('classes', {}).get('op:call', 0) >= 3}),
        'rule': 'one evaluation = one generated (configuration, operation sequence) executed on klepto and, step by step from the '
                'observed pre-state, on the extracted Coq model; non-trivial = at least 3 calls; distinct = different configuration or length',
        'traces_validated_against_impl': len([s for s in results if not s.get('harness_error') and not s.get('div')]),
        'steps_compared': nsteps,
        'configurations': len(cfgs),
        'distribution': dict(sorted(classes.items())),
        'compared_fields': list(ct.FIELDS.get(prop, ct.FIELDS['ALL'])),
        'samples': samples[:3] or [{'note': 'no trace executed'}],
        'known_findings_reproduced': [k for k, _ in rep.known],
    }
    if level != 'proof':
        coverage['explanation'] = technique_note
    write_evidence(prop, level, coverage, time.time() - t0, len(rep.violations),
                   ['the model is hand-written; assurance = min(theorem about the model, sampled per-step conformance)',
                    'user function is deterministic; values/keys abstracted to integers by the harness (bijection checked by construction)'])
    return rep.emit()


if __name__ == '__main__':
    sys.exit(run_property(sys.argv[1]))
