"""Generators of cache configurations and operation sequences (one PRNG, everything derived from it)."""
from cache_trace import ALGS, UNHASH, UNENC, LAMBDA, UNHASHF

PERSISTENT = ('file', 'file-json', 'dir', 'sql')


def gen_cfg(rng, focus=None, thorough=False):
    focus = focus or {}
    alg = rng.choice(focus.get('algs', ALGS))
    safe = rng.random() < 0.5
    backends = focus.get('backends')
    if backends is None:
        backends = ['plain', 'dict0', 'null', 'dictarch', 'dictarch', 'dictarch', 'direct-dict']
        if thorough or rng.random() < 0.25:
            backends = backends + ['file', 'file-json', 'dir', 'sql', 'direct-file', 'direct-dir']
    backend = rng.choice(backends)
    keymaps = focus.get('keymaps')
    if keymaps is None:
        keymaps = ['hash', 'hash', 'raw', 'str', 'md5', 'default', 'pickle', 'hash-typed', 'str-nf', 'md5-typed',
                   'pickle-std', 'raw-typed']
    keymap = rng.choice(keymaps)
    if backend in ('direct-file', 'direct-dir') and keymap == 'raw-nf':
        keymap = 'raw'        # an unhashable key is a usable key for these archives: outside the integer-key model
    if backend == 'file-json' and keymap not in ('str', 'md5', 'md5-typed'):
        keymap = rng.choice(['str', 'md5'])      # json object keys are strings
    if backend == 'sql' and keymap in ('raw', 'raw-nf', 'pickle', 'raw-typed', 'pickle-std'):
        keymap = 'str'                      # sqlite cannot bind tuples; bytes keys are fine but slow
    if backend in ('dir', 'direct-dir') and keymap in ('pickle', 'pickle-std'):
        keymap = 'md5'
    r = rng.random()
    if alg in ('no', 'inf'):
        maxsize, how = rng.choice([(0, 'kw'), (None, 'kw'), (5, 'kw'), (100, 'default')]), None
        maxsize, how = maxsize
    elif r < 0.08:
        maxsize, how = 0, rng.choice(['kw', 'pos'])
    elif r < 0.16:
        maxsize, how = None, rng.choice(['kw', 'pos'])
    elif r < 0.22:
        maxsize, how = 100, 'default'       # maxsize not given at all: the documented default bound
    else:
        maxsize, how = rng.choice(focus.get('maxsizes', [1, 1, 2, 2, 3, 4, 5, 10, 25])), rng.choice(['kw', 'kw', 'pos'])
    purge = rng.choice([None, False, True, True])
    nargs = rng.randint(3, 9)
    raising = []
    if rng.random() < focus.get('p_raising', 0.35):
        raising = sorted(rng.sample(range(nargs), rng.randint(1, max(1, nargs // 3))))
    special = []
    if rng.random() < focus.get('p_special', 0.3):
        special = rng.choice([[UNHASH], [UNHASH], [UNHASH, UNENC], [UNHASH, LAMBDA], [UNHASHF, UNHASH], [LAMBDA]])
        if rng.random() < focus.get('p_special_raises', 0.3) and UNHASH in special:
            raising = raising + [UNHASH]
        if rng.random() < focus.get('p_special_raises', 0.3) / 2 and LAMBDA in special:
            raising = raising + [LAMBDA]
    # rounding tolerance (float arguments), typed twins (typed keymaps), string arguments (*args stub)
    tol = rng.choice([None, None, None, 0, 1, 2])
    deep = rng.random() < 0.4
    stub = rng.choice(['var', 'req2', 'req2', 'fdef', 'fdef'] + ['named'] * 6)
    none_arg = (nargs - 1) if rng.random() < 0.25 else None
    if none_arg is not None and none_arg in raising:
        raising = [a for a in raising if a != none_arg]
    if backend in ('direct-file', 'direct-dir'):
        # an unhashable key is a usable key for a file/directory archive used directly: outside the integer-key model
        special = []
        raising = [a for a in raising if a != UNHASH]
    extra = {'tol': tol, 'deep': deep, 'stub': stub, 'none_arg': none_arg}
    return dict(extra, **{'alg': alg, 'safe': safe, 'backend': backend, 'keymap': keymap, 'maxsize': maxsize,
            'maxhow': how, 'purge': purge, 'nargs': nargs, 'raising': raising, 'special': special})


def gen_ops(rng, cfg, n, focus=None):
    focus = focus or {}
    nargs = cfg['nargs']
    direct = cfg['backend'].startswith('direct')
    hot = rng.sample(range(nargs), min(nargs, rng.randint(1, 3)))
    w = dict(call=70, lookup=4, key=3, info=3, load=4, dump=4, clear=2, archived=3, setarch=2, archset=4, memclear=0)
    w.update(focus.get('weights', {}))
    if focus.get('calls_only'):
        w = dict(call=1)
    if cfg['keymap'] == 'raw-nf':
        # every key is unhashable under the non-flat raw keymap: no per-key management operations
        w['setarch'] = 0
        w['archset'] = 0
    kinds = list(w)
    weights = [w[k] for k in kinds]
    ops = []
    # optional prologue: results already in the archive (a previous session), then a bulk load
    if not direct and rng.random() < focus.get('p_prologue', 0.3) and not focus.get('calls_only') and cfg['keymap'] != 'raw-nf':
        for a in rng.sample(range(nargs), rng.randint(1, nargs)):
            ops.append(('archset', a))
        if rng.random() < 0.6:
            ops.append(('load', []))
    mode = rng.choice(['hot', 'uniform', 'scan'])
    scan_i = 0
    # scenario: fill past the bound with an archive attached, detach it, keep inserting new keys
    detach_at = None
    if not direct and not focus.get('calls_only') and rng.random() < focus.get('p_detach', 0.15):
        detach_at = rng.randint(min(n - 1, 6), max(7, n // 2))
    # scenario: entries staged in memory by a bulk load, then the archive is replaced
    if not direct and not focus.get('calls_only') and cfg['keymap'] != 'raw-nf' and rng.random() < focus.get('p_restage', 0.12):
        for a in rng.sample(range(nargs), rng.randint(2, nargs)):
            ops.append(('archset', a))
        ops.append(('load', []))
        ops.append(('setarch', sorted(rng.sample(range(nargs), rng.randint(0, 2)))))
    # scenario: the memory cache is filled by a bulk load of results that were never called in this
    # session (nothing in the use queue / counters knows them), then new arguments arrive
    ms = cfg['maxsize'] if isinstance(cfg['maxsize'], int) else 0
    if not direct and not focus.get('calls_only') and cfg['keymap'] != 'raw-nf' and 0 < ms <= nargs - 2 \
            and rng.random() < focus.get('p_loadfill', 0.08):
        m = rng.randint(ms, nargs - 2)
        loaded = rng.sample(range(nargs), m)
        fresh = [a for a in range(nargs) if a not in loaded]
        for a in loaded:
            ops.append(('archset', a))
        ops.append(('load', []))
        for a in fresh[:rng.randint(2, len(fresh))]:
            ops.append(('call', a))
        if rng.random() < 0.5:
            ops.append(('call', rng.choice(loaded)))
            ops.append(('call', rng.choice(fresh)))
    while len(ops) < n:
        if detach_at is not None and len(ops) >= detach_at:
            detach_at = None
            ops.append(rng.choice([('archived', False), ('setarch', None)]))
            for a in rng.sample(range(nargs), min(nargs, rng.randint(3, 8))):
                ops.append(('call', a))
            continue
        if rng.random() < 0.03:
            mode = rng.choice(['hot', 'uniform', 'scan'])
        kind = rng.choices(kinds, weights)[0]

        def arg(allow_special=True):
            nonlocal scan_i
            if allow_special and cfg['special'] and rng.random() < focus.get('p_special_call', 0.08):
                return rng.choice(cfg['special'])
            if allow_special and 'typed' in cfg['keymap'] and cfg.get('stub') != 'var' and rng.random() < focus.get('p_twin', 0.1) * (2 if cfg.get('stub') == 'req2' else 1):
                return ('t', rng.randrange(6))
            if allow_special and cfg.get('stub') == 'var' and cfg['keymap'] not in ('str', 'str-nf') \
                    and cfg['backend'] not in ('dir', 'direct-dir') and rng.random() < focus.get('p_digits', 0.06):
                # a string that spells an integer argument ('3' next to 3): a different argument, a different key
                return ('s', rng.randrange(nargs))
            if allow_special and rng.random() < focus.get('p_float', 0.12):
                r2 = rng.random()
                if r2 < 0.18:
                    return ('f', rng.randrange(5))
                if r2 < 0.3:
                    return ('fk', rng.randrange(5))
                if r2 < 0.45 and 'raw' not in cfg['keymap']:
                    return ('ft', rng.randrange(5))
                if r2 < 0.6 and focus.get('cased', True):
                    return ('sc', rng.randrange(4))
                if r2 < 0.75 and 'typed' in cfg['keymap'] and cfg.get('stub') != 'var':
                    return ('t', rng.randrange(6))
                if cfg.get('stub') == 'var' and cfg['keymap'] not in ('str', 'str-nf') and cfg['backend'] not in ('dir', 'direct-dir'):
                    # (a dir_archive stores 0 and '0' in the same directory: known finding K1 of C03)
                    # (under stringmap, str(5) == str('5') for a bare argument: known finding K4 of C10)
                    return ('s', rng.randrange(nargs))
            if mode == 'hot' and rng.random() < 0.7:
                return rng.choice(hot)
            if mode == 'scan':
                scan_i = (scan_i + 1) % nargs
                return scan_i
            return rng.randrange(nargs)
        if kind == 'call':
            ops.append(('call', arg()))
        elif kind == 'lookup':
            ops.append(('lookup', arg()))
        elif kind == 'key':
            ops.append(('key', arg()))
        elif kind == 'info':
            ops.append(('info',))
        elif kind in ('load', 'dump'):
            ks = [] if (rng.random() < 0.5 or cfg['keymap'] == 'raw-nf') else [arg(False) for _ in range(rng.randint(1, 3))]
            ops.append((kind, ks))
        elif kind == 'clear':
            ops.append(('clear', rng.random() < 0.4))
        elif kind == 'archived':
            ops.append(('archived', rng.choice([None, True, False])))
        elif kind == 'setarch':
            if rng.random() < 0.2:
                ops.append(('setarch', None))
            else:
                ops.append(('setarch', sorted(rng.sample(range(nargs), rng.randint(0, nargs)))))
        elif kind == 'memclear':
            # f.__cache__().clear(): the memory emptied BEHIND the wrapper (a plain dict operation on the cache object
            # the wrapper hands out) - queue, counters and statistics keep pointing at entries that are gone
            ops.append(('call', arg()) if direct else ('memclear',))
        elif kind == 'archset':
            a = arg(False)
            if isinstance(a, int) and rng.random() < focus.get('p_stale', 0):
                # another user of the archive left a DIFFERENT value under this key (an older version of the function)
                ops.append(('archset', a, 770000 + a))
            else:
                ops.append(('archset', a))
    return ops
