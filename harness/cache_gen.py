"""Generators of cache configurations and operation sequences (one PRNG, everything derived from it)."""
from cache_trace import ALGS, UNHASH, UNENC

PERSISTENT = ('file', 'dir', 'sql')


def gen_cfg(rng, focus=None, thorough=False):
    focus = focus or {}
    alg = rng.choice(focus.get('algs', ALGS))
    safe = rng.random() < 0.5
    backends = focus.get('backends')
    if backends is None:
        backends = ['plain', 'dict0', 'null', 'dictarch', 'dictarch', 'dictarch', 'direct-dict']
        if thorough or rng.random() < 0.25:
            backends = backends + ['file', 'dir', 'sql', 'direct-file', 'direct-dir']
    backend = rng.choice(backends)
    keymaps = focus.get('keymaps')
    if keymaps is None:
        keymaps = ['hash', 'hash', 'raw', 'str', 'md5', 'default', 'pickle', 'hash-typed', 'str-nf']
    keymap = rng.choice(keymaps)
    if backend == 'sql' and keymap in ('raw', 'raw-nf', 'pickle'):
        keymap = 'str'                      # sqlite cannot bind tuples; bytes keys are fine but slow
    if backend in ('dir', 'direct-dir') and keymap in ('pickle',):
        keymap = 'md5'
    r = rng.random()
    if alg in ('no', 'inf'):
        maxsize, how = rng.choice([(0, 'kw'), (None, 'kw'), (5, 'kw'), (100, 'default')]), None
        maxsize, how = maxsize
    elif r < 0.08:
        maxsize, how = 0, rng.choice(['kw', 'pos'])
    elif r < 0.16:
        maxsize, how = None, rng.choice(['kw', 'pos'])
    else:
        maxsize, how = rng.choice(focus.get('maxsizes', [1, 1, 2, 2, 3, 4, 5, 10, 25])), rng.choice(['kw', 'kw', 'pos'])
    purge = rng.choice([None, False, True, True])
    nargs = rng.randint(3, 9)
    raising = []
    if rng.random() < focus.get('p_raising', 0.35):
        raising = sorted(rng.sample(range(nargs), rng.randint(1, max(1, nargs // 3))))
    special = []
    if rng.random() < focus.get('p_special', 0.3):
        special = [UNHASH] if rng.random() < 0.6 else [UNHASH, UNENC]
        if rng.random() < 0.3:
            raising = raising + [UNHASH]
    if backend in ('direct-file', 'direct-dir'):
        # an unhashable key is a usable key for a file/directory archive used directly: outside the integer-key model
        special = []
        raising = [a for a in raising if a != UNHASH]
    return {'alg': alg, 'safe': safe, 'backend': backend, 'keymap': keymap, 'maxsize': maxsize,
            'maxhow': how, 'purge': purge, 'nargs': nargs, 'raising': raising, 'special': special}


def gen_ops(rng, cfg, n, focus=None):
    focus = focus or {}
    nargs = cfg['nargs']
    direct = cfg['backend'].startswith('direct')
    hot = rng.sample(range(nargs), min(nargs, rng.randint(1, 3)))
    w = dict(call=70, lookup=4, key=3, info=3, load=4, dump=4, clear=2, archived=3, setarch=2, archset=4)
    w.update(focus.get('weights', {}))
    if focus.get('calls_only'):
        w = dict(call=1)
    if cfg['keymap'] == 'raw-nf':
        # every key is unhashable under the non-flat raw keymap: no per-key management operations
        w['setarch'] = 0
        w['archset'] = 0
    kinds = list(w)
    weights = [w[k] for k in kinds]
    ops = []
    # optional prologue: results already in the archive (a previous session), then a bulk load
    if not direct and rng.random() < focus.get('p_prologue', 0.3) and not focus.get('calls_only') and cfg['keymap'] != 'raw-nf':
        for a in rng.sample(range(nargs), rng.randint(1, nargs)):
            ops.append(('archset', a))
        if rng.random() < 0.6:
            ops.append(('load', []))
    mode = rng.choice(['hot', 'uniform', 'scan'])
    scan_i = 0
    while len(ops) < n:
        if rng.random() < 0.03:
            mode = rng.choice(['hot', 'uniform', 'scan'])
        kind = rng.choices(kinds, weights)[0]

        def arg(allow_special=True):
            nonlocal scan_i
            if allow_special and cfg['special'] and rng.random() < 0.08:
                return rng.choice(cfg['special'])
            if mode == 'hot' and rng.random() < 0.7:
                return rng.choice(hot)
            if mode == 'scan':
                scan_i = (scan_i + 1) % nargs
                return scan_i
            return rng.randrange(nargs)
        if kind == 'call':
            ops.append(('call', arg()))
        elif kind == 'lookup':
            ops.append(('lookup', arg()))
        elif kind == 'key':
            ops.append(('key', arg()))
        elif kind == 'info':
            ops.append(('info',))
        elif kind in ('load', 'dump'):
            ks = [] if (rng.random() < 0.5 or cfg['keymap'] == 'raw-nf') else [arg(False) for _ in range(rng.randint(1, 3))]
            ops.append((kind, ks))
        elif kind == 'clear':
            ops.append(('clear', rng.random() < 0.4))
        elif kind == 'archived':
            ops.append(('archived', rng.choice([None, True, False])))
        elif kind == 'setarch':
            if rng.random() < 0.2:
                ops.append(('setarch', None))
            else:
                ops.append(('setarch', sorted(rng.sample(range(nargs), rng.randint(0, nargs)))))
        elif kind == 'archset':
            ops.append(('archset', arg(False)))
    return ops
