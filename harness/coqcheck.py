"""Coq side of a check: full build, re-check of the property file, Print Assumptions, hygiene grep."""
import os
import re
import subprocess
import time

from common import VERIF, COQ, BUILD

QFLAGS = ['-Q', 'Base', 'Klepto', '-Q', 'Cache', 'Klepto', '-Q', 'Keys', 'Klepto',
          '-Q', 'Store', 'Klepto', '-Q', 'Props', 'Klepto']
FORBIDDEN = re.compile(r'\b(Admitted|admit|Axiom|Axioms|Parameter|Parameters|Conjecture|Conjectures|Abort All)\b'
                       r'|Unset\s+Guard|Unset\s+Positivity|Unset\s+Universe|bypass_check|type-in-type|Admit\s+Obligations')


def build():
    """./build.sh ; returns (ok, log tail)"""
    os.makedirs(BUILD, exist_ok=True)
    p = subprocess.run([os.path.join(VERIF, 'build.sh')], stdout=subprocess.PIPE, stderr=subprocess.STDOUT,
                       timeout=3000)
    return p.returncode == 0, p.stdout.decode()[-3000:]


def strip_comments(src):
    out = []
    depth = 0
    i = 0
    while i < len(src):
        if src.startswith('(*', i):
            depth += 1
            i += 2
        elif src.startswith('*)', i) and depth:
            depth -= 1
            i += 2
        else:
            if depth == 0:
                out.append(src[i])
            i += 1
    return ''.join(out)


def hygiene():
    """no Admitted/Axiom/Parameter/... anywhere in the development (comments excluded)"""
    bad = []
    for root, _, files in os.walk(COQ):
        for fn in files:
            if not fn.endswith('.v'):
                continue
            path = os.path.join(root, fn)
            src = strip_comments(open(path).read())
            # "Variable"/"Hypothesis" are allowed inside sections only
            for m in FORBIDDEN.finditer(src):
                bad.append('%s: %s' % (os.path.relpath(path, COQ), m.group(0)))
            depth = 0
            for line in src.split('\n'):
                t = line.strip()
                if re.match(r'Section\s+\w+', t):
                    depth += 1
                elif re.match(r'End\s+\w+\s*\.', t) and depth:
                    depth -= 1
                elif depth == 0 and re.match(r'(Variable|Variables|Hypothesis|Hypotheses|Context)\b', t):
                    bad.append('%s: %s outside a section' % (os.path.relpath(path, COQ), t.split()[0]))
    return bad


def check_props(prop):
    """re-run coqc on Props/<prop>.v, capturing Print Assumptions.  Returns a dict."""
    path = os.path.join(COQ, 'Props', prop + '.v')
    res = {'file': 'coq/Props/%s.v' % prop, 'ok': False, 'theorems': [], 'assumptions': {}, 'log': ''}
    if not os.path.exists(path):
        res['log'] = 'no property file'
        return res
    src = strip_comments(open(path).read())
    res['theorems'] = re.findall(r'^\s*(?:Theorem|Corollary|Example|Lemma)\s+(\w+)', src, re.M)
    t0 = time.time()
    p = subprocess.run(['coqc'] + QFLAGS + [os.path.join('Props', prop + '.v')], cwd=COQ,
                       stdout=subprocess.PIPE, stderr=subprocess.STDOUT, timeout=1800)
    out = p.stdout.decode()
    res['coqc_s'] = round(time.time() - t0, 2)
    res['log'] = out[-4000:]
    res['ok'] = p.returncode == 0
    # Print Assumptions output: either "Closed under the global context" or "Axioms:\n name : type ..."
    closed = out.count('Closed under the global context')
    axioms = sorted(set(re.findall(r'^([A-Za-z_][\w.\']*)\s*:', out.split('Axioms:', 1)[1], re.M))) if 'Axioms:' in out else []
    res['closed'] = closed
    res['axioms'] = axioms
    res['print_assumptions'] = out.strip()[-2000:]
    return res


def proof_status(prop):
    """(ok, info) for the proof side of property [prop]"""
    ok, log = build()
    info = {'build_ok': ok}
    if not ok:
        info['build_log'] = log
        return False, info
    bad = hygiene()
    info['hygiene'] = bad
    pr = check_props(prop)
    info.update(pr)
    chk_ok = True
    if os.environ.get('VERIF_TIER') == 'thorough' and pr['ok']:
        chk_ok, info['coqchk'] = coqchk(prop)
        info['print_assumptions'] = (info.get('print_assumptions', '') + '\n-- coqchk -o Klepto.%s --\n%s' % (prop, info['coqchk']))[-3000:]
        if not chk_ok:
            info['log'] = 'coqchk: ' + info['coqchk']
    return ok and not bad and pr['ok'] and chk_ok, info


def coqchk(prop):
    """independent re-check (coqchk) of the compiled property file and everything it loads; the context
    summary must report no axioms and no disabled kernel check"""
    try:
        p = subprocess.run(['coqchk', '-silent', '-o'] + QFLAGS + ['Klepto.' + prop], cwd=COQ,
                           stdout=subprocess.PIPE, stderr=subprocess.STDOUT, timeout=2400)
    except subprocess.TimeoutExpired:
        return False, 'coqchk timed out'
    out = p.stdout.decode()
    summ = out[out.index('CONTEXT SUMMARY'):] if 'CONTEXT SUMMARY' in out else out[-1500:]
    summ = ' '.join(summ.split())
    clean = p.returncode == 0 and 'Axioms: <none>' in summ and 'type-in-type: <none>' in summ and \
        'unsafe (co)fixpoints: <none>' in summ and 'positivity is assumed: <none>' in summ
    return clean, summ[:1500]
