"""Classifiers deciding, from a shrunk failing case, whether it is a recorded known finding.
known_findings.json names one of these functions in its "predicate" field."""


def never(*a, **k):
    return False


def probe_k7_round_overflow():
    """K7 (C12): tol far below zero on a huge float: round() itself overflows and the call fails"""
    import klepto
    f = klepto.lru_cache(maxsize=3, tol=-308)(lambda x: x)
    try:
        f(1.7e308)
    except OverflowError:
        return True
    return False


def k7_overflow(p):
    return 'OverflowError' in p.get('what', '') and 'too large' in p.get('what', '')
