"""Classifiers deciding, from a shrunk failing case, whether it is a recorded known finding.
known_findings.json names one of these functions in its "predicate" field."""


import os


def never(*a, **k):
    return False


def probe_k7_round_overflow():
    """K7 (C12): tol far below zero on a huge float: round() itself overflows and the call fails"""
    import klepto
    f = klepto.lru_cache(maxsize=3, tol=-308)(lambda x: x)
    try:
        f(1.7e308)
    except OverflowError:
        return True
    return False


def k7_overflow(p):
    return 'OverflowError' in p.get('what', '') and 'too large' in p.get('what', '')


def k8_pickle_identity(hit):
    """K8 (C09/C17): under picklemap(serializer='pickle') two keys with EQUAL content differ in bytes
    because pickle's memo records which argument objects are shared (e.g. two equal default tuples
    merged by the compiler vs. one of them spelled out by the caller)."""
    if not hit.get('keymap', '').startswith('pickle-'):
        return False
    import pickle
    import re
    m = re.findall(r"b'(?:[^'\\\\]|\\\\.)*'", hit.get('what', ''))
    ks = hit.get('keys')
    if ks and len(ks) == 2:
        try:
            return ks[0] != ks[1] and pickle.loads(ks[0]) == pickle.loads(ks[1])
        except Exception:
            return False
    return False


def probe_k8_pickle_identity():
    import klepto
    import klepto.keymaps as km

    def f(a, k=(1,), w=(1,)):
        return 0
    g = klepto.inf_cache(keymap=km.picklemap(serializer='pickle'))(f)
    return g.key(True) != g.key(True, w=tuple([1]))


def _dir_name(key):
    return str(key).replace('-', '_')


def k1_dir_alias(label, ops, problem):
    """K1 (C03): dir_archive names the entry directory of a key str(key).replace('-', '_'), so two
    distinct keys with the same name (0 and '0', 'a-b' and 'a_b', (1, 2) and '(1, 2)') share one entry.
    Matches only when the shrunk history really uses two such keys."""
    if not label.startswith('dir'):
        return False
    keys = []
    for op in ops:
        for x in op[1:2]:
            if isinstance(x, (list,)):
                for y in x:
                    keys.append(y[0] if isinstance(y, (tuple, list)) and op[0] == 'update' else y)
            else:
                keys.append(x)
    seen = {}
    for k in keys:
        try:
            n = _dir_name(k)
        except Exception:
            continue
        for other in seen.get(n, []):
            if type(other) is not type(k) or other != k:
                return True
        seen.setdefault(n, []).append(k)
    return False


def probe_k1_dir_alias():
    import shutil
    import tempfile
    import klepto.archives as ar
    d = tempfile.mkdtemp(prefix='k1probe')
    try:
        a = ar.dir_archive(os.path.join(d, 'a.d'), cached=False)
        a[0] = 'int'
        a['0'] = 'str'
        return a[0] == 'str' or len(a) != 2
    finally:
        shutil.rmtree(d, ignore_errors=True)


def _op_keys(ops):
    keys = []
    for op in ops:
        for x in op[1:2]:
            if isinstance(x, list):
                for y in x:
                    keys.append(y[0] if isinstance(y, (tuple, list)) and op[0] == 'update' else y)
            else:
                keys.append(x)
    return keys


def k9_dir_source_name(label, ops, problem):
    """K9 (C03): dir_archive(serialized=False) reads entries with "from K_<name> import memo": a key whose
    directory name is not a valid module name is stored without error but can never be read back."""
    if not label.startswith('dir-source'):
        return False
    for k in _op_keys(ops):
        try:
            if not ('K_' + _dir_name(k)).isidentifier():
                return True
        except Exception:
            pass
    return False


def probe_k9_dir_source_name():
    import shutil
    import tempfile
    import klepto.archives as ar
    d = tempfile.mkdtemp(prefix='k9probe')
    try:
        a = ar.dir_archive(os.path.join(d, 'a.d'), cached=False, serialized=False)
        a[(1, 2)] = 5
        try:
            return dict(a.items()) != {(1, 2): 5}
        except KeyError:
            return True
    finally:
        shutil.rmtree(d, ignore_errors=True)


def k2_dir_overwrite_window(label, action, pre, problem):
    """K2 (C13): overwriting an existing key of a dir_archive: the old entry is moved aside before the new
    one is moved in, so a crash in between leaves the key absent (readable archive, other keys intact)."""
    if not label.startswith('dir'):
        return False
    if action[0] not in ('set', 'update', 'dump', 'dump-keys', 'setdefault', 'seed'):
        return False
    what = problem.get('what', '')
    if 'reads __absent__' not in what or 'touched key' not in what:
        return False
    import json as _j
    prek = set(_j.dumps(k, sort_keys=True) for k, _ in pre)
    m = what.replace('cache.load(): ', '').split('touched key ', 1)[1].split(' reads ')[0]
    return m in prek and all('reads __absent__' in w and 'touched key' in w for w in problem.get('all', [what]))
