"""Classifiers deciding, from a shrunk failing case, whether it is a recorded known finding.
known_findings.json names one of these functions in its "predicate" field."""


def never(*a, **k):
    return False


def probe_k7_round_overflow():
    """K7 (C12): tol far below zero on a huge float: round() itself overflows and the call fails"""
    import klepto
    f = klepto.lru_cache(maxsize=3, tol=-308)(lambda x: x)
    try:
        f(1.7e308)
    except OverflowError:
        return True
    return False


def k7_overflow(p):
    return 'OverflowError' in p.get('what', '') and 'too large' in p.get('what', '')


def k8_pickle_identity(hit):
    """K8 (C09/C17): under picklemap(serializer='pickle') two keys with EQUAL content differ in bytes
    because pickle's memo records which argument objects are shared (e.g. two equal default tuples
    merged by the compiler vs. one of them spelled out by the caller)."""
    if not hit.get('keymap', '').startswith('pickle-'):
        return False
    import pickle
    import re
    m = re.findall(r"b'(?:[^'\\\\]|\\\\.)*'", hit.get('what', ''))
    ks = hit.get('keys')
    if ks and len(ks) == 2:
        try:
            return ks[0] != ks[1] and pickle.loads(ks[0]) == pickle.loads(ks[1])
        except Exception:
            return False
    return False


def probe_k8_pickle_identity():
    import klepto
    import klepto.keymaps as km

    def f(a, k=(1,), w=(1,)):
        return 0
    g = klepto.inf_cache(keymap=km.picklemap(serializer='pickle'))(f)
    return g.key(True) != g.key(True, w=tuple([1]))
