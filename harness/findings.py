"""Classifiers deciding, from a shrunk failing case, whether it is a recorded known finding.
known_findings.json names one of these functions in its "predicate" field."""


import os


def never(*a, **k):
    return False


def probe_k7_round_overflow():
    """K7 (C12): tol far below zero on a huge float: round() itself overflows and the call fails"""
    import klepto
    f = klepto.lru_cache(maxsize=3, tol=-308)(lambda x: x)
    try:
        f(1.7e308)
    except OverflowError:
        return True
    return False


def k7_overflow(p):
    return 'OverflowError' in p.get('what', '') and 'too large' in p.get('what', '')


def k8_pickle_identity(hit):
    """K8 (C09/C17): under picklemap(serializer='pickle') two keys with EQUAL content differ in bytes
    because pickle's memo records which argument objects are shared (e.g. two equal default tuples
    merged by the compiler vs. one of them spelled out by the caller)."""
    if not hit.get('keymap', '').startswith('pickle-'):
        return False
    import pickle
    import re
    m = re.findall(r"b'(?:[^'\\\\]|\\\\.)*'", hit.get('what', ''))
    ks = hit.get('keys')
    if ks and len(ks) == 2:
        try:
            return ks[0] != ks[1] and pickle.loads(ks[0]) == pickle.loads(ks[1])
        except Exception:
            return False
    return False


def probe_k8_pickle_identity():
    import klepto
    import klepto.keymaps as km

    def f(a, k=(1,), w=(1,)):
        return 0
    g = klepto.inf_cache(keymap=km.picklemap(serializer='pickle'))(f)
    return g.key(True) != g.key(True, w=tuple([1]))


def _dir_name(key):
    return str(key).replace('-', '_')


def k1_dir_alias(label, ops, problem):
    """K1 (C03): dir_archive names the entry directory of a key str(key).replace('-', '_'), so two
    distinct keys with the same name (0 and '0', 'a-b' and 'a_b', (1, 2) and '(1, 2)') share one entry.
    Matches only when the shrunk history really uses two such keys."""
    if not label.startswith('dir'):
        return False
    keys = []
    for op in ops:
        for x in op[1:2]:
            if isinstance(x, (list,)):
                for y in x:
                    keys.append(y[0] if isinstance(y, (tuple, list)) and op[0] == 'update' else y)
            else:
                keys.append(x)
    seen = {}
    for k in keys:
        try:
            n = _dir_name(k)
        except Exception:
            continue
        for other in seen.get(n, []):
            if type(other) is not type(k) or other != k:
                return True
        seen.setdefault(n, []).append(k)
    return False


def probe_k1_dir_alias():
    import shutil
    import tempfile
    import klepto.archives as ar
    d = tempfile.mkdtemp(prefix='k1probe')
    try:
        a = ar.dir_archive(os.path.join(d, 'a.d'), cached=False)
        a[0] = 'int'
        a['0'] = 'str'
        return a[0] == 'str' or len(a) != 2
    finally:
        shutil.rmtree(d, ignore_errors=True)


def _op_keys(ops):
    keys = []
    for op in ops:
        for x in op[1:2]:
            if isinstance(x, list):
                for y in x:
                    keys.append(y[0] if isinstance(y, (tuple, list)) and op[0] == 'update' else y)
            else:
                keys.append(x)
    return keys


def k15_dir_name_too_long(label, ops, problem):
    """K15 (C03): dir_archive creates the directory 'K_' + str(key); when that name is longer than the file
    system allows for one path component (255 bytes) the mkdir fails and the store is silently dropped, where a
    dict holds the key afterwards.  Matches only that: right after a store, exactly the too-long key(s) just
    stored are missing from the archive, nothing else is missing, extra or changed."""
    if not label.startswith('dir'):
        return False
    op = problem.get('op') or ()
    if not op or op[0] not in ('set', 'setdefault', 'update'):
        return False
    if 'missing' not in problem or problem.get('extra') or problem.get('changed') or not problem['missing']:
        return False
    toolong = set()
    for k in _op_keys([op]):
        try:
            if len(('K_' + _dir_name(k)).encode()) > 255:
                toolong.add(repr(k))
        except Exception:
            pass
    return bool(toolong) and set(problem['missing']) <= toolong


def probe_k15_dir_name_too_long():
    import shutil
    import tempfile
    import klepto.archives as ar
    d = tempfile.mkdtemp(prefix='k15probe')
    try:
        a = ar.dir_archive(os.path.join(d, 'a.d'), cached=False)
        a['M' * 300] = 1
        return 'M' * 300 not in dict(a.items())
    finally:
        shutil.rmtree(d, ignore_errors=True)


def k9_dir_source_name(label, ops, problem):
    """K9 (C03): dir_archive(serialized=False) reads entries with "from K_<name> import memo": a key whose
    directory name is not a valid module name is stored without error but can never be read back."""
    if not label.startswith('dir-source'):
        return False
    for k in _op_keys(ops):
        try:
            if not ('K_' + _dir_name(k)).isidentifier():
                return True
        except Exception:
            pass
    return False


def probe_k9_dir_source_name():
    import shutil
    import tempfile
    import klepto.archives as ar
    d = tempfile.mkdtemp(prefix='k9probe')
    try:
        a = ar.dir_archive(os.path.join(d, 'a.d'), cached=False, serialized=False)
        a[(1, 2)] = 5
        try:
            return dict(a.items()) != {(1, 2): 5}
        except KeyError:
            return True
    finally:
        shutil.rmtree(d, ignore_errors=True)


def k2_dir_overwrite_window(label, action, pre, problem):
    """K2 (C13): overwriting an existing key of a dir_archive: the old entry is moved aside before the new
    one is moved in, so a crash in between leaves the key absent (readable archive, other keys intact)."""
    if not label.startswith('dir'):
        return False
    if action[0] not in ('set', 'update', 'dump', 'dump-keys', 'setdefault', 'seed'):
        return False
    what = problem.get('what', '')
    if 'reads __absent__' not in what or 'touched key' not in what:
        return False
    import json as _j
    prek = set(_j.dumps(k, sort_keys=True) for k, _ in pre)
    m = what.replace('cache.load(): ', '').split('touched key ', 1)[1].split(' reads ')[0]
    return m in prek and all('reads __absent__' in w and 'touched key' in w for w in problem.get('all', [what]))


def _c14_touches_existing(actions, pre):
    import json as _j
    prek = set(_j.dumps(k) for k, _ in pre)
    for a in actions:
        if a[0] in ('del', 'pop', 'set', 'setdefault') and _j.dumps(a[1]) in prek:
            return True
        if a[0] in ('update', 'dump') and any(_j.dumps(k) in prek for k, _ in a[1]):
            return True
        if a[0] in ('clear', 'popkeys'):
            return True
    return False


def _steps(problem):
    out = []
    for st in problem.get('steps') or []:
        who, _, what = st.partition(':')
        out.append((who, what))
    return out


_LISTING = ('scandir(arch', 'listdir(arch', 'sql:select', 'open(arch.')


def _destructive_step(label, steps, reader):
    """index of the step by which another process makes an existing entry disappear"""
    idx = None
    if label.startswith('dir'):
        for i, (who, st) in enumerate(steps):
            if who != reader and st.startswith('rename(K_') and not st.startswith('rename(K_.I_'):
                return i                      # the entry is moved aside
        return None
    if label.startswith('file'):
        for i, (who, st) in enumerate(steps):
            if who != reader and st.startswith('replace('):
                idx = i                       # the writer's last replace carries the deletion
        return idx
    commits = any(st == 'sql:commit' for who, st in steps if who != reader)
    deleted = False
    for i, (who, st) in enumerate(steps):
        if who == reader:
            continue
        if st == 'sql:delete':
            if not commits:
                return i
            deleted = True
        elif st == 'sql:commit' and deleted:
            return i
    return None


def k10_list_then_fetch(label, actions, pre, problem):
    """K10 (C14): dir_archive, sqltable_archive and file_archive iterate by listing the keys and then
    fetching each entry (file_archive: re-reading the whole file per key); an entry deleted or overwritten
    by another process in between makes the reader raise KeyError.
    Matches only schedules of exactly that shape: the failing reader listed the archive BEFORE the step
    by which the other process makes the entry disappear, and went on reading after it."""
    if not (label.startswith('dir') or label.startswith('sql') or label.startswith('file')):
        return False
    what = problem.get('what', '')
    if ' failed: KeyError' not in what or not _c14_touches_existing(actions, pre):
        return False
    try:
        reader = what.split('process ', 1)[1].split(' ', 1)[0]
    except IndexError:
        return False
    steps = _steps(problem)
    d = _destructive_step(label, steps, reader)
    if d is None:
        return False
    listed_before = any(who == reader and st.startswith(_LISTING) for who, st in steps[:d])
    reads_after = any(who == reader for who, st in steps[d + 1:])
    if label.startswith('dir'):
        # a reader that lists the directory after the entry was moved aside does not see it: it must not fail
        relisted = any(who == reader and st.startswith(('scandir(arch', 'listdir(arch')) for who, st in steps[d + 1:])
        return listed_before and reads_after and not relisted
    return listed_before and reads_after


def k11_file_opener_rewrites(label, actions, pre, problem):
    """K11 (C14): every file_archive(...) construction ends in archive.update({}), which reads the file
    and writes it back: a process that merely opens (or reads) the archive while another one writes can
    put the older contents back - the completed write is lost."""
    if not label.startswith('file'):
        return False
    what = problem.get('what', '')
    writers = [a for a in actions if a[0] in ('set', 'del', 'pop', 'update', 'clear', 'dump', 'setdefault', 'popkeys')]
    # only a handle opened with cached=False re-saves: the cached front end (open-cached, read-cache) does not write
    resaving = [a for a in actions if a not in writers and a[0] not in ('open-cached', 'read-cache')]
    return 'after all processes finished the archive holds' in what and len(writers) == 1 and len(resaving) >= 1


def k2_dir_overwrite_window_reader(label, actions, pre, problem):
    """K2 as a concurrent reader sees it (C14): between the move aside of the old entry directory and the
    move in of the new one the key being overwritten is absent (membership False, lookup KeyError, missing
    from keys/items/load).  Matches only readers that act inside that window."""
    if not label.startswith('dir') or pre == 'EMPTY':
        return False
    what = problem.get('what', '')
    if 'stored throughout' not in what:
        return False
    try:
        reader = what.split('process ', 1)[1].split(' ', 1)[0]
    except IndexError:
        return False
    steps = _steps(problem)
    aside = inn = None
    for i, (who, st) in enumerate(steps):
        if who == reader:
            continue
        if st.startswith('rename(K_') and not st.startswith('rename(K_.I_') and aside is None:
            aside = i
        elif st.startswith('rename(K_.I_') and aside is not None and inn is None:
            inn = i
    if aside is None:
        return False
    inn = len(steps) if inn is None else inn
    return any(who == reader and aside < i < inn for i, (who, st) in enumerate(steps))


def probe_k12_sql_unpicklable():
    """K12 (C04): a sqltable_archive (sqlite3 fallback) holds an open connection and cannot be pickled"""
    import shutil
    import tempfile
    import dill
    import klepto.archives as ar
    d = tempfile.mkdtemp(prefix='k12probe')
    try:
        a = ar.sqltable_archive('sqlite:///%s/x.db?table=t' % d, cached=False)
        a['k'] = 1
        try:
            b = dill.loads(dill.dumps(a))
            return dict(b.items()) != {'k': 1}
        except TypeError:
            return True
    finally:
        shutil.rmtree(d, ignore_errors=True)


def probe_k4_stringmap_bare_argument():
    """K4 (C10): a flat stringmap keys a call with ONE bare argument (def f(*args)) by str(argument):
    f(5) and f('5') share an entry"""
    import klepto
    import klepto.keymaps as km

    def f(*args):
        return repr(args)
    g = klepto.inf_cache(keymap=km.stringmap(flat=True))(f)
    return g(5) == g('5')


def probe_k6_posonly_kwarg_name():
    """K6 (C10): def f(x, /, **kw): f(1, x=5) and f(1, x=6) bind differently but share a key"""
    import klepto
    ns = {}
    exec("def f(x, /, **kw):\n    return (x, sorted(kw.items()))", ns)
    g = klepto.inf_cache()(ns['f'])
    return g(1, x=5) == g(1, x=6)


def k4_stringmap_bare(hit):
    """K4 (C10): the shared key is the str() of one bare argument under a flat string keymap"""
    return bool(hit.get('bare_str')) and hit.get('keymap', '').startswith('str-')


def k13_unrounded_default(hit):
    """K13 (C09): with tol set, a float default that the caller spells out is rounded, the same default left
    to the signature is not (rounding runs before defaults are filled in)"""
    return bool(hit.get('k13'))


def probe_k13_unrounded_default():
    import klepto

    def f(x, p=2.26):
        return (x, p)
    g = klepto.lru_cache(maxsize=5, tol=1)(f)
    return g.key(1) != g.key(1, p=2.26)


def probe_k14_shared_cache():
    """K14 (C01): a decorator object keeps ONE cache; two functions decorated by it share entries"""
    import klepto
    memo = klepto.lru_cache(maxsize=5)
    f1 = memo(lambda x: x + 1)
    f2 = memo(lambda x: x * 10)
    return f1(1) == 2 and f2(1) == 2
