"""Classifiers deciding, from a shrunk failing case, whether it is a recorded known finding.
known_findings.json names one of these functions in its "predicate" field."""


def never(*a, **k):
    return False
