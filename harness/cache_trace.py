"""Correspondence engine for the cache decorators (model M3, coq/Cache/CacheCore.v).

A *trace* is a configuration plus a list of abstract operations.  It is executed on the real
klepto decorator from /repo, every observable is recorded before/after each step, the same
operations are replayed on the extracted Coq model, and the two are compared step by step.
Independently of the model, property monitors restate C01/C02/C05/C06/C07/C15/C16/C18 on the
implementation's observations alone.
"""
import json
import random as _random
import sys

from common import REPO, run_model, Scratch

ALGS = ['no', 'inf', 'lfu', 'lru', 'mru', 'rr']
ALG_ID = {a: i for i, a in enumerate(ALGS)}
BACKENDS = ['plain', 'dict0', 'null', 'dictarch', 'file', 'file-json', 'dir', 'sql',
            'direct-dict', 'direct-file', 'direct-dir']
KEYMAPS = ['hash', 'raw', 'str', 'pickle', 'md5', 'raw-nf', 'str-nf', 'hash-typed', 'default', 'md5-typed', 'pickle-std', 'raw-typed']
UNHASH = 'U'      # an unhashable argument ([1, 2])
UNENC = 'F'       # an argument repr-free encoders cannot handle (a generator)
LAMBDA = 'L'      # an argument stdlib pickle rejects with PicklingError (a lambda)
UNHASHF = 'UF'    # an unhashable argument holding floats ([1.26, 2.52])
NONE_CODE = -7777  # how a result of None crosses the integer boundary of the model
FLOATS = [21.26, 21.31, 22.52, 27.0, 21.349]   # never equal to an integer argument code, rounded or not


class UserError(Exception):
    pass


def _gen():
    yield 1


_UNENC_OBJ = _gen()
_LAMBDA_OBJ = lambda: 0  # noqa: E731


def realcall(a, cfg=None):
    """the concrete call an argument code stands for: (args, kwds)"""
    if isinstance(a, (tuple, list)) and a and a[0] == 'fk':
        # a float passed BY KEYWORD (the same binding as ('f', j)); the *args stub has no keywords
        x = FLOATS[a[1] % len(FLOATS)]
        if cfg is not None and cfg.get('stub') == 'var':
            return (x,), {}
        if cfg is not None and cfg.get('stub') == 'req2':
            return (), {'y': 0, 'x': x}
        return (), {'x': x}
    args, kwds = _realcall(a)
    if cfg is not None and cfg.get('stub') == 'req2' and len(args) == 1 and not kwds:
        return (args[0], 0), {}          # def stub(x, y): every call passes both
    return args, kwds


def _realcall(a):
    if a == UNHASH:
        return ([1, 2],), {}
    if a == UNHASHF:
        return ([21.26, 22.52],), {}
    if a == UNENC:
        return (_UNENC_OBJ,), {}
    if a == LAMBDA:
        return (_LAMBDA_OBJ,), {}
    if isinstance(a, (tuple, list)):
        kind = a[0]
        if kind == 'f':
            return (FLOATS[a[1] % len(FLOATS)],), {}
        if kind == 'ft':     # floats nested one level down (only deep rounding reaches them)
            return ((FLOATS[a[1] % len(FLOATS)], 5),), {}
        if kind == 's':
            return (str(a[1]),), {}
        if kind == 'sc':     # strings that differ only in letter case: distinct arguments, distinct keys
            return (CASED[a[1] % len(CASED)],), {}
        if kind == 't':      # equal values, different types, different ways of writing the call
            return [((1, 1.0), {}), ((), {'y': 1, 'x': 1.0}), ((True, 1.0), {}), ((1.0,), {'y': True}),
                    ((1, 1), {}), ((), {'y': 1.0, 'x': 1.0})][a[1] % 6]
    return (a,), {}


CASED = ['ab', 'Ab', 'AB', 'aB']
FLAKY_VALUE = 103          # G(1, 0): the result the flaky archive refuses to store


def tcode(v):
    return {bool: 1, int: 2, float: 3}.get(type(v), 4)


def G(x, y, tol=None, none_arg=None, typed=False, deep=False):
    """the deterministic function being memoized, as a function of the values it receives"""
    if isinstance(x, tuple):
        v = x[0]
        if tol is not None and deep:
            v = round(v, tol)
        return 70000 + int(round(v, 6) * 1000)
    if isinstance(x, list):
        return 777 if all(isinstance(t, int) for t in x) else 779
    if x is _UNENC_OBJ:
        return 778
    if callable(x):
        return 780
    if isinstance(x, str):
        if x.isdigit():
            return 900 + int(x)
        return 9100 + CASED.index(x)
    if y != 0 or isinstance(y, float):
        if typed:
            return 500 + tcode(x) * 10 + tcode(y)
        return 500
    if isinstance(x, float):
        return 5000 + int(round(round(x, tol) if tol is not None else x, 6) * 1000)
    if none_arg is not None and x == none_arg:
        return None
    return 100 + 3 * x


def g_cfg(cfg, a):
    (args, kwds) = realcall(a, cfg)
    x = args[0] if args else kwds.get('x')
    y = args[1] if len(args) > 1 else kwds.get('y', 0)
    return G(x, y, cfg.get('tol'), cfg.get('none_arg'), 'typed' in cfg.get('keymap', ''), bool(cfg.get('deep')))


def g(a):
    """value for plain integer argument codes (configuration independent)"""
    return g_cfg({}, a)


def vcode(v):
    return NONE_CODE if v is None else v


def _code_of(x, y):
    """argument code of the values a stub received (for the 'raising' set)"""
    if isinstance(x, list):
        return UNHASH if all(isinstance(t, int) for t in x) else UNHASHF
    if x is _UNENC_OBJ:
        return UNENC
    if callable(x):
        return LAMBDA
    if type(x) is int and y == 0 and not isinstance(y, float):
        return x
    return None


def _klepto():
    import klepto
    import klepto.safe
    import klepto.archives
    import klepto.keymaps
    return klepto


def make_keymap(name):
    k = _klepto()
    km = k.keymaps
    if name == 'default':
        return None
    if name == 'hash':
        return km.hashmap(flat=True)
    if name == 'hash-typed':
        return km.hashmap(flat=True, typed=True)
    if name == 'raw':
        return km.keymap(flat=True)
    if name == 'raw-nf':
        return km.keymap(flat=False)
    if name == 'str':
        return km.stringmap(flat=True)
    if name == 'str-nf':
        return km.stringmap(flat=False)
    if name == 'pickle':
        return km.picklemap(flat=True)
    if name == 'md5':
        return km.hashmap(flat=True, algorithm='md5')
    if name == 'md5-typed':
        return km.hashmap(flat=True, algorithm='md5', typed=True)
    if name == 'pickle-std':
        return km.picklemap(flat=True, serializer='pickle')
    if name == 'raw-typed':
        return km.keymap(flat=True, typed=True)
    raise ValueError(name)


def make_cache(backend, scratch):
    """the object passed as cache= ; returns (obj, direct?)"""
    ar = _klepto().archives
    if backend == 'plain':
        return None, False
    if backend == 'dict0':
        return {}, False
    if backend == 'null':
        return ar.null_archive('n', cached=True), False
    if backend == 'dictarch':
        return ar.dict_archive('d', cached=True), False
    if backend == 'flaky':
        # an archive whose backend refuses ONE particular value (a full disk, a value the store cannot encode)
        import klepto._archives as _ar

        class FlakyArchive(_ar.dict_archive):
            def __setitem__(self, k, v):
                if v == FLAKY_VALUE:
                    raise OSError('the archive refuses this value')
                return _ar.dict_archive.__setitem__(self, k, v)

            def update(self, adict, **kwds):
                d = dict(adict, **kwds)
                if any(v == FLAKY_VALUE for v in d.values()):
                    raise OSError('the archive refuses this value')
                return _ar.dict_archive.update(self, d)
        return ar.cache(archive=FlakyArchive()), False
    if backend == 'file':
        return ar.file_archive(scratch.new('.pkl'), cached=True), False
    if backend == 'file-json':
        return ar.file_archive(scratch.new('.json'), cached=True, protocol='json'), False
    if backend == 'dir':
        return ar.dir_archive(scratch.new('.dir'), cached=True), False
    if backend == 'sql':
        return ar.sqltable_archive('sqlite:///%s?table=memo' % scratch.new('.db'), cached=True), False
    if backend == 'direct-dict':
        return ar.dict_archive('d', cached=False), True
    if backend == 'direct-file':
        return ar.file_archive(scratch.new('.pkl'), cached=False), True
    if backend == 'direct-dir':
        return ar.dir_archive(scratch.new('.dir'), cached=False), True
    raise ValueError(backend)


class Impl:
    """one decorated stub from /repo plus everything needed to observe it"""

    def __init__(self, cfg, scratch):
        k = _klepto()
        self.cfg = cfg
        self.scratch = scratch
        self.log = []
        raising = set(cfg.get('raising', []))
        log = self.log

        tol = cfg.get('tol')
        none_arg = cfg.get('none_arg')
        typed = 'typed' in cfg.get('keymap', '')
        deep_flag = bool(cfg.get('deep'))
        received = self.received = []

        def body(x, y):
            log.append(1)
            received.append((x, y))
            code = _code_of(x, y)
            if code in raising:
                raise UserError(code)
            return G(x, y, tol, none_arg, typed, deep_flag)

        if cfg.get('stub') == 'var':
            def stub(*a):
                return body(a[0], a[1] if len(a) > 1 else 0)
        elif cfg.get('stub') == 'req2':
            def stub(x, y):
                return body(x, y)
        elif cfg.get('stub') == 'fdef':
            # a float default with more digits than any tolerance used here: it is part of every key
            def stub(x, y=0, z=21.2626):
                return body(x, y)
        else:
            def stub(x, y=0):
                return body(x, y)

        self.stub = stub
        mod = k.safe if cfg['safe'] else k
        cls = getattr(mod, cfg['alg'] + '_cache')
        cacheobj, self.direct = make_cache(cfg['backend'], scratch)
        kw = {}
        if cacheobj is not None:
            kw['cache'] = cacheobj
        km = make_keymap(cfg['keymap'])
        if km is not None:
            kw['keymap'] = km
        if cfg.get('purge') is not None:
            kw['purge'] = cfg['purge']
        if cfg.get('tol') is not None:
            kw['tol'] = cfg['tol']
        if cfg.get('deep'):
            kw['deep'] = True
        pos = ()
        how = cfg.get('maxhow', 'kw')
        if how == 'kw':
            kw['maxsize'] = cfg['maxsize']
        elif how == 'pos':
            pos = (cfg['maxsize'],)
        self.f = cls(*pos, **kw)(stub)
        self.keytab = {}     # canonical key repr -> id
        self.keyobj = {}     # id -> key object
        self.choice = None

    # ---- key / value tables
    def kid(self, keyobj):
        try:
            hash(keyobj)
            r = ('h', type(keyobj).__name__, repr(keyobj))
        except TypeError:
            r = ('u', repr(keyobj))
        if r not in self.keytab:
            self.keytab[r] = len(self.keytab) + 1
            self.keyobj[self.keytab[r]] = keyobj
        return self.keytab[r]

    def classify(self, a):
        """keyres of the call f(a): ('ok', id) | ('fail',) | ('unhash',)"""
        try:
            ar, kwd = realcall(a, self.cfg)
            key = self.f.key(*ar, **kwd)
        except Exception:
            return ('fail',)
        try:
            hash(key)
        except TypeError:
            return ('unhash',)
        return ('ok', self.kid(key))

    def keyof(self, a):
        c = self.classify(a)
        if c[0] != 'ok':
            raise ValueError('argument %r has no hashable key under this keymap' % (a,))
        return self.keyobj[c[1]]

    # ---- observation
    def _amap(self, arch):
        ar = _klepto().archives
        import klepto._archives as _ar
        if isinstance(arch, _ar.null_archive):
            return None
        return {self.kid(k): vcode(v) for k, v in dict(arch.items()).items()}

    def observe(self):
        f = self.f
        c = f.__cache__()
        if self.direct:
            mem = {self.kid(k): vcode(v) for k, v in dict(c.items()).items()}
            arch = swp = None
        else:
            mem = {self.kid(k): vcode(v) for k, v in dict.items(c)}
            arch = self._amap(c.archive)
            swp = self._amap(getattr(c, '__swap__'))
        cells = {}
        if f.__closure__:
            cells = dict(zip(f.__code__.co_freevars, f.__closure__))
        q = rc = uc = None
        try:
            if 'queue' in cells:
                q = [self.kid(k) for k in cells['queue'].cell_contents]
            if 'refcount' in cells:
                rc = {self.kid(k): n for k, n in cells['refcount'].cell_contents.items()}
            if 'use_count' in cells:
                uc = {self.kid(k): n for k, n in cells['use_count'].cell_contents.items()}
        except Exception:
            q = rc = uc = None
        info = tuple(f.info())
        return {'mem': mem, 'arch': arch, 'swp': swp, 'q': q, 'rc': rc, 'uc': uc, 'info': info}

    # ---- one abstract operation
    def apply(self, op):
        """returns (out, extra) ; out is a canonical tuple"""
        f = self.f
        kind = op[0]
        n0 = len(self.log)
        extra = {}
        try:
            if kind == 'call':
                a = op[1]
                extra['kr'] = self.classify(a)
                import random
                orig = random.choice
                me = self

                def choice(seq):
                    r = orig(seq)
                    me.choice = r
                    return r
                random.choice = choice
                self.choice = None
                try:
                    ar, kwd = realcall(a, self.cfg)
                    extra['passed'] = (ar, kwd)
                    r = f(*ar, **kwd)
                finally:
                    random.choice = orig
                    if self.choice is not None:
                        extra['orc'] = self.kid(self.choice)
                        extra['orc_resident'] = None
                out = ('ret', vcode(r), len(self.log) - n0)
                if len(self.log) > n0:
                    extra['received'] = self.received[-1]
            elif kind == 'lookup':
                extra['kr'] = self.classify(op[1])
                ar, kwd = realcall(op[1], self.cfg)
                out = ('val', vcode(f.lookup(*ar, **kwd)))
            elif kind == 'key':
                extra['kr'] = self.classify(op[1])
                ar, kwd = realcall(op[1], self.cfg)
                k = f.key(*ar, **kwd)
                try:
                    hash(k)
                    out = ('key', self.kid(k))
                except TypeError:
                    out = ('unit',)
            elif kind == 'info':
                out = ('info',) + tuple(-1 if x is None else x for x in f.info())
            elif kind == 'load':
                f.load(*[self.keyof(a) for a in op[1]])
                out = ('unit',)
            elif kind == 'dump':
                f.dump(*[self.keyof(a) for a in op[1]])
                out = ('unit',)
            elif kind == 'clear':
                f.clear(keepstats=op[1]) if op[1] else f.clear()
                out = ('unit',)
            elif kind == 'archived':
                if op[1] is None:
                    out = ('bool', 1 if f.archived() else 0)
                else:
                    f.archived(op[1])
                    out = ('unit',)
            elif kind == 'setarch':
                ar = _klepto().archives
                if op[1] is None:
                    new = ar.null_archive('n2', cached=False)
                else:
                    new = ar.dict_archive('fresh', cached=False)
                    for a in op[1]:
                        new[self.keyof(a)] = g_cfg(self.cfg, a)
                f.archive(new)
                out = ('unit',)
            elif kind == 'memclear':
                f.__cache__().clear()
                out = ('unit',)
            elif kind == 'archset':
                # another user of the attached archive stores the result for argument op[1]
                c = f.__cache__()
                v = g_cfg(self.cfg, op[1]) if len(op) < 3 else op[2]
                if not self.direct:
                    c.archive[self.keyof(op[1])] = v
                out = ('unit',)
            else:
                raise ValueError(op)
        except UserError:
            out = ('raise', 'User', len(self.log) - n0)
        except KeyError:
            out = ('raise', 'KeyError', len(self.log) - n0)
        except IndexError:
            out = ('raise', 'IndexError', len(self.log) - n0)
        except OSError:
            out = ('raise', 'OSError', len(self.log) - n0)
        except ValueError:
            out = ('raise', 'ValueError', len(self.log) - n0)
        except TypeError:
            out = ('raise', 'TypeError', len(self.log) - n0)
        except Exception as e:  # key-encoding failures of other classes (pickling errors ...)
            kr = extra.get('kr')
            if kr == ('fail',):
                out = ('raise', 'TypeError', len(self.log) - n0)
            else:
                out = ('raise', 'Other:' + type(e).__name__, len(self.log) - n0)
        return out, extra


def effective(cfg):
    """(alg id, maxsize) the constructed decorator should have; asked from the model's dispatch"""
    m = '-' if cfg['maxsize'] is None else str(cfg['maxsize'])
    if cfg.get('maxhow', 'kw') == 'default':
        m = '100'
    return 'dispatch %d %s' % (ALG_ID[cfg['alg']], m)


def run_impl(cfg, ops, scratch):
    """execute a trace on /repo; returns (records, impl) or raises ConstructionError"""
    impl = Impl(cfg, scratch)
    recs = []
    pre = impl.observe()
    for op in ops:
        out, extra = impl.apply(op)
        post = impl.observe()
        recs.append({'op': op, 'out': out, 'pre': pre, 'post': post, 'extra': extra})
        pre = post
    return recs, impl


def _fmt_map(m):
    return ' '.join('%d %d' % (k, v) for k, v in m.items())


def _fmt_arch(a):
    return '-' if a is None else _fmt_map(a)


def state_line(obs):
    """driver command that puts the model into the abstraction of an observed implementation state"""
    parts = ['mem ' + _fmt_map(obs['mem']), 'arch ' + _fmt_arch(obs['arch']), 'swp ' + _fmt_arch(obs['swp']),
             'st %d %d %d' % tuple(obs['info'][:3])]
    if obs['q'] is not None:
        parts.append('q ' + ' '.join(str(k) for k in obs['q']))
    if obs['rc'] is not None:
        parts.append('rc ' + _fmt_map(obs['rc']))
    if obs['uc'] is not None:
        parts.append('uc ' + _fmt_map(obs['uc']))
    return 'set ' + ' ; '.join(parts)


def op_line(cfg, r):
    op = r['op']
    kind = op[0]
    ex = r['extra']
    raising = set(cfg.get('raising', []))

    def krs():
        kr = ex['kr']
        return {'ok': '0 %d' % (kr[1] if len(kr) > 1 else 0), 'fail': '1 0', 'unhash': '2 0'}[kr[0]]
    if kind == 'call':
        a = op[1]
        fr = '1 0' if a in raising else '0 %d' % vcode(g_cfg(cfg, a))
        return 'call %s %s %d' % (krs(), fr, ex.get('orc', 0))
    if kind == 'lookup':
        return 'lookup ' + krs()
    if kind == 'key':
        return 'keyof ' + krs()
    if kind == 'info':
        return 'info'
    if kind in ('load', 'dump'):
        return kind + ''.join(' %d' % k for k in ex['kids'])
    if kind == 'clear':
        return 'clear %d' % (1 if op[1] else 0)
    if kind == 'archived':
        return 'archived ' + ('-' if op[1] is None else ('1' if op[1] else '0'))
    if kind == 'setarch':
        if op[1] is None:
            return 'setarch -'
        return 'setarch' + ''.join(' %d %d' % (k, vcode(g_cfg(cfg, a))) for k, a in zip(ex['kids'], op[1]))
    if kind == 'memclear':
        return 'memclear'
    if kind == 'archset':
        return 'archset %d %d' % (ex['kids'][0], vcode(g_cfg(cfg, op[1])) if len(op) < 3 else op[2])
    raise ValueError(op)


def model_lines(cfg, recs, eff):
    """the driver commands: per step, put the model in the observed pre-state, then apply the op"""
    direct = 1 if cfg['backend'].startswith('direct') else 0
    purge = cfg.get('purge')
    if purge is None:
        purge = False
    lines = ['cfg %d %d %d %d %d' % (eff[0], eff[1], 1 if purge else 0, 1 if cfg['safe'] else 0, direct)]
    for r in recs:
        lines.append(state_line(r['pre']))
        lines.append(op_line(cfg, r))
    return lines


def parse_model(line):
    parts = [p.strip() for p in line.split(';')]
    out = parts[0].split()
    st = {}

    def pm(s):
        s = s.strip()
        if s == '-':
            return None
        s = s.strip('[]')
        if not s:
            return {}
        return {int(x.split(':')[0]): int(x.split(':')[1]) for x in s.split(',')}
    for p in parts[1:]:
        name, _, rest = p.partition(' ')
        rest = rest.strip()
        if name in ('mem', 'arch', 'swp', 'rc', 'uc'):
            st[name] = pm(rest)
        elif name == 'q':
            st['q'] = [int(x) for x in rest.split(',')] if rest else []
        elif name == 'st':
            st['st'] = tuple(int(x) for x in rest.split())
    if out[0] in ('ret',):
        o = ('ret', int(out[1]), int(out[2]))
    elif out[0] == 'raise':
        o = ('raise', out[1], int(out[2]))
    elif out[0] in ('bool', 'key', 'val'):
        o = (out[0], int(out[1]))
    elif out[0] == 'info':
        o = ('info',) + tuple(int(x) for x in out[1:])
    else:
        o = (out[0],)
    return o, st


def fill_kids(impl, recs):
    """key ids for management operations (computed after the run so the table is complete)"""
    for r in recs:
        op = r['op']
        if op[0] in ('load', 'dump'):
            r['extra']['kids'] = [impl.kid(impl.keyof(a)) for a in op[1]]
        elif op[0] == 'setarch' and op[1] is not None:
            r['extra']['kids'] = [impl.kid(impl.keyof(a)) for a in op[1]]
        elif op[0] == 'archset':
            r['extra']['kids'] = [impl.kid(impl.keyof(op[1]))]


# which observables each property's theorem speaks about: the per-step conformance check of a
# property compares exactly these (a divergence elsewhere belongs to another property)
FIELDS = {
    'C01': ('outval',),
    'C02': ('outval', 'ev'),
    'C05': ('size', 'out'),
    'C06': ('memkeys', 'queue', 'refcount', 'use_count'),
    'C07': ('arch', 'swp', 'mem'),
    'C15': ('stats', 'out'),
    'C16': ('out', 'mem', 'arch', 'swp', 'stats', 'queue', 'refcount', 'use_count'),
    'C18': ('out', 'mem', 'arch', 'swp', 'stats', 'queue', 'refcount', 'use_count'),
    'C20': ('out', 'mem', 'arch', 'swp', 'stats', 'queue', 'refcount', 'use_count'),
    'ALL': ('out', 'mem', 'arch', 'swp', 'stats', 'queue', 'refcount', 'use_count'),
}
# the operations that manage where results are stored must leave memory / archive / parked archive as the
# model says: what a property observes on later calls (was it evaluated? is it retrievable?) depends on it
_STORE = ('mem', 'arch', 'swp')
MANAGEMENT_FIELDS = {
    'C02': {'archived': _STORE, 'setarch': _STORE, 'load': _STORE, 'dump': _STORE, 'clear': _STORE},
    'C01': {'archived': _STORE, 'setarch': _STORE, 'load': _STORE, 'dump': _STORE},
    'C05': {'archived': _STORE, 'setarch': _STORE, 'load': _STORE},
}
# ... restricted to the operations the property quantifies over (None = every operation)
STEP_FILTER = {
    'C16': lambda r: r['op'][0] == 'call' and (r['out'][0] == 'raise' or r['extra'].get('kr', ('ok',))[0] != 'ok'),
    'C18': lambda r: r['op'][0] in ('key', 'lookup', 'info'),
}


def compare(cfg, recs, mlines, eff, prop='ALL'):
    """first step at which the implementation's post-state differs, on the property's observables,
    from the model's step out of the abstraction of the implementation's pre-state"""
    alg = ALGS[eff[0]]
    fields = FIELDS.get(prop, FIELDS['ALL'])
    flt = STEP_FILTER.get(prop)
    for i, r in enumerate(recs):
        if flt is not None and not flt(r):
            continue
        if r['out'][0] == 'raise' and r['out'][1] == 'OSError':
            continue            # the archive backend failed: outside the model; the monitors still judge the step
        ml = mlines[2 * i + 1]
        if ml.startswith('error') or mlines[2 * i].startswith('error'):
            return {'step': i, 'field': 'model-error', 'model': ml, 'impl': mlines[2 * i]}
        mo, ms = parse_model(ml)
        io = tuple(r['out'])
        if io[0] == 'raise' and r['op'][0] != 'call':
            io = (io[0], io[1], 0)
        po = r['post']

        def differs(fld):
            if fld == 'out':
                return (mo, io) if tuple(mo) != io else None
            if fld == 'outval':
                return (mo[:2], io[:2]) if tuple(mo[:2]) != io[:2] else None
            if fld == 'ev':
                if r['op'][0] == 'call' and mo[-1] != io[-1]:
                    return (mo, io)
                return None
            if fld == 'size':
                return (len(ms['mem']), len(po['mem'])) if len(ms['mem']) != len(po['mem']) else None
            if fld == 'memkeys':
                return (sorted(ms['mem']), sorted(po['mem'])) if set(ms['mem']) != set(po['mem']) else None
            if fld in ('mem', 'arch', 'swp'):
                return (ms[fld], po[fld]) if ms[fld] != po[fld] else None
            if fld == 'stats':
                return (ms['st'], tuple(po['info'][:3])) if tuple(ms['st']) != tuple(po['info'][:3]) else None
            if fld == 'queue':
                if alg in ('lru', 'mru') and po['q'] is not None and po['q'] != ms['q']:
                    return (ms['q'], po['q'])
                return None
            if fld == 'refcount':
                if alg == 'lru' and po['rc'] is not None and po['rc'] != ms['rc']:
                    return (ms['rc'], po['rc'])
                return None
            if fld == 'use_count':
                if alg == 'lfu' and po['uc'] is not None and (po['uc'] != ms['uc'] or list(po['uc']) != list(ms['uc'])):
                    return (ms['uc'], po['uc'])
                return None
            raise ValueError(fld)
        for fld in fields + MANAGEMENT_FIELDS.get(prop, {}).get(r['op'][0], ()):
            d = differs(fld)
            if d is not None:
                return {'step': i, 'field': fld, 'model': d[0], 'impl': d[1]}
    return None


class ConstructionError(Exception):
    pass


def check_trace(cfg, ops, scratch, monitors=None, prop='ALL'):
    """run one trace on both sides.  Returns dict with records, divergence, monitor hits"""
    eff_line = run_model([effective(cfg)])[0].split()
    eff = (int(eff_line[0]), int(eff_line[1]))
    try:
        recs, impl = run_impl(cfg, ops, scratch)
    except Exception as e:
        return {'construct_error': '%s: %s' % (type(e).__name__, e), 'eff': eff, 'recs': [],
                'div': None, 'hits': []}
    fill_kids(impl, recs)
    lines = model_lines(cfg, recs, eff)
    mout = run_model(lines)[1:]
    div = compare(cfg, recs, mout, eff, prop)
    hits = []
    for mon in (monitors or []):
        hits.extend(mon(cfg, eff, recs))
    return {'recs': recs, 'div': div, 'hits': hits, 'eff': eff, 'model': mout}
