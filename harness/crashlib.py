"""System-call level crash injection for archive operations (C13) - no hooks in klepto.
A child process (store_child.py) performs one action on an archive under `strace`; a first run
records the mutating system calls the action issues (between two marker calls), then one run per
crash point kills the process (SIGKILL injected by strace on ENTERING the n-th call, i.e. before it
executes).  A fresh process then opens the archive and reports what it sees."""
import json
import os
import re
import shutil
import subprocess
import sys

HERE = os.path.dirname(os.path.abspath(__file__))
CHILD = os.path.join(HERE, 'store_child.py')
PY = sys.executable

# every system call through which Python / sqlite change the file system
SET = ('open,openat,creat,mkdir,mkdirat,rmdir,rename,renameat,renameat2,unlink,unlinkat,write,pwrite64,'
       'writev,pwritev,ftruncate,truncate,link,linkat,symlink,symlinkat,fsync,fdatasync')
_HEX = re.compile(r'[0-9a-f]{32}')
_LINE = re.compile(r'^(\d+)\s+(\w+)\((.*)$')


def child_env():
    env = dict(os.environ)
    if env.get('VERIF_BYTECODE') == '1':      # C04: Python's bytecode cache as in normal use, kept in a scratch directory
        env.pop('PYTHONDONTWRITEBYTECODE', None)
    else:
        env['PYTHONDONTWRITEBYTECODE'] = '1'
    env['PYTHONHASHSEED'] = '0'
    env.setdefault('PYTHONPATH', '/repo')
    return env


def run_child(spec, cwd, timeout=120):
    """plain (untraced) run; returns the child's JSON result"""
    p = subprocess.run([PY, CHILD, json.dumps(spec)], cwd=cwd, env=child_env(), stdout=subprocess.PIPE,
                       stderr=subprocess.PIPE, timeout=timeout)
    if p.returncode != 0:
        return {'ok': False, 'error': 'exit %d: %s' % (p.returncode, p.stderr.decode()[-400:])}
    try:
        return json.loads(p.stdout.decode())
    except ValueError:
        return {'ok': False, 'error': 'no result: %s' % p.stderr.decode()[-400:]}


def parse_trace(path):
    """-> list of (name, args-text) for every traced call of the main process, markers included"""
    calls = []
    with open(path, errors='replace') as f:
        for ln in f:
            m = _LINE.match(ln)
            if not m:
                continue
            calls.append((m.group(2), m.group(3).rstrip()))
    return calls


def norm(name, args):
    """a call with random temporary names and data lengths abstracted away"""
    a = _HEX.sub('<H>', args)
    a = re.sub(r'\s*=\s*(-?\d+|\?).*$', '', a)
    if name in ('write', 'pwrite64', 'writev'):
        a = a.split(',')[0]                # the descriptor only
    return '%s(%s' % (name, a)


def is_marker(name, args, which):
    return name == 'mkdir' and ('klepto-verif-marker-%s' % which) in args


def mutating(name, args):
    if name in ('open', 'openat'):
        return any(f in args for f in ('O_WRONLY', 'O_RDWR', 'O_CREAT', 'O_TRUNC', 'O_APPEND'))
    if name in ('write', 'writev', 'pwrite64', 'pwritev'):
        fd = args.split(',')[0].strip()
        return fd not in ('1', '2')
    return True


def traced_run(spec, cwd, log, when=None, timeout=180):
    """run the child under strace; with when=(name, n), SIGKILL it on entering the n-th call of system
    call `name` (strace counts invocations per system call)"""
    cmd = ['strace', '-f', '-qq', '-o', log, '-e', 'trace=' + SET]
    if when is not None:
        cmd += ['-e', 'inject=%s:signal=KILL:when=%d' % when]
    cmd += [PY, CHILD, json.dumps(spec)]
    p = subprocess.run(cmd, cwd=cwd, env=child_env(), stdout=subprocess.PIPE, stderr=subprocess.PIPE, timeout=timeout)
    return p.returncode, p.stderr.decode()[-400:]


def window(calls):
    """indices (1-based, as strace counts them) of the calls between the two markers"""
    b = e = None
    for i, (n, a) in enumerate(calls):
        if is_marker(n, a, 'begin'):
            b = i
        elif is_marker(n, a, 'end'):
            e = i
    if b is None:
        return None, None
    return b, (e if e is not None else len(calls))


def copy_state(src, dst):
    if os.path.exists(dst):
        shutil.rmtree(dst)
    shutil.copytree(src, dst, symlinks=True)


def ordinal(calls, i):
    """(name, n): calls[i] is the n-th invocation of its system call"""
    name = calls[i][0]
    return name, sum(1 for c in calls[:i + 1] if c[0] == name)
