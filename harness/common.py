"""Shared plumbing of the correspondence harness: paths, the model driver, evidence, replays, findings."""
import hashlib
import json
import os
import shutil
import subprocess
import sys
import tempfile
import time

VERIF = os.path.dirname(os.path.dirname(os.path.abspath(__file__)))
REPO = os.environ.get('VERIF_REPO', '/repo')
BUILD = os.path.join(VERIF, 'build')
DRIVER = os.path.join(BUILD, 'driver')
EVIDENCE = os.path.join(VERIF, 'evidence')
REPLAYS = os.path.join(VERIF, 'replays')
COQ = os.path.join(VERIF, 'coq')
GUARD = 'KLEPTO_VERIF'

# the implementation under test is always /repo's working tree
if REPO not in sys.path:
    sys.path.insert(0, REPO)


def seed():
    try:
        return int(os.environ.get('VERIF_SEED', '20260930'))
    except ValueError:
        return 20260930


def tier(default='quick'):
    t = os.environ.get('VERIF_TIER', default)
    return t if t in ('quick', 'thorough') else default


class Scratch:
    """scratch directory under /tmp, removed at exit"""
    def __init__(self, tag='klepto-verif'):
        self.path = tempfile.mkdtemp(prefix=tag + '-')
        self.n = 0

    def new(self, suffix=''):
        self.n += 1
        return os.path.join(self.path, 'p%05d%s' % (self.n, suffix))

    def close(self):
        shutil.rmtree(self.path, ignore_errors=True)


def run_model(lines, timeout=600):
    """feed command lines to the extracted model, return its output lines"""
    data = '\n'.join(lines) + '\n'
    p = subprocess.run([DRIVER], input=data.encode(), stdout=subprocess.PIPE,
                       stderr=subprocess.PIPE, timeout=timeout)
    if p.returncode != 0:
        raise RuntimeError('model driver failed: %s' % p.stderr.decode()[-500:])
    out = p.stdout.decode().split('\n')
    if out and out[-1] == '':
        out.pop()
    if len(out) != len(lines):
        raise RuntimeError('model driver: %d lines in, %d lines out' % (len(lines), len(out)))
    return out


def load_findings():
    path = os.path.join(VERIF, 'known_findings.json')
    if not os.path.exists(path):
        return []
    with open(path) as f:
        return json.load(f).get('findings', [])


def write_replay(prop, payload):
    os.makedirs(REPLAYS, exist_ok=True)
    blob = json.dumps(payload, sort_keys=True, default=repr)
    dig = hashlib.sha1(blob.encode()).hexdigest()[:12]
    path = os.path.join(REPLAYS, '%s-%s.json' % (prop, dig))
    with open(path, 'w') as f:
        json.dump(payload, f, indent=1, sort_keys=True, default=repr)
    return path


def write_evidence(prop, level, coverage, wall_s, violations, assumptions, tier_=None, seed_=None):
    os.makedirs(EVIDENCE, exist_ok=True)
    ev = {
        'property_id': prop,
        'tier': tier_ or tier(),
        'seed': seed() if seed_ is None else seed_,
        'level': level,
        'coverage': coverage,
        'assumptions': assumptions,
        'wall_s': round(wall_s, 2),
        'violations': violations,
    }
    path = os.path.join(EVIDENCE, '%s.json' % prop)
    tmp = path + '.tmp'
    with open(tmp, 'w') as f:
        json.dump(ev, f, indent=1, sort_keys=True, default=repr)
    os.replace(tmp, path)
    return path


class Report:
    """collects violations / known findings of one check run"""
    def __init__(self, prop):
        self.prop = prop
        self.violations = []      # (what, replay_path, no_input)
        self.known = []           # (finding id, what)
        self.t0 = time.time()

    def violation(self, what, payload, no_input=False):
        payload = dict(payload)
        payload.setdefault('property', self.prop)
        payload['what'] = what
        path = write_replay(self.prop, payload)
        self.violations.append((what, path, no_input))
        return path

    def known_finding(self, fid, what):
        if (fid, what) not in self.known:
            self.known.append((fid, what))

    def emit(self):
        for fid, what in self.known:
            print('KNOWN-FINDING: property=%s %s: %s' % (self.prop, fid, what))
        for what, path, no_input in self.violations[:20]:
            print('# %s' % what)
            print('VIOLATION property=%s replay=%s%s' % (
                self.prop, path, ' no-failing-input-found' if no_input else ''))
        return 1 if self.violations else 0
