"""./check Cxx --replay file : re-execute a recorded failing case against /repo"""
import json
import sys

from common import Scratch


def main(prop, path):
    with open(path) as f:
        p = json.load(f)
    if 'cfg' in p and 'ops' in p:
        import cache_trace as ct
        import cache_monitors as cm
        sc = Scratch()
        try:
            ops = [tuple(o) for o in p['ops']]
            res = ct.check_trace(p['cfg'], ops, sc, monitors=[cm.ALL[prop]] if prop in cm.ALL else [], prop=prop)
        finally:
            sc.close()
        print(json.dumps({'construct_error': res.get('construct_error'), 'divergence': res['div'],
                          'monitor_hits': res['hits']}, indent=1, default=repr))
        bad = res.get('construct_error') or res['div'] or res['hits']
        if bad:
            print('VIOLATION property=%s replay=%s' % (prop, path))
            return 1
        print('replay: the recorded case no longer fails')
        return 0
    if prop in ('C09', 'C10', 'C11', 'C17'):
        import keys_check
        return keys_check.replay(prop, p, path)
    mod = __import__('check_' + prop.lower())
    return mod.replay(p, path)
