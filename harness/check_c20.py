"""C20: a dill-pickled cached function resumes exactly where the original was.
At a random prefix of a generated history the real decorated function is dill.dumps/loads-ed; the
clone's abstraction (memory, archive, queue, refcounts, use counts, statistics) must equal the
original's, both continue in lock-step (RR's choice forced equal) and are compared with each other
and, step by step, with the Coq model; then the clone alone continues and the original's
in-memory state must not move."""
import json
import multiprocessing as mp
import os
import random
import sys
import time

sys.path.insert(0, os.path.dirname(os.path.abspath(__file__)))
from common import Scratch, Report, seed, tier, write_evidence, run_model
import cache_trace as ct
import cache_gen as cg
import coqcheck

PICKLABLE_BACKENDS = ['plain', 'dict0', 'null', 'dictarch', 'dictarch', 'file', 'file-json', 'dir']


class Clone(ct.Impl):
    """wraps an unpickled copy so that it can be observed like the original"""
    def __init__(self, orig, f):
        self.cfg = orig.cfg
        self.scratch = orig.scratch
        self.direct = orig.direct
        self.f = f
        self.keytab = orig.keytab      # shared key table: same ids on both sides
        self.keyobj = orig.keyobj
        self.choice = None
        wcells = dict(zip(f.__code__.co_freevars, f.__closure__ or ()))
        stub = wcells['user_function'].cell_contents if 'user_function' in wcells else f.__wrapped__
        self.same_wrapped = stub is f.__wrapped__
        self.log = _find_cell(stub, 'log')
        self.received = _find_cell(stub, 'received')
        if self.log is None:
            self.log = []
        if self.received is None:
            self.received = []


def _find_cell(fn, name, depth=0):
    """the closure variable [name] of fn or of a function nested in its closure"""
    if depth > 3 or not getattr(fn, '__closure__', None):
        return None
    cells = dict(zip(fn.__code__.co_freevars, fn.__closure__))
    if name in cells:
        return cells[name].cell_contents
    for c in cells.values():
        try:
            v = c.cell_contents
        except ValueError:
            continue
        if callable(v) and hasattr(v, '__code__'):
            r = _find_cell(v, name, depth + 1)
            if r is not None:
                return r
    return None


def strip(obs):
    return {k: obs[k] for k in ('mem', 'arch', 'swp', 'q', 'rc', 'uc', 'info')}


def run_case(cfg, ops, cut, tail, scratch):
    import dill
    import random as _r
    orig = ct.Impl(cfg, scratch)
    problems = []
    for op in ops[:cut]:
        orig.apply(op)
    try:
        f2 = dill.loads(dill.dumps(orig.f))
    except Exception as e:
        return [{'what': 'dill round trip failed: %s: %s' % (type(e).__name__, e), 'step': cut}], 0, [], orig
    clone = Clone(orig, f2)
    o1, o2 = strip(orig.observe()), strip(clone.observe())
    if o1 != o2:
        problems.append({'what': 'state of the restored function differs right after the round trip: %s'
                                 % [f for f in o1 if o1[f] != o2[f]], 'step': cut, 'orig': o1, 'clone': o2})
        return problems, 0, [], orig
    if clone.f.__wrapped__ is orig.f.__wrapped__:
        pass
    persistent = cfg['backend'] in ('file', 'file-json', 'dir')
    recs = []
    steps = 0
    real_choice = _r.choice
    if persistent:
        # a persistent archive remains shared storage: original and copy cannot run in lock-step
        # without seeing each other's writes.  Only the copy continues; its steps are checked
        # against the model from the observed states, the original's memory must stay put.
        before = strip(orig.observe())
        pre = clone.observe()
        for i, op in enumerate(ops[cut:]):
            out2, ex2 = clone.apply(op)
            post = clone.observe()
            recs.append({'op': op, 'out': out2, 'pre': pre, 'post': post, 'extra': ex2})
            pre = post
            steps += 1
        after = strip(orig.observe())
        for fld in before:
            if fld in ('arch', 'swp'):
                continue
            if before[fld] != after[fld]:
                problems.append({'what': 'operating on the restored copy changed the original\'s %s' % fld, 'step': len(ops)})
        return problems, steps, recs, clone
    # lock-step continuation
    for i, op in enumerate(ops[cut:]):
        pre = orig.observe()
        out1, ex1 = orig.apply(op)
        # force the clone's random choice to pick the same key
        want = orig.choice

        def choice(seq, want=want):
            seq = list(seq)
            return want if want in seq else real_choice(seq)
        _r.choice = choice
        try:
            out2, ex2 = clone.apply(op)
        finally:
            _r.choice = real_choice
        post = orig.observe()
        recs.append({'op': op, 'out': out1, 'pre': pre, 'post': post, 'extra': ex1})
        steps += 1
        a, b = strip(post), strip(clone.observe())
        if out1 != out2 or a != b:
            problems.append({'what': 'original and restored function diverge at continuation step %d (%r): %s'
                                     % (i, op, 'results %r vs %r' % (out1, out2) if out1 != out2 else
                                        [f for f in a if a[f] != b[f]]), 'step': cut + i})
            break
    # independence: the clone continues alone; the original's in-memory state must not move
    if not problems:
        before = strip(orig.observe())
        for op in tail:
            clone.apply(op)
        after = strip(orig.observe())
        persistent = cfg['backend'] in ('file', 'file-json', 'dir')
        for fld in before:
            if fld in ('arch', 'swp') and persistent:
                continue        # a persistent archive remains shared storage
            if before[fld] != after[fld]:
                problems.append({'what': 'operating on the restored copy changed the original\'s %s' % fld, 'step': len(ops)})
    return problems, steps, recs, orig


# ---------------------------------------------------------------- configurations outside the integer-key model
def _special_builders():
    """(label, build(scratch) -> (decorator factory or decorated-function factory))
    Every builder returns a function mk(path) -> decorated function with a fresh evaluation log."""
    import klepto
    import klepto.safe
    import klepto.keymaps as km
    import klepto.archives as ar
    from klepto.keymaps import SENTINEL
    out = []

    def fn(x, y=2, *rest, **kw):
        return ('r', x, y, len(rest), sorted(kw))
    algs = ['lru_cache', 'lfu_cache', 'mru_cache', 'inf_cache', 'no_cache']
    for ai, name in enumerate(algs):
        for mod in (klepto, klepto.safe):
            cls = getattr(mod, name)
            bounded = name not in ('inf_cache', 'no_cache')
            base = {'maxsize': 3} if bounded else {}
            tag = '%s.%s' % (mod.__name__, name)
            # sentinel-marked keymaps (the sentinel object is part of raw keys / hashed keys)
            out.append((tag + ' hashmap(sentinel=SENTINEL)', lambda p, cls=cls, base=base: cls(keymap=km.hashmap(sentinel=SENTINEL, flat=True), **base)(fn)))
            out.append((tag + ' keymap(sentinel=SENTINEL)', lambda p, cls=cls, base=base: cls(keymap=km.keymap(sentinel=SENTINEL, flat=True), **base)(fn)))
            # ignore= leaves the NULL marker in raw keys
            out.append((tag + " keymap() ignore='y'", lambda p, cls=cls, base=base: cls(keymap=km.keymap(flat=True), ignore='y', **base)(fn)))
            out.append((tag + " hashmap() ignore=('y','**')", lambda p, cls=cls, base=base: cls(keymap=km.hashmap(flat=True), ignore=('y', '**'), **base)(fn)))
            # tolerance 0 (falsy!) and 1, deep
            out.append((tag + ' tol=0', lambda p, cls=cls, base=base: cls(keymap=km.hashmap(flat=True), tol=0, **base)(fn)))
            out.append((tag + ' tol=1 deep', lambda p, cls=cls, base=base: cls(keymap=km.stringmap(flat=False), tol=1, deep=True, **base)(fn)))
            # archives with non-default settings behind the cache
            if ai % 2 == 0 or bounded:
                out.append((tag + ' dir_archive(protocol=json) stringmap', lambda p, cls=cls, base=base: cls(
                    cache=ar.dir_archive(p + '.dj', cached=True, protocol='json'), keymap=km.stringmap(flat=True), **base)(_jsonable)))
                out.append((tag + ' dir_archive(compression=3)', lambda p, cls=cls, base=base: cls(
                    cache=ar.dir_archive(p + '.dc', cached=True, compression=3), keymap=km.hashmap(flat=True), **base)(fn)))
                out.append((tag + ' file_archive(protocol=json)', lambda p, cls=cls, base=base: cls(
                    cache=ar.file_archive(p + '.json', cached=True, protocol='json'), keymap=km.stringmap(flat=True), **base)(_jsonable)))
                out.append((tag + ' file_archive(serialized=False)', lambda p, cls=cls, base=base: cls(
                    cache=ar.file_archive(p + '.py', cached=True, serialized=False), keymap=km.stringmap(flat=True), **base)(_jsonable)))
    return out


def _jsonable(x, y=2, *rest, **kw):
    return [str(x), str(y), len(rest), sorted(kw)]


SPECIAL_CALLS_1 = [((1,), {}), ((2, 3), {}), ((1,), {'y': 5}), ((2.26,), {}), ((4, 2, 9), {'z': 1}), ((1,), {}), ((2.264,), {}), (((2.26, 1.234),), {})]
SPECIAL_CALLS_2 = [((1,), {'y': 5}), ((2, 3), {}), ((7,), {}), ((2.31,), {}), ((1,), {}), ((8,), {'y': 1}), ((9,), {}), ((2.26,), {}),
                   ((4, 2, 9), {'z': 1}), ((1, 6), {}), ((2,), {'y': 3}), ((2.2641,), {}), (((2.264, 1.2341),), {}), ((2.0,), {})]


def _drive(f, calls):
    import random as _r
    out = []
    for a, k in calls:
        try:
            r = f(*a, **k)
        except Exception as e:
            r = ('EXC', type(e).__name__)
        out.append((repr(r), tuple(f.info())))
    return out


def special_sessions(scratch, which=None):
    """reference run (no pickling) against a run with a dill round trip in the middle, and a round trip of the
    DECORATOR object itself; returns problems"""
    import dill
    import random as _r
    problems = []
    n = 0
    for label, mk in _special_builders():
        if which is not None and which not in label:
            continue
        n += 1
        try:
            ref = mk(scratch.new(''))
            _drive(ref, SPECIAL_CALLS_1)
            ref.dump() if hasattr(ref, 'dump') else None
            _r.seed(99)
            want = _drive(ref, SPECIAL_CALLS_2)
            want_keys = sorted(map(repr, ref.__cache__().keys()))
            f = mk(scratch.new(''))
            _drive(f, SPECIAL_CALLS_1)
            f.dump() if hasattr(f, 'dump') else None
            g = dill.loads(dill.dumps(f))
            _r.seed(99)
            got = _drive(g, SPECIAL_CALLS_2)
            got_keys = sorted(map(repr, g.__cache__().keys()))
        except Exception as e:
            problems.append({'label': label, 'what': '%s: the session failed: %s: %s' % (label, type(e).__name__, e)})
            continue
        if got != want:
            i = [j for j in range(len(want)) if got[j] != want[j]][0]
            problems.append({'label': label, 'what': '%s: after the round trip call %d f%r gives %s info=%r, the function that was never pickled gives %s info=%r' % (
                label, i, SPECIAL_CALLS_2[i], got[i][0][:60], got[i][1], want[i][0][:60], want[i][1])})
        elif got_keys != want_keys:
            problems.append({'label': label, 'what': '%s: cache keys after the continuation differ: %r vs %r' % (label, got_keys[:4], want_keys[:4])})
    # ---- the decorator object itself (not yet applied to a function)
    import klepto
    import klepto.safe
    import klepto.keymaps as km
    for mod in (klepto, klepto.safe):
        for name in ('lru_cache', 'lfu_cache', 'mru_cache', 'rr_cache', 'inf_cache', 'no_cache'):
            if which is not None and which not in 'decorator-object':
                continue
            cls = getattr(mod, name)
            bounded = name not in ('inf_cache', 'no_cache')
            for kw in ([{'maxsize': 3, 'purge': True, 'tol': 0, 'ignore': ('y',)}, {'maxsize': 2, 'purge': False, 'tol': 1, 'deep': True},
                        {'maxsize': 4, 'tol': 2, 'deep': False}, {'maxsize': 4, 'tol': None, 'deep': True}] if bounded
                       else [{'tol': 0, 'ignore': ('y',)}, {'tol': 1, 'deep': True}, {'tol': 2, 'deep': False}, {'tol': None, 'deep': True}]):
                n += 1
                label = '%s.%s(%s) decorator-object' % (mod.__name__, name, ', '.join('%s=%r' % kv for kv in kw.items()))
                try:
                    import klepto.archives as _ar
                    d1 = cls(keymap=km.hashmap(flat=True), cache=_ar.dict_archive('deco', cached=True), **kw)
                    d2 = dill.loads(dill.dumps(d1))

                    def fa(x, y=2, *rest, **k2):
                        return ('r', x, y, len(rest), sorted(k2))
                    f1, f2 = d1(fa), d2(fa)
                    _r.seed(5)
                    want = _drive(f1, SPECIAL_CALLS_1 + SPECIAL_CALLS_2)
                    _r.seed(5)
                    got = _drive(f2, SPECIAL_CALLS_1 + SPECIAL_CALLS_2)
                except Exception as e:
                    problems.append({'label': label, 'what': '%s: round trip of the decorator failed: %s: %s' % (label, type(e).__name__, e)})
                    continue
                if got != want:
                    i = [j for j in range(len(want)) if got[j] != want[j]][0]
                    problems.append({'label': label, 'what': '%s: the restored decorator behaves differently at call %d: %s info=%r vs %s info=%r' % (
                        label, i, got[i][0][:50], got[i][1], want[i][0][:50], want[i][1])})
    return problems, n


def one(prop_seed, idx, thorough, scratch):
    rng = random.Random('C20-%d-%d' % (prop_seed, idx))
    focus = {'backends': PICKLABLE_BACKENDS, 'p_special': 0.0, 'p_raising': 0.2, 'p_float': 0.35,
             'weights': {'setarch': 0, 'archset': 3}}
    cfg = cg.gen_cfg(rng, focus, thorough)
    cfg['special'] = []
    n = rng.randint(15, 70 if thorough else 45)
    ops = cg.gen_ops(rng, cfg, n, focus)
    cut = rng.randint(0, len(ops))
    tail = cg.gen_ops(rng, cfg, rng.randint(3, 12), {'calls_only': True})
    return cfg, ops, cut, tail


def _worker(args):
    sd, lo, hi, thorough = args
    scratch = Scratch()
    out = []
    try:
        for idx in range(lo, hi):
            cfg, ops, cut, tail = one(sd, idx, thorough, scratch)
            try:
                res = run_case(cfg, ops, cut, tail, scratch)
            except Exception as e:
                out.append({'idx': idx, 'cfg': cfg, 'error': '%s: %s' % (type(e).__name__, e)})
                continue
            problems, steps, recs = res[0], res[1], res[2]
            div = None
            if recs and not problems:
                orig = res[3]
                eff_line = run_model([ct.effective(cfg)])[0].split()
                eff = (int(eff_line[0]), int(eff_line[1]))
                ct.fill_kids(orig, recs)
                mout = run_model(ct.model_lines(cfg, recs, eff))[1:]
                div = ct.compare(cfg, recs, mout, eff, 'C20')
            out.append({'idx': idx, 'cfg': cfg, 'cut': cut, 'n': len(ops), 'problems': problems[:2], 'steps': steps,
                        'div': div, 'sample': {'cfg': cfg, 'cut': cut, 'ops': ops[:10]} if idx % 41 == 0 else None})
    finally:
        scratch.close()
    return out


def main():
    t0 = time.time()
    prop = 'C20'
    thorough = tier() == 'thorough'
    sd = seed()
    rep = Report(prop)
    proof_ok, pinfo = coqcheck.proof_status(prop)
    ntr = 90000 if thorough else 600
    results = []
    if pinfo.get('build_ok'):
        nproc = min(16, os.cpu_count() or 4)
        chunk = max(5, ntr // (nproc * 3))
        jobs = [(sd, lo, min(lo + chunk, ntr), thorough) for lo in range(0, ntr, chunk)]
        with mp.Pool(nproc) as pool:
            for part in pool.imap_unordered(_worker, jobs):
                results.extend(part)
    results.sort(key=lambda r: r['idx'])
    seen = set()
    cfgs = set()
    steps = 0
    cuts = {'at-start': 0, 'mid': 0, 'at-end': 0}
    for r in results:
        cfgs.add((r['cfg']['alg'], r['cfg']['safe'], r['cfg']['backend'], r['cfg']['keymap'], r['cfg']['maxsize'], r['cfg']['purge']))
        if 'error' in r:
            if 'err' not in seen:
                seen.add('err')
                rep.violation('harness error: %s' % r['error'], {'cfg': r['cfg'], 'trace_index': r['idx'], 'seed': sd,
                                                                  'broken': 'C20 correspondence harness'}, no_input=True)
            continue
        steps += r['steps']
        cuts['at-start' if r['cut'] == 0 else ('at-end' if r['cut'] == r['n'] else 'mid')] += 1
        if r['problems'] and len(seen) < 6:
            key = (r['cfg']['alg'], r['cfg']['safe'], r['problems'][0]['what'][:40])
            if key in seen:
                continue
            seen.add(key)
            sc = Scratch()
            try:
                cfg, ops, cut, tail = one(sd, r['idx'], thorough, sc)
            finally:
                sc.close()
            rep.violation('C20 on %s/%s: %s' % (cfg['alg'], 'safe' if cfg['safe'] else 'std', r['problems'][0]['what']),
                          {'cfg': cfg, 'ops': ops, 'cut': cut, 'tail': tail, 'seed': sd, 'problems': r['problems']})
        elif r['div'] and 'corr' not in seen:
            seen.add('corr')
            rep.violation('continuation of the original disagrees with the model on %s' % r['div']['field'],
                          {'cfg': r['cfg'], 'trace_index': r['idx'], 'seed': sd, 'divergence': r['div'],
                           'broken': 'per-step conformance with coq/Cache/CacheCore.v'}, no_input=True)
    # ---- configurations the integer-key model does not cover: sentinels, ignore markers, tolerances, archive settings
    sp_n = 0
    if pinfo.get('build_ok'):
        sc = Scratch()
        try:
            sp_problems, sp_n = special_sessions(sc)
        except Exception as e:
            sp_problems = [{'label': 'harness', 'what': 'special sessions failed: %r' % e}]
        finally:
            sc.close()
        shown = set()
        for pr in sp_problems:
            k2 = pr['label'].split(' ', 1)[-1][:25]
            if k2 in shown or len(shown) > 5:
                continue
            shown.add(k2)
            rep.violation('C20: ' + pr['what'][:500], {'special_session': pr['label'], 'calls_before': SPECIAL_CALLS_1, 'calls_after': SPECIAL_CALLS_2, 'seed': sd})
    if not proof_ok:
        rep.violation('proof obligation no longer checks: %s' % (pinfo.get('log') or pinfo.get('build_log')),
                      {'broken': 'coq/Props/C20.v'}, no_input=True)
    nth = len(pinfo.get('theorems', []))
    cov = {'explanation': 'partial: the theorems say that the model state tuple determines every continuation; that dill reproduces '
                          'that tuple (and nothing else matters) is checked by round-tripping the real function at random prefixes, '
                          'lock-step continuation of clone and original, and an independence phase',
           'obligations': nth, 'discharged': nth if proof_ok else 0,
           'checker_cmd': 'cd /verif && ./build.sh && cd coq && coqc -Q Base Klepto -Q Cache Klepto -Q Keys Klepto -Q Store Klepto -Q Props Klepto Props/C20.v',
           'trusted_base': ['Coq 8.16.1 kernel', 'dill', 'closure-cell observation of queue/refcount/use_count/stats'],
           'theorems': pinfo.get('theorems', []), 'print_assumptions': pinfo.get('print_assumptions', ''),
           'evaluations': len(results), 'distinct_nontrivial': len({json.dumps([r['cfg'], r.get('cut')], sort_keys=True, default=repr) for r in results if r.get('steps', 0) >= 3}),
           'rule': 'one evaluation = (configuration, history, cut point): dill round trip at the cut, lock-step continuation, independence phase; non-trivial = at least 3 lock-step steps',
           'traces_validated_against_impl': len([r for r in results if 'error' not in r and not r['problems'] and not r['div']]),
           'lockstep_steps': steps, 'configurations': len(cfgs), 'cut_positions': cuts, 'special_sessions': sp_n,
           'samples': [r['sample'] for r in results if r.get('sample')][:3] or [{'note': 'none'}]}
    write_evidence(prop, 'other', cov, time.time() - t0, len(rep.violations),
                   ['dill copies the closure by value', 'sqlite-backed archives cannot be pickled and are outside this property'])
    return rep.emit()


def replay(p, path):
    if 'special_session' in p:
        sc = Scratch()
        try:
            probs, n = special_sessions(sc, p['special_session'].split(' decorator-object')[0] if 'decorator-object' not in p['special_session'] else 'decorator-object')
        finally:
            sc.close()
        print(json.dumps(probs[:4], indent=1, default=repr))
        if probs:
            print('VIOLATION property=C20 replay=%s' % path)
            return 1
        print('replay: the recorded case no longer fails')
        return 0
    if 'cfg' not in p or 'ops' not in p:
        print('replay: %s records a broken proof/correspondence (%s), nothing to execute' % (path, p.get('broken')))
        return 1
    sc = Scratch()
    try:
        res = run_case(p['cfg'], [tuple(o) for o in p['ops']], p['cut'], [tuple(o) for o in p.get('tail', [])], sc)
    finally:
        sc.close()
    print(json.dumps(res[0], indent=1, default=repr))
    if res[0]:
        print('VIOLATION property=C20 replay=%s' % path)
        return 1
    return 0


if __name__ == '__main__':
    sys.exit(main())
