"""Checks of the key-pipeline properties C09 (canonicalisation), C10 (discrimination), C11 (ignore),
C17 (session stability): proof re-check, correspondence of klepto._inspect._keygen / klepto.keymaps
with the extracted model (coq/Keys/Keys.v), implementation-only monitors."""
import inspect
import json
import multiprocessing as mp
import os
import random
import subprocess
import sys
import time

sys.path.insert(0, os.path.dirname(os.path.abspath(__file__)))
from common import Report, seed, tier, write_evidence, run_model, load_findings, REPO, VERIF
import keys_common as kc
import keys_ext
import coqcheck


def impl_keygen(func, ignore, args, kwds):
    from klepto._inspect import _keygen
    return _keygen(func, ignore, *args, **kwds)


def values_differ(a, b, typed):
    if typed:
        return not (a == b and type(a) is type(b))
    return a != b


# ---------------------------------------------------------------- one generated case
def gen_case(prop, sd, idx):
    rng = random.Random('%s-%d-%d' % (prop, sd, idx))
    sig = kc.gen_sig(rng)
    ignore = kc.gen_ignore(rng, sig) if prop in ('C11', 'C17') else ()
    if prop == 'C10' and idx % 4 == 3:
        # "some NON-IGNORED parameter": every fourth C10 case carries an ignore specification (own stream, so the
        # other cases are what they were); the discrimination judgement below already skips ignored items
        r2 = random.Random('C10-ignore-%d-%d' % (sd, idx))
        ignore = r2.choice([('**',), ('*',), ('*', '**'), kc.gen_ignore(r2, sig), kc.gen_ignore(r2, sig) + ('**',)])
    if prop == 'C11' and rng.random() < 0.15:
        ignore = (rng.choice([0, 0, 1]),)
    if prop == 'C17' and rng.random() < 0.6:
        # several ignored names at once: the order of a set of names is where the hash seed enters
        names = [n for n, _ in sig['params']] + [n for n, _ in sig['kwonly']]
        ignore = tuple(rng.sample(names, min(len(names), rng.randint(2, 4)))) if len(names) >= 2 else ignore
    nb = 3
    bindings = [kc.gen_binding(rng, sig) for _ in range(nb)]
    # near-miss bindings: change exactly one thing
    base = bindings[0]
    for _ in range(3):
        b2 = {'vals': dict(base['vals']), 'extra_pos': list(base['extra_pos']), 'extra_kw': dict(base['extra_kw'])}
        choices = list(b2['vals']) + (['*pos'] if b2['extra_pos'] else []) + list(b2['extra_kw'])
        if not choices:
            break
        c = rng.choice(choices)
        if c == '*pos':
            i = rng.randrange(len(b2['extra_pos']))
            b2['extra_pos'][i] = rng.choice(kc.VALUES)
        elif c in b2['vals']:
            b2['vals'][c] = rng.choice(kc.VALUES)
        else:
            b2['extra_kw'][c] = rng.choice(kc.VALUES)
        b2['changed'] = c
        bindings.append(b2)
    if prop == 'C10' and rng.random() < 0.12:
        # a call that is ONE bare positional argument (only a *args function has one), and its look-alike:
        # the value and the string that spells it
        sig = {'params': [], 'varargs': True, 'kwonly': [], 'varkw': rng.random() < 0.5}
        ignore = ()
        v, w = rng.choice([(5, '5'), (1, '1'), (None, 'None'), (True, 'True'), (2.5, '2.5'), ((1, 2), '(1, 2)'), ('a', "'a'"), (0, '0')])
        if rng.random() < 0.5:
            v, w = w, v
        bindings = [{'vals': {}, 'extra_pos': [v], 'extra_kw': {}},
                    {'vals': {}, 'extra_pos': [w], 'extra_kw': {}, 'changed': '*pos'}]
    forms = [kc.call_forms(rng, sig, b, 3) for b in bindings]
    return {'sig': sig, 'ignore': ignore, 'bindings': bindings, 'forms': forms}


def ignored_params(sig, ignore):
    """which parameters / extras the ignore specification selects (the property's reading of it)"""
    pnames = [n for n, _ in sig['params']]
    names = set(i for i in ignore if isinstance(i, str))
    idx = set(i for i in ignore if isinstance(i, int))
    sel = set(n for n in names if n not in ('*', '**'))
    for i, n in enumerate(pnames):
        if i in idx:
            sel.add(n)
    return sel, idx, '*' in names, '**' in names


def run_case(prop, case, keymaps):
    """returns dict(corr=[...], hits=[...], stats)"""
    sig, ignore = case['sig'], case['ignore']
    func = kc.make_func(sig)
    corr, hits = [], []
    if ignore:
        # another function with a different layout is keyed under an equal ignore specification first:
        # nothing it resolves (names <-> indices) may leak into this function's keys
        pn = [n for n, _ in sig['params']]
        decoy = kc.make_func({'params': [(n, inspect.Parameter.empty) for n in (pn[::-1] + ['zz9'])], 'varargs': True,
                              'kwonly': [], 'varkw': True}, 'g')
        try:
            impl_keygen(decoy, tuple(ignore), tuple(range(len(pn) + 3)), {'e': 0})
        except Exception:
            pass
    # a sibling made from the SAME code object with other default values (what a factory, a loop of lambdas
    # or an assignment to __defaults__ produces) is keyed first: defaults belong to the function, not to its code
    try:
        import types
        if func.__defaults__ or func.__kwdefaults__:
            sib = types.FunctionType(func.__code__, func.__globals__, 'f',
                                     tuple(('sibling', i) for i, _ in enumerate(func.__defaults__ or ())), func.__closure__)
            if func.__kwdefaults__:
                sib.__kwdefaults__ = {n: ('sibling', n) for n in func.__kwdefaults__}
            nreq = len([1 for _, d in sig['params'] if d is inspect.Parameter.empty])
            impl_keygen(sib, tuple(ignore), tuple(range(nreq)), {n: 0 for n, d in sig['kwonly'] if d is inspect.Parameter.empty})
    except Exception:
        pass
    stats = {'calls': 0, 'pairs_same': 0, 'pairs_diff': 0, 'kw_perm_pairs': 0, 'default_pairs': 0}
    lines = []
    expect = []
    flat_forms = []
    for bi, forms in enumerate(case['forms']):
        for args, kwds in forms:
            flat_forms.append((bi, args, kwds))
    # ---- implementation
    impl = []
    for bi, args, kwds in flat_forms:
        try:
            ua, uk = impl_keygen(func, ignore, args, kwds)
        except Exception as e:
            corr.append({'what': '_keygen raised %s: %s' % (type(e).__name__, e), 'call': [args, kwds]})
            impl.append(None)
            continue
        rawkeys = {}
        for cfg in kc.RAW_CFGS:
            try:
                rawkeys[cfg] = kc.raw_keymap(*cfg)(*ua, **uk)
            except Exception as e:
                rawkeys[cfg] = e
        allkeys = {}
        for label, ctor in keymaps:
            try:
                allkeys[label] = ctor()(*ua, **uk)
            except Exception as e:
                allkeys[label] = ('EXC', type(e).__name__)
        impl.append({'ua': ua, 'uk': uk, 'raw': rawkeys, 'all': allkeys, 'bound': kc.py_bind(func, args, kwds)})
        stats['calls'] += 1
    # ---- model
    sxs = kc.sx_sig(sig)
    sxi = kc.sx_ign(ignore)
    for (bi, args, kwds), im in zip(flat_forms, impl):
        if im is None:
            continue
        c = kc.sx_call(args, kwds)
        lines.append('k.bind %s %s' % (sxs, c))
        lines.append('k.keygen %s %s %s' % (sxs, sxi, c))
        for cfg in kc.RAW_CFGS:
            lines.append('k.key %s %s (%d %d %d) %s' % (sxs, sxi, cfg[0], cfg[1], cfg[2], c))
    out = run_model(lines) if lines else []
    pos = 0
    for (bi, args, kwds), im in zip(flat_forms, impl):
        if im is None:
            continue
        mb, mk = out[pos], out[pos + 1]
        mkeys = out[pos + 2: pos + 2 + len(kc.RAW_CFGS)]
        pos += 2 + len(kc.RAW_CFGS)
        # binding (validates the model's notion of "binds the same values")
        ba = im['bound']
        if ba is None:
            if mb != 'none':
                corr.append({'what': 'bind: CPython rejects the call, model binds it', 'call': [args, kwds], 'model': mb})
        else:
            named = {k: v for k, v in ba.arguments.items() if k not in ('args', 'kw')}
            want = 'some %s (T%s) %s' % (
                '(' + ' '.join('(%s %s)' % (kc.sx_str(k), kc.sx_val(v)) for k, v in named.items()) + ')',
                ''.join(' ' + kc.sx_val(v) for v in ba.arguments.get('args', ())),
                '(' + ' '.join('(%s %s)' % (kc.sx_str(k), kc.sx_val(v)) for k, v in ba.arguments.get('kw', {}).items()) + ')')
            if kc.canon_sx(mb.replace('some ', '', 1)) != kc.canon_sx(want.replace('some ', '', 1)):
                corr.append({'what': 'bind differs from CPython', 'call': [args, kwds], 'model': mb, 'impl': want})
        # keygen
        want = '(T%s) %s' % (''.join(' ' + kc.sx_val(v) for v in im['ua']),
                             '(' + ' '.join('(%s %s)' % (kc.sx_str(k), kc.sx_val(v)) for k, v in sorted(im['uk'].items())) + ')')
        toks = mk.split(') ((', 1)
        got = kc.canon_sx(mk)
        wantc = kc.canon_sx(want)
        # compare kwds as a map: sort the model's entries
        def split_kg(t):
            a, _, m = t.partition(') (')
            return a, m
        ma, mm = _split_keygen(mk)
        wa, wm = _split_keygen(want)
        if ma != wa or sorted(mm) != sorted(wm):
            corr.append({'what': '_keygen output differs', 'call': [args, kwds], 'model': mk, 'impl': want})
        elif not ignore and mm != _entries_in_order(im['uk']):
            corr.append({'what': '_keygen dict order differs', 'call': [args, kwds], 'model': mk,
                         'impl': list(im['uk'].items())})
        for cfg, mline in zip(kc.RAW_CFGS, mkeys):
            rk = im['raw'][cfg]
            if isinstance(rk, Exception):
                corr.append({'what': 'raw keymap %r raised %r' % (cfg, rk), 'call': [args, kwds]})
                continue
            if kc.canon_sx(mline) != kc.canon_sx(kc.canon_val(rk)):
                corr.append({'what': 'raw key differs for keymap(typed=%s, flat=%s, sentinel=%s)' % cfg,
                             'call': [args, kwds], 'model': mline, 'impl': kc.canon_val(rk)})
    # ---- monitors (implementation only)
    by_binding = {}
    for (bi, args, kwds), im in zip(flat_forms, impl):
        if im is not None and im['bound'] is not None:
            by_binding.setdefault(bi, []).append((args, kwds, im))
    sel, idx, star, sstar = ignored_params(sig, ignore)
    pnames = [n for n, _ in sig['params']]
    if prop in ('C09', 'C17'):
        for bi, lst in by_binding.items():
            for i in range(1, len(lst)):
                a0, k0, im0 = lst[0]
                a1, k1, im1 = lst[i]
                stats['pairs_same'] += 1
                if list(k0) != list(k1) and set(k0) == set(k1):
                    stats['kw_perm_pairs'] += 1
                if set(k0) != set(k1) or len(a0) != len(a1):
                    stats['default_pairs'] += 1
                for label, _ in keymaps:
                    x, y = im0['all'][label], im1['all'][label]
                    if kc.key_id(x) != kc.key_id(y):
                        hits.append({'prop': prop, 'keymap': label,
                                     'what': 'calls f%r and f%r bind identically but get different keys under %s: %r vs %r'
                                             % (_show(a0, k0), _show(a1, k1), label, x, y),
                                     'calls': [[a0, k0], [a1, k1]], 'keys': [x, y]})
    if prop in ('C10', 'C11'):
        b0 = case['bindings'][0]
        for bi, lst in by_binding.items():
            if bi == 0 or 0 not in by_binding:
                continue
            b = case['bindings'][bi]
            if 'changed' not in b:
                continue
            c = b['changed']
            # is the changed item selected by the ignore specification?
            if c == '*pos':
                diff_idx = [i for i, (u, v) in enumerate(zip(b0['extra_pos'], b['extra_pos'])) if values_differ(u, v, True)]
                is_ignored = star or all((len(pnames) + i) in idx for i in diff_idx)
                changed = any(values_differ(u, v, False) for u, v in zip(b0['extra_pos'], b['extra_pos']))
                tdiff = bool(diff_idx)
            elif c in b['vals']:
                is_ignored = c in sel
                changed = values_differ(b0['vals'][c], b['vals'][c], False)
                tdiff = values_differ(b0['vals'][c], b['vals'][c], True)
            else:
                is_ignored = sstar or c in sel
                changed = values_differ(b0['extra_kw'].get(c), b['extra_kw'].get(c), False)
                tdiff = values_differ(b0['extra_kw'].get(c), b['extra_kw'].get(c), True)
            if not tdiff:
                continue
            a0, k0, im0 = by_binding[0][0]
            a1, k1, im1 = lst[0]
            for label, _ in keymaps:
                x, y = im0['all'][label], im1['all'][label]
                typed = label.split('-')[1][0] == 'T'
                flat = label.split('-')[1][1] == 'F'
                mark = label.split('-')[1][2] == 'M'
                same = kc.key_id(x) == kc.key_id(y)
                if is_ignored and prop == 'C11':
                    stats['pairs_same'] += 1
                    if not same and tdiff:
                        hits.append({'prop': 'C11', 'keymap': label,
                                     'what': 'calls f%r and f%r differ only in ignored %r (ignore=%r) but get different keys under %s'
                                             % (_show(a0, k0), _show(a1, k1), c, ignore, label),
                                     'calls': [[a0, k0], [a1, k1]]})
                elif not is_ignored:
                    # a flat key without a sentinel is ambiguous for *args functions only between calls of
                    # DIFFERENT shape (f(1, 'a', 2) / f(1, a=2)); two calls of the same shape that differ in one value must differ
                    same_shape = len(im0['ua']) == len(im1['ua']) and set(im0['uk']) == set(im1['uk'])
                    guard = (not flat) or mark or not sig['varargs'] or same_shape
                    lossy = label.startswith('hash-')      # python's hash: not information preserving
                    must_differ = (changed or (typed and tdiff)) and guard and not lossy
                    if must_differ:
                        stats['pairs_diff'] += 1
                        if same:
                            # K4: a flat str() key of ONE bare argument (only *args functions produce one)
                            bare = flat and len(im0['ua']) == 1 and not im0['uk'] and label.startswith('str-')
                            hits.append({'prop': prop, 'keymap': label, 'bare_str': bare,
                                         'what': 'calls f%r and f%r bind different values to non-ignored %r (ignore=%r) but share key %r under %s'
                                                 % (_show(a0, k0), _show(a1, k1), c, ignore, x, label),
                                         'calls': [[a0, k0], [a1, k1]]})
    return {'corr': corr, 'hits': hits, 'stats': stats}


DECOS = [(m, n) for n in ('lru_cache', 'lfu_cache', 'mru_cache', 'rr_cache', 'inf_cache', 'no_cache') for m in ('klepto', 'klepto.safe')]


def decorator_glue(prop, case, idx):
    """the key pipeline as the twelve decorators run it (f.key): each decorator must compose rounding, _keygen
    and its keymap exactly as the direct composition does, accept a bare name/index as ignore=, and give
    identically-binding calls one key also when a rounding tolerance is set"""
    import klepto
    import klepto.safe
    import klepto.keymaps as km
    hits = []
    sig, ignore = case['sig'], tuple(case['ignore'])
    func = kc.make_func(sig)
    kmi = idx % 3
    mk = [lambda: km.stringmap(flat=False, encoding='repr'), lambda: km.hashmap(algorithm='md5'), lambda: km.picklemap(flat=True)][kmi]
    klabel = ['repr-tfm', 'md5-tFm', 'pik-tFm'][kmi]
    rounding = prop == 'C09' and idx % 3 == 0
    tol, deep = (1, True) if rounding else (None, False)

    def fl(v):
        # with a tolerance: every number becomes a float with digits beyond it, nested ones too
        if isinstance(v, bool) or v is None or isinstance(v, str):
            return v
        if isinstance(v, (int, float)):
            return v + 0.26
        if isinstance(v, tuple):
            return tuple(fl(x) for x in v)
        return v
    if rounding:
        # the defaults take part in the binding: a default spelled out by the caller must stay the default
        if func.__defaults__:
            func.__defaults__ = tuple(fl(d) for d in func.__defaults__)
        if func.__kwdefaults__:
            func.__kwdefaults__ = {n: fl(d) for n, d in func.__kwdefaults__.items()}
    calls = []
    for bi, forms in enumerate(case['forms']):
        for args, kwds in forms:
            if kc.py_bind(func, args, kwds) is None:
                continue
            calls.append((bi, tuple(fl(x) for x in args) if rounding else args,
                          {n: fl(x) for n, x in kwds.items()} if rounding else kwds))
    if not calls:
        return hits
    direct = None
    if not rounding:
        direct = []
        for bi, a, k in calls:
            try:
                ua, uk = impl_keygen(func, ignore, a, k)
                direct.append(kc.key_id(mk()(*ua, **uk)))
            except Exception as e:
                direct.append(('EXC', type(e).__name__))
    for (modname, name) in DECOS:
        cls = getattr(klepto.safe if modname == 'klepto.safe' else klepto, name)
        variants = [ignore]
        if len(ignore) == 1:
            variants.append(ignore[0])          # a bare name / index is an ignore specification too
        for ign in variants:
            kw = dict(keymap=mk(), ignore=ign, tol=tol, deep=deep)
            if 'no_' not in name and 'inf' not in name:
                kw['maxsize'] = 7
            try:
                f = cls(**kw)(func)
            except Exception as e:
                hits.append({'prop': prop, 'keymap': klabel, 'what': '%s.%s(ignore=%r) failed to decorate: %s: %s' % (modname, name, ign, type(e).__name__, e), 'calls': []})
                continue
            keys = []
            for bi, a, k in calls:
                try:
                    keys.append(kc.key_id(f.key(*a, **k)))
                except Exception as e:
                    keys.append(('EXC', type(e).__name__))
            if direct is not None:
                for (bi, a, k), kd, kf in zip(calls, direct, keys):
                    if kd != kf:
                        hits.append({'prop': prop, 'keymap': klabel,
                                     'what': '%s.%s(ignore=%r): key of f%s is %r, but keymap(_keygen(f, %r, ...)) gives %r' % (
                                         modname, name, ign, _show(a, k), kf, ignore, kd), 'calls': [[a, k]]})
                        break
            if prop in ('C09', 'C17'):
                first = {}
                for (bi, a, k), kf in zip(calls, keys):
                    if bi not in first:
                        first[bi] = (a, k, kf)
                    elif first[bi][2] != kf:
                        # K13: rounding runs on what the caller wrote, before defaults are filled in
                        import inspect as _i
                        dflt = {n for n, p_ in _i.signature(func).parameters.items()
                                if p_.default is not _i.Parameter.empty and isinstance(p_.default, (float, tuple))}
                        b1 = kc.py_bind(func, first[bi][0], first[bi][1])
                        given1 = set(_i.signature(func).bind(*first[bi][0], **first[bi][1]).arguments)
                        given2 = set(_i.signature(func).bind(*a, **k).arguments)
                        k13 = bool(rounding and (dflt & (given1 ^ given2)))
                        hits.append({'prop': prop, 'keymap': klabel, 'k13': k13,
                                     'what': 'calls f%s and f%s bind identically but get different keys from %s.%s(tol=%r, deep=%r, ignore=%r): %r vs %r' % (
                                         _show(first[bi][0], first[bi][1]), _show(a, k), modname, name, tol, deep, ign, first[bi][2], kf),
                                     'calls': [[first[bi][0], first[bi][1]], [a, k]]})
                        break
    return hits[:4]


def _show(a, k):
    return '(' + ', '.join([repr(x) for x in a] + ['%s=%r' % kv for kv in k.items()]) + ')'


def _split_keygen(text):
    """'(T a b) ((k v) ...)' -> (args text, [entry texts])"""
    depth = 0
    for i, ch in enumerate(text):
        if ch == '(':
            depth += 1
        elif ch == ')':
            depth -= 1
            if depth == 0:
                args = text[:i + 1]
                rest = text[i + 1:].strip()
                break
    ents = []
    depth = 0
    start = None
    for i, ch in enumerate(rest[1:-1]):
        if ch == '(':
            if depth == 0:
                start = i
            depth += 1
        elif ch == ')':
            depth -= 1
            if depth == 0:
                ents.append(kc.canon_sx(rest[1:-1][start:i + 1]))
    return kc.canon_sx(args), ents


def _entries_in_order(d):
    return [kc.canon_sx('(%s %s)' % (kc.sx_str(k), kc.sx_val(v))) for k, v in d.items()]


def _worker(args):
    prop, sd, lo, hi = args
    keymaps = kc.all_keymaps()
    out = []
    for idx in range(lo, hi):
        case = gen_case(prop, sd, idx)
        try:
            res = run_case(prop, case, keymaps)
        except Exception as e:
            out.append({'idx': idx, 'error': '%s: %s' % (type(e).__name__, e)})
            continue
        if prop in ('C09', 'C10', 'C11') and idx % 2 == 0:
            try:
                res['hits'] = res['hits'] + decorator_glue(prop, case, idx)
            except Exception as e:
                out.append({'idx': idx, 'error': 'decorator glue: %s: %s' % (type(e).__name__, e)})
                continue
        if prop in ('C09', 'C10', 'C11'):
            try:
                eh, es = keys_ext.run_ext_case(prop, sd, idx)
                res['hits'] = res['hits'] + eh
                res['stats'].update(es)
            except Exception as e:
                out.append({'idx': idx, 'error': 'extended callables: %s: %s' % (type(e).__name__, e)})
                continue
        out.append({'idx': idx, 'corr': res['corr'][:3], 'hits': res['hits'][:6], 'stats': res['stats'],
                    'features': {'varargs': case['sig']['varargs'], 'varkw': case['sig']['varkw'],
                                 'kwonly': bool(case['sig']['kwonly']), 'nparams': len(case['sig']['params']),
                                 'ignore': len(case['ignore'])},
                    'sample': {'def': kc.sig_text(case['sig']).split('\n')[0], 'ignore': case['ignore'],
                               'calls': [_show(a, k) for a, k in case['forms'][0]]} if idx % 61 == 0 else None})
    return out


# ---------------------------------------------------------------- C17: other interpreter sessions
SESSION_SCRIPT = r'''
import sys, json, random
sys.path.insert(0, %(harness)r); sys.path.insert(0, %(repo)r)
import keys_common as kc, keys_check as kk
out = []
keymaps = [(l, c) for l, c in kc.all_keymaps() if not l.startswith('hash-')]
for idx in range(%(lo)d, %(hi)d):
    case = kk.gen_case('C17', %(seed)d, idx)
    func = kc.make_func(case['sig'])
    for forms in case['forms'][:2]:
        for args, kwds in forms[:2]:
            try:
                ua, uk = kk.impl_keygen(func, case['ignore'], args, kwds)
            except Exception as e:
                out.append(['exc', type(e).__name__]); continue
            row = []
            for label, ctor in keymaps:
                try:
                    k = ctor()(*ua, **uk)
                    row.append(repr(k) if not isinstance(k, bytes) else k.hex())
                except Exception as e:
                    row.append('EXC:' + type(e).__name__)
            out.append(row)
print(json.dumps(out))
'''


def session_keys(sd, lo, hi, hashseed):
    code = SESSION_SCRIPT % {'harness': os.path.join(VERIF, 'harness'), 'repo': REPO, 'lo': lo, 'hi': hi, 'seed': sd}
    env = dict(os.environ, PYTHONHASHSEED=str(hashseed), PYTHONPATH=REPO)
    p = subprocess.run([sys.executable, '-c', code], env=env, stdout=subprocess.PIPE, stderr=subprocess.PIPE, timeout=900)
    if p.returncode != 0:
        raise RuntimeError(p.stderr.decode()[-800:])
    return json.loads(p.stdout.decode())


ARCHIVE_SESSION = r'''
import sys, json
sys.path.insert(0, %(repo)r)
import klepto, klepto.keymaps as km, klepto.archives as ar
role, kind, path, kmlabel = %(role)r, %(kind)r, %(path)r, %(km)r
KM = {
 'str-nf': lambda: km.stringmap(flat=False), 'str-flat': lambda: km.stringmap(flat=True),
 'pickle': lambda: km.picklemap(serializer='pickle'), 'dill': lambda: km.picklemap(serializer='dill'),
 'md5': lambda: km.hashmap(algorithm='md5'), 'SHA256': lambda: km.hashmap(algorithm='SHA256'),
 'str+md5': lambda: km.stringmap() + km.hashmap(algorithm='md5'), 'raw': lambda: km.keymap(),
 'repr-typed': lambda: km.stringmap(typed=True, encoding='repr'),
 'raw-mark': lambda: km.keymap(sentinel=km.SENTINEL), 'md5-mark': lambda: km.hashmap(algorithm='md5', sentinel=km.SENTINEL),
}
def mk():
    if kind == 'dir': return ar.dir_archive(path, cached=True)
    if kind == 'file': return ar.file_archive(path, cached=True)
    return ar.sqltable_archive('sqlite:///%%s?table=memo' %% path, cached=True)
calls = []
def fun(x, y=2, *a, **k):
    calls.append(1)
    return repr([x, y, len(a), sorted(k)])
f = klepto.lru_cache(maxsize=3, cache=mk(), keymap=KM[kmlabel](), ignore=('q',))(fun)
ARGS = [((1,), {}), ((2, 'b'), {}), (('s',), {'y': 2.5}), ((3,), {'z': (1, 2), 'w': None}), ((4, 5, 6, 7), {'q': 1}),
        ((), {'x': 9, 'y': 'yy'}), ((1.5,), {'y': True})]
for a, k in ARGS:
    f(*a, **k)
if role == 'write':
    f.dump()
print(json.dumps({'evaluations': len(calls), 'info': list(f.info())}))
'''


def archive_sessions(scratch, thorough):
    """a writer session and a reader session with different hash seeds on the same persistent archive:
    the reader must find every result as a load, never recompute"""
    kinds = ['dir', 'file', 'sql']
    kms = ['str-nf', 'str-flat', 'pickle', 'dill', 'md5', 'SHA256', 'str+md5', 'raw', 'repr-typed', 'raw-mark', 'md5-mark']
    combos = [(k, m) for k in kinds for m in kms if not (k == 'sql' and m in ('raw', 'raw-mark'))]
    if not thorough:
        # (raw keys stored in a pickled file carry the NULL / SENTINEL marker objects themselves)
        combos = [c for i, c in enumerate(combos) if i % 3 == 0 or c in (('dir', 'pickle'), ('dir', 'SHA256'), ('file', 'str-nf'),
                                                                         ('file', 'raw'), ('file', 'raw-mark'), ('dir', 'md5-mark'))]
    out = []
    for kind, kmlabel in combos:
        path = scratch.new({'dir': '.d', 'file': '.pkl', 'sql': '.db'}[kind])
        res = {}
        for role, hs in (('write', '11'), ('read', '4242')):
            code = ARCHIVE_SESSION % {'repo': REPO, 'role': role, 'kind': kind, 'path': path, 'km': kmlabel}
            env = dict(os.environ, PYTHONHASHSEED=hs, PYTHONPATH=REPO)
            p = subprocess.run([sys.executable, '-c', code], env=env, stdout=subprocess.PIPE, stderr=subprocess.PIPE, timeout=300)
            if p.returncode != 0:
                res[role] = {'error': p.stderr.decode()[-400:]}
            else:
                res[role] = json.loads(p.stdout.decode().strip().split('\n')[-1])
        out.append({'archive': kind, 'keymap': kmlabel, 'write': res.get('write'), 'read': res.get('read')})
    return out


def classify_known(prop, hit, findings):
    import findings as fmod
    for f in findings:
        if f.get('property') == prop and f.get('status') == 'known':
            pred = getattr(fmod, f['predicate'], None)
            if pred and pred(hit):
                return f
    return None


def run_property(prop):
    t0 = time.time()
    thorough = tier() == 'thorough'
    sd = seed()
    rep = Report(prop)
    findings = load_findings()
    proof_ok, pinfo = coqcheck.proof_status(prop)
    n = (30000 if thorough else 400)
    results = []
    if pinfo.get('build_ok'):
        nproc = min(16, os.cpu_count() or 4)
        chunk = max(5, n // (nproc * 3))
        jobs = [(prop, sd, lo, min(lo + chunk, n)) for lo in range(0, n, chunk)]
        with mp.Pool(nproc) as pool:
            for part in pool.imap_unordered(_worker, jobs):
                results.extend(part)
    results.sort(key=lambda r: r['idx'])
    stats = {}
    feats = {}
    samples = []
    seen = set()
    sessions = {}
    for r in results:
        if 'error' in r:
            if 'err' not in seen:
                seen.add('err')
                rep.violation('harness error: %s' % r['error'], {'trace_index': r['idx'], 'seed': sd, 'broken': 'keys correspondence harness'}, no_input=True)
            continue
        for k, v in r['stats'].items():
            stats[k] = stats.get(k, 0) + v
        for k, v in r['features'].items():
            feats['%s=%s' % (k, v)] = feats.get('%s=%s' % (k, v), 0) + 1
        if r.get('sample') and len(samples) < 3:
            samples.append(r['sample'])
        for h in r['hits']:
            kf = classify_known(prop, h, findings)
            if kf:
                rep.known_finding(kf['id'], kf['description'])
                continue
            key = (h['prop'], h['keymap'].split('-')[0], h['keymap'].split('-')[1][1])
            if key in seen or len([s for s in seen if isinstance(s, tuple)]) >= 6:
                continue
            seen.add(key)
            case = gen_case(prop, sd, r['idx'])
            rep.violation(h['what'], {'def': kc.sig_text(case['sig']), 'ignore': list(case['ignore']), 'keymap': h['keymap'],
                                      'calls': h['calls'], 'seed': sd, 'trace_index': r['idx']})
        if r['corr'] and 'corr' not in seen:
            seen.add('corr')
            case = gen_case(prop, sd, r['idx'])
            c0 = r['corr'][0]
            rep.violation('klepto and the model disagree: %s (call %r)' % (c0['what'], c0.get('call')),
                          {'def': kc.sig_text(case['sig']), 'ignore': list(case['ignore']), 'divergence': c0, 'seed': sd,
                           'trace_index': r['idx'],
                           'broken': 'correspondence of klepto._inspect._keygen / klepto.keymaps with coq/Keys/Keys.v (theorems of Props/%s.v)' % prop},
                          no_input=True)
    # ---- C17: the same keys in interpreter sessions with different hash seeds
    if prop == 'C17' and pinfo.get('build_ok'):
        ncase = 1500 if thorough else 60
        seeds_ = [0, 1, 2, 12345] if thorough else [0, 7]
        try:
            base = session_keys(sd, 0, ncase, seeds_[0])
            for hs in seeds_[1:]:
                other = session_keys(sd, 0, ncase, hs)
                sessions['hashseed-%s' % hs] = len(other)
                labels = [l for l, _ in kc.all_keymaps() if not l.startswith('hash-')]
                for i, (ra, rb) in enumerate(zip(base, other)):
                    for j, (x, y) in enumerate(zip(ra, rb)):
                        if x != y:
                            h = {'prop': 'C17', 'keymap': labels[j] if j < len(labels) else '?',
                                 'what': 'key differs between interpreter sessions (PYTHONHASHSEED %s vs %s) under %s: %s vs %s'
                                         % (seeds_[0], hs, labels[j] if j < len(labels) else '?', x[:80], y[:80])}
                            kf = classify_known(prop, h, findings)
                            if kf:
                                rep.known_finding(kf['id'], kf['description'])
                            elif ('sess', h['keymap']) not in seen and len(seen) < 10:
                                seen.add(('sess', h['keymap']))
                                rep.violation(h['what'], {'row': i, 'seed': sd, 'hashseeds': [seeds_[0], hs], 'keymap': h['keymap']})
        except Exception as e:
            rep.violation('session experiment failed: %s' % e, {'broken': 'C17 session harness'}, no_input=True)
        from common import Scratch
        sc = Scratch()
        try:
            asess = archive_sessions(sc, thorough)
        finally:
            sc.close()
        sessions['archive_sessions'] = len(asess)
        for a in asess:
            w, r = a['write'], a['read']
            if not w or not r or 'error' in w or 'error' in r:
                if ('asess-err',) not in seen:
                    seen.add(('asess-err',))
                    rep.violation('archive session %s/%s failed to run: %r' % (a['archive'], a['keymap'], (w, r)),
                                  {'broken': 'C17 archive-session harness', 'case': a}, no_input=True)
                continue
            if r['evaluations'] != 0 or r['info'][1] != 0:
                key = ('asess', a['archive'], a['keymap'])
                if key not in seen and len([x for x in seen if isinstance(x, tuple) and x[0] == 'asess']) < 4:
                    seen.add(key)
                    rep.violation('a later session re-evaluated %d of 7 archived calls (%s archive, %s keymap, hash seeds 11 -> 4242): info=%r'
                                  % (r['evaluations'], a['archive'], a['keymap'], r['info']), {'case': a, 'hashseeds': [11, 4242]})
    # ---- recorded known findings with a probe are probed directly: the line is printed only while they reproduce
    for f in findings:
        if f.get('property') == prop and f.get('status') == 'known' and f.get('probe') and f['id'] not in [k for k, _ in rep.known]:
            try:
                if getattr(__import__('findings'), f['probe'])():
                    rep.known_finding(f['id'], f['description'])
            except Exception as e:
                rep.violation('probe of known finding %s failed: %s' % (f['id'], e), {'broken': 'known-finding probe'}, no_input=True)
    if not proof_ok:
        rep.violation('proof obligation no longer checks: %s' % (pinfo.get('log') or pinfo.get('build_log') or pinfo.get('hygiene')),
                      {'broken': 'coq/Props/%s.v' % prop}, no_input=True)
    nth = len(pinfo.get('theorems', []))
    level = 'other' if prop == 'C17' else 'proof'
    cov = {'obligations': nth, 'discharged': nth if proof_ok else 0,
           'checker_cmd': 'cd /verif && ./build.sh && cd coq && coqc -Q Base Klepto -Q Cache Klepto -Q Keys Klepto -Q Store Klepto -Q Props Klepto Props/%s.v' % prop,
           'trusted_base': ['Coq 8.16.1 kernel', 'axioms: %s' % (', '.join(pinfo.get('axioms', [])) or 'none (Closed under the global context x%d)' % pinfo.get('closed', 0)),
                            'hand-written model coq/Keys/Keys.v (bind, keygen, raw keymap) tied to /repo by differential comparison',
                            "CPython's inspect.signature(...).bind as the notion of 'binds the same values'",
                            'repr/str/pickle/hashlib encoders: injectivity assumed, determinism tested'],
           'theorems': pinfo.get('theorems', []), 'print_assumptions': pinfo.get('print_assumptions', ''),
           'evaluations': len(results),
           'distinct_nontrivial': len([r for r in results if 'error' not in r and r['stats'].get('calls', 0) >= 4]),
           'rule': 'one evaluation = one generated signature x ignore spec with 6 bindings x up to 3 call forms, keyed by _keygen and 56 keymap configurations, compared with the model (bind, keygen, 8 raw keymaps); non-trivial = at least 4 calls',
           'traces_validated_against_impl': len([r for r in results if 'error' not in r and not r['corr']]),
           'pair_counts': stats, 'signature_features': dict(sorted(feats.items())), 'sessions': sessions,
           'samples': samples or [{'note': 'none'}], 'known_findings_reproduced': [k for k, _ in rep.known]}
    if level != 'proof':
        cov['explanation'] = ('partial: the theorem says the key does not depend on the iteration order of the ignored-name set nor on '
                              'keyword order; determinism of repr/pickle/hashlib across processes is tested by computing the same keys '
                              'in interpreter sessions with different PYTHONHASHSEED')
    write_evidence(prop, level, cov, time.time() - t0, len(rep.violations),
                   ['model hand-written; encoder injectivity assumed', 'value universe: small ints, bools, quarter floats, short strings, None, tuples'])
    return rep.emit()


if __name__ == '__main__':
    sys.exit(run_property(sys.argv[1]))


def replay(prop, p, path):
    """re-execute a recorded case of C09 / C10 / C11 / C17 against /repo"""
    findings = load_findings()
    if 'case' in p and isinstance(p['case'], dict) and 'archive' in p['case']:
        from common import Scratch
        sc = Scratch()
        try:
            res = [a for a in archive_sessions(sc, True) if a['archive'] == p['case']['archive'] and a['keymap'] == p['case']['keymap']]
        finally:
            sc.close()
        print(json.dumps(res, indent=1, default=repr))
        bad = [a for a in res if not a['read'] or 'error' in a['read'] or a['read']['evaluations'] != 0]
        if bad:
            print('VIOLATION property=%s replay=%s' % (prop, path))
            return 1
        print('replay: the recorded case no longer fails')
        return 0
    if 'trace_index' not in p or 'seed' not in p:
        print('replay: %s records a broken proof/correspondence or a session experiment (%s); run ./check %s' % (path, p.get('broken') or p.get('what'), prop))
        return 1
    idx, sd = p['trace_index'], p['seed']
    case = gen_case(prop, sd, idx)
    res = run_case(prop, case, kc.all_keymaps())
    hits = list(res['hits'])
    if prop in ('C09', 'C10', 'C11') and idx % 2 == 0:
        hits += decorator_glue(prop, case, idx)
    if prop in ('C09', 'C10', 'C11'):
        hits += keys_ext.run_ext_case(prop, sd, idx)[0]
    left = []
    for h in hits:
        kf = classify_known(prop, h, findings)
        if kf:
            print('KNOWN-FINDING: property=%s %s: %s' % (prop, kf['id'], h['what'][:200]))
        else:
            left.append(h)
    print(json.dumps({'def': kc.sig_text(case['sig']), 'ignore': list(case['ignore']), 'divergence': res['corr'][:2],
                      'monitor_hits': [h['what'] for h in left][:5]}, indent=1, default=repr))
    if left or res['corr']:
        print('VIOLATION property=%s replay=%s' % (prop, path))
        return 1
    print('replay: the recorded case no longer fails')
    return 0

