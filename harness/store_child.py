"""Child process for the C04 / C13 / C14 checks: performs ONE action on a persistent archive.
usage: store_child.py <json spec>
spec: {"config": label, "path": base path, "action": [...], "out": optional result file, "mark": bool}
With "mark" the action is bracketed by two marker system calls (mkdir of an impossible path) so that the
parent, which runs this process under strace, can locate the action inside the system-call trace."""
import json
import os
import sys


def ctor(label, path, cached=False):
    import klepto.archives as ar
    if label == 'file-pickle':
        return ar.file_archive(path + '.pkl', cached=cached)
    if label == 'file-json':
        return ar.file_archive(path + '.json', cached=cached, protocol='json')
    if label == 'file-source':
        return ar.file_archive(path + '.py', cached=cached, serialized=False)
    if label == 'dir-pickle':
        return ar.dir_archive(path + '.d', cached=cached)
    if label == 'dir-fast':
        return ar.dir_archive(path + '.d', cached=cached, fast=True)
    if label == 'dir-json':
        return ar.dir_archive(path + '.d', cached=cached, protocol='json')
    if label == 'dir-source':
        return ar.dir_archive(path + '.d', cached=cached, serialized=False)
    if label == 'sql':
        return ar.sqltable_archive('sqlite:///%s.db?table=memo' % path, cached=cached)
    raise ValueError(label)


def location(label, path):
    """the file-system objects that make up the archive (for snapshots)"""
    ext = {'file-pickle': '.pkl', 'file-json': '.json', 'file-source': '.py', 'sql': '.db'}.get(label, '.d')
    return path + ext


def dec(v):
    """values travel as JSON; ["__big__", n, c] is a long string, ["__t__", ...] a tuple"""
    if isinstance(v, list) and v and v[0] == '__big__':
        return v[2] * v[1]
    if isinstance(v, list) and v and v[0] == '__t__':
        return tuple(dec(x) for x in v[1:])
    if isinstance(v, list):
        return [dec(x) for x in v]
    if isinstance(v, dict):
        return {k: dec(x) for k, x in v.items()}
    return v


def enc(v):
    if isinstance(v, str) and len(v) > 200 and v == v[0] * len(v):
        return ['__big__', len(v), v[0]]
    if isinstance(v, tuple):
        return ['__t__'] + [enc(x) for x in v]
    if isinstance(v, list):
        return [enc(x) for x in v]
    if isinstance(v, dict):
        return {str(k): enc(x) for k, x in v.items()}
    if isinstance(v, bytes):
        return ['__b__', v.decode('latin1')]
    return v


def enc_items(d):
    return [[enc(k), enc(v)] for k, v in d.items()]


def marker(name):
    try:
        os.mkdir('/proc/klepto-verif-marker-%s' % name)
    except OSError:
        pass


def perform(label, path, action):
    kind = action[0]
    if kind == 'open':                      # merely opening an existing archive
        a = ctor(label, path)
        return None
    if kind == 'open-cached':
        a = ctor(label, path, cached=True)
        return None
    if kind == 'read':                      # what a fresh handle sees
        a = ctor(label, path)
        d = dict(a.items())
        n = len(a)
        ks = list(a.keys())
        if n != len(d) or len(ks) != len(d):
            raise AssertionError('len()=%d, %d keys, %d items' % (n, len(ks), len(d)))
        return enc_items(d)
    if kind == 'read-cache':                # ... and what a cache loads from it
        a = ctor(label, path, cached=True)
        a.load()
        return enc_items(dict(a.items()))
    if kind == 'lookup':
        a = ctor(label, path)
        k = dec(action[1])
        return [k in a, enc(a.get(k, '__absent__'))]
    a = ctor(label, path)
    if kind == 'set':
        a[dec(action[1])] = dec(action[2])
    elif kind == 'del':
        del a[dec(action[1])]
    elif kind == 'pop':
        a.pop(dec(action[1]))
    elif kind == 'update':
        a.update(dict((dec(k), dec(v)) for k, v in action[1]))
    elif kind == 'clear':
        a.clear()
    elif kind == 'setdefault':
        a.setdefault(dec(action[1]), dec(action[2]))
    elif kind == 'popkeys':
        a.popkeys([dec(k) for k in action[1]])
    elif kind == 'dump':                    # dump from a cache in front of the archive
        c = ctor(label, path, cached=True)
        for k, v in action[1]:
            c[dec(k)] = dec(v)
        c.dump()
    elif kind == 'dump-keys':
        c = ctor(label, path, cached=True)
        for k, v in action[1]:
            c[dec(k)] = dec(v)
        c.dump(*[dec(k) for k, _ in action[1]][:1])
    elif kind == 'seed':                    # constructor seeded with a dict
        import klepto.archives as ar
        d = dict((dec(k), dec(v)) for k, v in action[1])
        ext = location(label, path)
        if label.startswith('file'):
            ar.file_archive(ext, d, cached=False, **({'protocol': 'json'} if label == 'file-json' else {'serialized': False} if label == 'file-source' else {}))
        elif label.startswith('dir'):
            ar.dir_archive(ext, d, cached=False, **({'protocol': 'json'} if label == 'dir-json' else {'fast': True} if label == 'dir-fast' else {'serialized': False} if label == 'dir-source' else {}))
        else:
            ar.sqltable_archive('sqlite:///%s.db?table=memo' % path, d, cached=False)
    else:
        raise ValueError(kind)
    return None


def main():
    spec = json.loads(sys.argv[1])
    res = {'ok': True}
    import klepto.archives          # everything is imported before the action starts
    import klepto._archives
    import sqlite3, dill, json as _j, shutil, tempfile, random
    import dill.source
    import klepto._pickle
    if spec.get('mark'):
        marker('begin')
    try:
        res['value'] = perform(spec['config'], spec['path'], spec['action'])
    except BaseException as e:
        res = {'ok': False, 'error': '%s: %s' % (type(e).__name__, e)}
    if spec.get('mark'):
        marker('end')
    if spec.get('out'):
        with open(spec['out'], 'w') as f:
            json.dump(res, f)
    else:
        sys.stdout.write(json.dumps(res))
    return 0


if __name__ == '__main__':
    sys.exit(main())
