"""Child process for the C04 / C13 / C14 checks: performs ONE action on a persistent archive.
usage: store_child.py <json spec>
spec: {"config": label, "path": base path, "action": [...], "out": optional result file, "mark": bool}
With "mark" the action is bracketed by two marker system calls (mkdir of an impossible path) so that the
parent, which runs this process under strace, can locate the action inside the system-call trace."""
import json
import os
import sys


def ctor(label, path, cached=False):
    import klepto.archives as ar
    if label == 'file-pickle':
        return ar.file_archive(path + '.pkl', cached=cached)
    if label == 'file-json':
        return ar.file_archive(path + '.json', cached=cached, protocol='json')
    if label == 'file-source':
        return ar.file_archive(path + '.py', cached=cached, serialized=False)
    if label == 'dir-pickle':
        return ar.dir_archive(path + '.d', cached=cached)
    if label == 'dir-fast':
        return ar.dir_archive(path + '.d', cached=cached, fast=True)
    if label == 'dir-json':
        return ar.dir_archive(path + '.d', cached=cached, protocol='json')
    if label == 'dir-source':
        return ar.dir_archive(path + '.d', cached=cached, serialized=False)
    if label == 'dir-compressed':
        return ar.dir_archive(path + '.d', cached=cached, compression=3)
    if label == 'dir-memmap':
        return ar.dir_archive(path + '.d', cached=cached, memmode='r')
    if label == 'file-pickle-p2':
        return ar.file_archive(path + '.pkl', cached=cached, protocol=2)
    if label == 'sql':
        return ar.sqltable_archive('sqlite:///%s.db?table=memo' % path, cached=cached)
    raise ValueError(label)


def location(label, path):
    """the file-system objects that make up the archive (for snapshots)"""
    ext = {'file-pickle': '.pkl', 'file-json': '.json', 'file-source': '.py', 'sql': '.db'}.get(label, '.d')
    return path + ext


def dec(v):
    """values travel as JSON; ["__big__", n, c] is a long string, ["__t__", ...] a tuple"""
    if isinstance(v, list) and v and v[0] == '__big__':
        return v[2] * v[1]
    if isinstance(v, list) and v and v[0] == '__t__':
        return tuple(dec(x) for x in v[1:])
    if isinstance(v, list):
        return [dec(x) for x in v]
    if isinstance(v, dict):
        return {k: dec(x) for k, x in v.items()}
    return v


def enc(v):
    if isinstance(v, str) and len(v) > 200 and v == v[0] * len(v):
        return ['__big__', len(v), v[0]]
    if isinstance(v, tuple):
        return ['__t__'] + [enc(x) for x in v]
    if isinstance(v, list):
        return [enc(x) for x in v]
    if isinstance(v, dict):
        return {str(k): enc(x) for k, x in v.items()}
    if isinstance(v, bytes):
        return ['__b__', v.decode('latin1')]
    return v


def enc_items(d):
    return [[enc(k), enc(v)] for k, v in d.items()]


def marker(name):
    try:
        os.mkdir('/proc/klepto-verif-marker-%s' % name)
    except OSError:
        pass



# ---------------------------------------------------------------- cooperative gate (C14)
GATE = None


class Gate:
    """Before every file-system call that touches the shared archive the process announces the call
    on a pipe and waits for the scheduler's go-ahead: the parent decides the interleaving of real
    processes at file-system-call granularity.  Patches the os / builtins / sqlite3 entry points of
    THIS process only; klepto itself is untouched."""

    def __init__(self, base, fd_out, fd_in, sql_commit=True):
        self.base = os.path.realpath(base)
        self.out = os.fdopen(fd_out, 'w', buffering=1)
        self.inp = os.fdopen(fd_in, 'r', buffering=1)
        self.on = False
        self.sql_commit = sql_commit
        self.buffered_files = True

    def mine(self, path):
        try:
            if isinstance(path, int):
                return False
            p = os.path.realpath(os.fspath(path) if not isinstance(path, bytes) else path.decode())
        except Exception:
            return False
        return p.startswith(self.base)

    def wait(self, what):
        if not self.on:
            return
        self.on = False            # calls made while reporting are not gated
        try:
            self.out.write(json.dumps({'gate': what}) + '\n')
            self.out.flush()
            self.inp.readline()
        finally:
            self.on = True

    def install(self):
        import builtins
        import io
        g = self
        real_open = builtins.open

        class WFile(object):
            """a file opened for writing inside the archive: its data reach the file system when it is closed
            - explicitly, by a with block, or when the last reference goes - and that is a scheduling point"""
            def __init__(self, f, name):
                self.__dict__['_f'] = f
                self.__dict__['_name'] = name
                self.__dict__['_closed'] = False

            def write(self, data):
                return self._f.write(data)

            def close(self):
                if not self._closed:
                    self.__dict__['_closed'] = True
                    g.wait('close(%s)' % self._name)
                    self._f.close()

            def __enter__(self):
                return self

            def __exit__(self, *exc):
                self.close()
                return False

            def __del__(self):
                if not self._closed:
                    self.__dict__['_closed'] = True
                    try:
                        g.wait('close-by-gc(%s)' % self._name)
                    except Exception:
                        pass
                    self._f.close()

            def __getattr__(self, n):
                return getattr(self._f, n)

        def open_(file, mode='r', *a, **k):
            if g.mine(file):
                g.wait('open(%s,%s)' % (os.path.basename(str(file)), mode))
                if any(c in mode for c in 'wax+') and g.buffered_files:
                    return WFile(real_open(file, mode, *a, **k), os.path.basename(str(file)))
            return real_open(file, mode, *a, **k)
        builtins.open = open_
        io.open = open_

        def wrap1(name, always=False):
            real = getattr(os, name)

            def f(path, *a, **k):
                if always or k.get('dir_fd') is not None or g.mine(path):
                    g.wait('%s(%s)' % (name, os.path.basename(str(path).rstrip('/'))))
                return real(path, *a, **k)
            f.__name__ = name
            setattr(os, name, f)

        def wrap2(name):
            real = getattr(os, name)

            def f(a1, a2, *a, **k):
                if g.mine(a1) or g.mine(a2):
                    g.wait('%s(%s,%s)' % (name, os.path.basename(str(a1)), os.path.basename(str(a2))))
                return real(a1, a2, *a, **k)
            f.__name__ = name
            setattr(os, name, f)
        for n in ('remove', 'unlink', 'rmdir', 'mkdir', 'listdir', 'scandir'):
            wrap1(n)
        for n in ('rename', 'replace'):
            wrap2(n)
        # os.open is what shutil.rmtree uses to walk a directory
        real_osopen = os.open

        def osopen(path, flags, *a, **k):
            if k.get('dir_fd') is not None or g.mine(path):
                g.wait('os.open(%s)' % os.path.basename(str(path).rstrip('/')))
            return real_osopen(path, flags, *a, **k)
        os.open = osopen
        import sqlite3
        real_connect = sqlite3.connect

        class Cur:
            def __init__(self, c):
                self._c = c

            def execute(self, sql, *a):
                g.wait('sql:' + sql.split()[0].lower())
                return self._c.execute(sql, *a)

            def __getattr__(self, n):
                return getattr(self._c, n)

            def __iter__(self):
                return iter(self._c)

        class Conn:
            def __init__(self, c):
                self._c = c

            def cursor(self, *a, **k):
                return Cur(self._c.cursor(*a, **k))

            def execute(self, sql, *a):
                g.wait('sql:' + sql.split()[0].lower())
                return self._c.execute(sql, *a)

            def commit(self):
                if g.sql_commit:
                    g.wait('sql:commit')
                return self._c.commit()

            def __getattr__(self, n):
                return getattr(self._c, n)

        def connect(*a, **k):
            return Conn(real_connect(*a, **k))
        sqlite3.connect = connect

    def done(self, res):
        self.on = False
        self.out.write(json.dumps({'done': res}) + '\n')
        self.out.flush()


def reader_probe(label, path, key):
    """everything a concurrent reader does: membership, lookup, length, iteration, bulk load"""
    a = ctor(label, path)
    out = {}
    k = dec(key)
    out['contains'] = k in a
    out['get'] = enc(a.get(k, '__absent__'))
    out['len'] = len(a)
    out['keys'] = [enc(x) for x in a.keys()]
    out['items'] = enc_items(dict(a.items()))
    c = ctor(label, path, cached=True)
    c.load()
    out['load'] = enc_items(dict(c.items()))
    return out


def perform(label, path, action):
    kind = action[0]
    if kind == 'open':                      # merely opening an existing archive
        a = ctor(label, path)
        return None
    if kind == 'open-cached':
        a = ctor(label, path, cached=True)
        return None
    if kind == 'read':                      # what a fresh handle sees
        a = ctor(label, path)
        d = dict(a.items())
        n = len(a)
        ks = list(a.keys())
        if n != len(d) or len(ks) != len(d):
            raise AssertionError('len()=%d, %d keys, %d items' % (n, len(ks), len(d)))
        return enc_items(d)
    if kind == 'read-cache':                # ... and what a cache loads from it
        a = ctor(label, path, cached=True)
        a.load()
        return enc_items(dict(a.items()))
    if kind == 'read-dill':                 # contents with their Python types, for the parent to unpickle
        import dill
        a = ctor(label, path, **({'cached': True} if action[1:] == ['cached'] else {}))
        if action[1:] == ['cached']:
            a.load()
        return dill.dumps(dict(a.items())).hex()
    if kind == 'refunc':                    # a decorated function re-created on the archive
        import klepto
        import klepto.keymaps as km
        algo, kmname, xs, use_load = action[1:5]
        calls = []

        def fn(x):
            calls.append(x)
            return None if x % 3 == 0 else x * x + 1     # None is a result like any other
        keymap = {'default': None, 'hash': km.hashmap(flat=True), 'string': km.stringmap(flat=True), 'pickle': km.picklemap(flat=True)}[kmname]
        kw = {} if algo in ('inf_cache', 'no_cache') else {'maxsize': 50}
        g = getattr(klepto, algo)(cache=ctor(label, path, cached=True), keymap=keymap, **kw)(fn)
        if use_load:
            g.load()
        res = [g(dec(x)) for x in xs]
        return {'results': res, 'evaluated': len(calls), 'info': list(g.info())}
    if kind == 'len':
        return len(ctor(label, path))
    if kind == 'keys':
        return [enc(k) for k in ctor(label, path).keys()]
    if kind == 'items':
        return enc_items(dict(ctor(label, path).items()))
    if kind == 'contains':
        return dec(action[1]) in ctor(label, path)
    if kind == 'contains-hold':
        # membership test, after which the process keeps its handle open for a while (it goes on with other work)
        a = ctor(label, path)
        r = dec(action[1]) in a
        if GATE is not None:
            GATE.wait('holding the handle')
        return r
    if kind == 'probe':
        return reader_probe(label, path, action[1])
    if kind == 'lookup':
        a = ctor(label, path)
        k = dec(action[1])
        return [k in a, enc(a.get(k, '__absent__'))]
    a = ctor(label, path)
    if kind == 'set':
        a[dec(action[1])] = dec(action[2])
    elif kind == 'del':
        del a[dec(action[1])]
    elif kind == 'pop':
        a.pop(dec(action[1]))
    elif kind == 'update':
        a.update(dict((dec(k), dec(v)) for k, v in action[1]))
    elif kind == 'clear':
        a.clear()
    elif kind == 'setdefault':
        a.setdefault(dec(action[1]), dec(action[2]))
    elif kind == 'popkeys':
        a.popkeys([dec(k) for k in action[1]])
    elif kind == 'dump':                    # dump from a cache in front of the archive
        c = ctor(label, path, cached=True)
        for k, v in action[1]:
            c[dec(k)] = dec(v)
        c.dump()
    elif kind == 'dump-keys':
        c = ctor(label, path, cached=True)
        for k, v in action[1]:
            c[dec(k)] = dec(v)
        c.dump(*[dec(k) for k, _ in action[1]][:1])
    elif kind == 'seed':                    # constructor seeded with a dict
        import klepto.archives as ar
        d = dict((dec(k), dec(v)) for k, v in action[1])
        ext = location(label, path)
        if label.startswith('file'):
            ar.file_archive(ext, d, cached=False, **({'protocol': 'json'} if label == 'file-json' else {'serialized': False} if label == 'file-source' else {}))
        elif label.startswith('dir'):
            ar.dir_archive(ext, d, cached=False, **({'protocol': 'json'} if label == 'dir-json' else {'fast': True} if label == 'dir-fast' else {'serialized': False} if label == 'dir-source' else {}))
        else:
            ar.sqltable_archive('sqlite:///%s.db?table=memo' % path, d, cached=False)
    else:
        raise ValueError(kind)
    return None


def main():
    spec = json.loads(sys.argv[1])
    res = {'ok': True}
    import klepto.archives          # everything is imported before the action starts
    import klepto._archives
    import sqlite3, dill, json as _j, shutil, tempfile, random
    import dill.source
    import klepto._pickle
    gate = None
    if spec.get('gate'):
        gate = Gate(spec['gate']['base'], spec['gate']['out'], spec['gate']['in'], spec['gate'].get('sql_commit', True))
        gate.install()
        global GATE
        GATE = gate
        gate.on = True
        gate.wait('start')
    if spec.get('mark'):
        marker('begin')
    try:
        res['value'] = perform(spec['config'], spec['path'], spec['action'])
    except BaseException as e:
        import traceback
        res = {'ok': False, 'error': '%s: %s' % (type(e).__name__, e), 'where': traceback.format_exc()[-600:]}
    if gate:
        gate.done(res)
        return 0
    if spec.get('mark'):
        marker('end')
    if spec.get('out'):
        with open(spec['out'], 'w') as f:
            json.dump(res, f)
    else:
        sys.stdout.write(json.dumps(res))
    return 0


if __name__ == '__main__':
    sys.exit(main())
