"""Extended callables for the key-pipeline monitors (outside the Coq model's signature class, inside
the properties' quantifier): functools.partial objects (fixing positionals, keywords, keyword-only
defaults), bound methods, callable instances, partials of bound methods, and plain functions used
as methods with ignore='self'.  Implementation-only monitors: CPython's inspect.signature(...).bind
is the notion of "binds the same values"."""
import functools
import inspect
import random

import keys_common as kc


def sig_from_inspect(obj):
    """my signature dict from inspect.signature(obj); None if it has positional-only parameters"""
    s = inspect.signature(obj)
    out = {'params': [], 'varargs': False, 'kwonly': [], 'varkw': False}
    for p in s.parameters.values():
        if p.kind == p.POSITIONAL_ONLY:
            return None
        if p.kind == p.POSITIONAL_OR_KEYWORD:
            out['params'].append((p.name, p.default))
        elif p.kind == p.VAR_POSITIONAL:
            out['varargs'] = True
        elif p.kind == p.KEYWORD_ONLY:
            out['kwonly'].append((p.name, p.default))
        else:
            out['varkw'] = True
    return out


class Holder:
    """instances carry bound methods and a __call__"""
    def __init__(self, tag):
        self.tag = tag

    def __repr__(self):
        return 'Holder(%r)' % self.tag

    def __eq__(self, o):
        return isinstance(o, Holder) and o.tag == self.tag

    def __hash__(self):
        return hash(('Holder', self.tag))


def gen_callable(rng):
    """(label, callable) - built from a generated plain function"""
    base = kc.gen_sig(rng)
    kind = rng.choice(['partial-pos', 'partial-kw', 'partial-kwonly', 'method', 'instance', 'partial-method', 'plain'])
    if kind == 'partial-kwonly' and not [1 for n, d in base['kwonly'] if d is not inspect.Parameter.empty]:
        base['kwonly'] = base['kwonly'] + [('m', rng.choice(kc.VALUES))] if 'm' not in [n for n, _ in base['kwonly']] else base['kwonly']
        if not [1 for n, d in base['kwonly'] if d is not inspect.Parameter.empty]:
            kind = 'partial-kw'
    f = kc.make_func(base)
    if kind == 'plain':
        return 'plain ' + kc.sig_text(base).split('\n')[0], f
    if kind == 'partial-pos':
        n = rng.randint(0, len(base['params']))
        vals = [kc.fresh(rng.choice(kc.VALUES)) for _ in range(n)]
        return 'partial(%s, %s)' % (kc.sig_text(base).split('\n')[0], vals), functools.partial(f, *vals)
    if kind == 'partial-kw':
        names = [n for n, _ in base['params']][1:] + [n for n, _ in base['kwonly']]
        ks = rng.sample(names, min(len(names), rng.randint(0, 2)))
        kw = {n: kc.fresh(rng.choice(kc.VALUES)) for n in ks}
        return 'partial(%s, **%s)' % (kc.sig_text(base).split('\n')[0], kw), functools.partial(f, **kw)
    if kind == 'partial-kwonly':
        ks = [n for n, d in base['kwonly'] if d is not inspect.Parameter.empty][:1]
        kw = {n: kc.fresh(rng.choice([v for v in kc.VALUES if True])) for n in ks}
        return 'partial(%s, **%s)' % (kc.sig_text(base).split('\n')[0], kw), functools.partial(f, **kw)
    # methods: prepend self
    msig = dict(base)
    msig['params'] = [('self', inspect.Parameter.empty)] + [p for p in base['params'] if p[0] != 'self']
    ns = {}
    text = kc.sig_text(msig, 'meth')
    exec(text, ns)
    cls = type('H%d' % rng.randint(0, 10 ** 6), (Holder,), {'meth': ns['meth'], '__call__': ns['meth']})
    inst = cls(rng.randint(0, 3))
    if kind == 'method':
        return 'bound method ' + text.split('\n')[0], inst.meth
    if kind == 'instance':
        return 'callable instance ' + text.split('\n')[0], inst
    n = rng.randint(0, max(0, len(msig['params']) - 1))
    vals = [kc.fresh(rng.choice(kc.VALUES)) for _ in range(n)]
    return 'partial(bound method %s, %s)' % (text.split('\n')[0], vals), functools.partial(inst.meth, *vals)


KEYMAPS = None


def keymaps():
    global KEYMAPS
    if KEYMAPS is None:
        import klepto.keymaps as km
        KEYMAPS = [('raw-tFM', lambda: km.keymap(flat=True, sentinel=kc.SENT)), ('raw-tfm', lambda: km.keymap(flat=False)),
                   ('str-tfm', lambda: km.stringmap(flat=False)), ('md5-tFM', lambda: km.hashmap(flat=True, algorithm='md5', sentinel=kc.SENT)),
                   ('repr-TFM', lambda: km.stringmap(flat=True, typed=True, encoding='repr', sentinel=kc.SENT)),
                   ('pik-tFM', lambda: km.picklemap(flat=True, sentinel=kc.SENT))]
    return KEYMAPS


def run_ext_case(prop, sd, idx):
    """returns (hits, stats)"""
    import klepto
    rng = random.Random('ext-%s-%d-%d' % (prop, sd, idx))
    hits = []
    stats = {'ext_calls': 0}
    label, obj = gen_callable(rng)
    sig = sig_from_inspect(obj)
    if sig is None:
        return hits, stats
    b0 = kc.gen_binding(rng, sig)
    forms0 = kc.call_forms(rng, sig, b0, 3)
    # a near miss: one parameter changed
    b1 = {'vals': dict(b0['vals']), 'extra_pos': list(b0['extra_pos']), 'extra_kw': dict(b0['extra_kw'])}
    changed = None
    if b1['vals']:
        changed = rng.choice(list(b1['vals']))
        if isinstance(obj, functools.partial) and obj.keywords and rng.random() < 0.7:
            changed = rng.choice(list(obj.keywords))     # a parameter the partial pre-sets
            b0['vals'][changed] = obj.keywords[changed]  # ... left at the partial's value in the first call
            b1['vals'][changed] = obj.keywords[changed]
            forms0 = kc.call_forms(rng, sig, b0, 3)
        old = b1['vals'][changed]
        new = rng.choice([v for v in kc.VALUES if v != old])
        if isinstance(obj, functools.partial) and changed in (obj.keywords or {}):
            try:
                under = inspect.signature(obj.func).parameters[changed].default
                if under is not inspect.Parameter.empty and under != old and rng.random() < 0.7:
                    new = under                          # ... and set to the underlying function's own default in the second
            except Exception:
                pass
        b1['vals'][changed] = kc.fresh(new)
    forms1 = kc.call_forms(rng, sig, b1, 2) if changed else []
    for klabel, ctor in keymaps():
        try:
            f = klepto.inf_cache(keymap=ctor())(obj)
        except Exception as e:
            hits.append({'prop': prop, 'keymap': klabel, 'what': 'decorating %s failed: %s: %s' % (label, type(e).__name__, e), 'calls': []})
            continue
        keys0 = []
        for a, k in forms0:
            if kc.py_bind(obj, a, k) is None:
                continue
            try:
                keys0.append((a, k, f.key(*a, **k)))
            except Exception as e:
                hits.append({'prop': prop, 'keymap': klabel,
                             'what': 'key%s on %s raised %s: %s' % (kc_show(a, k), label, type(e).__name__, e), 'calls': [[a, k]]})
            stats['ext_calls'] += 1
        if prop in ('C09', 'C17'):
            for a, k, key in keys0[1:]:
                if kc.key_id(key) != kc.key_id(keys0[0][2]):
                    hits.append({'prop': prop, 'keymap': klabel,
                                 'what': 'on %s the calls %s and %s bind identically but get different keys under %s: %r vs %r'
                                         % (label, kc_show(keys0[0][0], keys0[0][1]), kc_show(a, k), klabel, keys0[0][2], key),
                                 'calls': [[keys0[0][0], keys0[0][1]], [a, k]], 'keys': [keys0[0][2], key]})
        if prop in ('C10', 'C11') and keys0 and forms1:
            a, k = forms1[0]
            if kc.py_bind(obj, a, k) is not None:
                try:
                    key1 = f.key(*a, **k)
                except Exception:
                    continue
                typed = klabel.split('-')[1][0] == 'T'
                u, v = b0['vals'][changed], b1['vals'][changed]
                differs = (u != v) or (typed and type(u) is not type(v))
                if differs and kc.key_id(key1) == kc.key_id(keys0[0][2]):
                    hits.append({'prop': prop, 'keymap': klabel,
                                 'what': 'on %s the calls %s and %s bind different values to %r but share key %r under %s'
                                         % (label, kc_show(keys0[0][0], keys0[0][1]), kc_show(a, k), changed, key1, klabel),
                                 'calls': [[keys0[0][0], keys0[0][1]], [a, k]]})
    # ---- a plain function used as a method, ignore=('self', ...): the instance never reaches the key
    if prop == 'C11':
        hits.extend(self_case(rng))
    return hits, stats


def self_case(rng):
    import klepto
    import klepto.keymaps as km
    hits = []
    base = kc.gen_sig(rng, allow_kwonly=False)
    base['params'] = [('self', inspect.Parameter.empty)] + [p for p in base['params'] if p[0] != 'self'][:2]
    base['varargs'] = rng.random() < 0.6
    ns = {}
    exec(kc.sig_text(base, 'meth'), ns)
    cls = type('S%d' % rng.randint(0, 10 ** 6), (Holder,), {'meth': ns['meth']})
    a1, a2 = cls(1), cls(2)
    ignore = ('self', '*') if base['varargs'] and rng.random() < 0.7 else ('self',)
    f = klepto.lru_cache(maxsize=10, keymap=km.keymap(flat=False), ignore=ignore)(cls.meth)
    rest = [kc.fresh(rng.choice(kc.VALUES)) for _ in base['params'][1:] if True]
    rest = [r for r, p in zip(rest, base['params'][1:])]
    extra1 = [rng.choice(kc.VALUES) for _ in range(rng.randint(1, 2))] if base['varargs'] else []
    extra2 = [rng.choice([v for v in kc.VALUES if v not in extra1] or kc.VALUES) for _ in range(len(extra1))]
    need = [p for p in base['params'][1:]]
    if len(rest) < len(need):
        return hits
    try:
        k1 = f.key(a1, *rest, *extra1)
        k2 = f.key(a2, *rest, *extra1)
        if kc.key_id(k1) != kc.key_id(k2):
            hits.append({'prop': 'C11', 'keymap': 'raw-tfm',
                         'what': 'ignore=%r on %s: calls differing only in the instance get different keys %r vs %r'
                                 % (ignore, kc.sig_text(base, 'meth').split('\n')[0], k1, k2), 'calls': []})
        if '*' in ignore and extra1:
            k3 = f.key(a1, *rest, *extra2)
            if kc.key_id(k1) != kc.key_id(k3):
                hits.append({'prop': 'C11', 'keymap': 'raw-tfm',
                             'what': "ignore=%r on %s: calls differing only in extra positionals %r vs %r get different keys %r vs %r"
                                     % (ignore, kc.sig_text(base, 'meth').split('\n')[0], extra1, extra2, k1, k3), 'calls': []})
        if rest:
            rest2 = list(rest)
            rest2[0] = rng.choice([v for v in kc.VALUES if v != rest[0]])
            k4 = f.key(a1, *rest2, *extra1)
            if kc.key_id(k1) == kc.key_id(k4):
                hits.append({'prop': 'C11', 'keymap': 'raw-tfm',
                             'what': 'ignore=%r on %s: non-ignored argument %r vs %r does not discriminate (key %r)'
                                     % (ignore, kc.sig_text(base, 'meth').split('\n')[0], rest[0], rest2[0], k1), 'calls': []})
    except Exception as e:
        hits.append({'prop': 'C11', 'keymap': 'raw-tfm', 'what': 'key() on a method with ignore=%r raised %s: %s' % (ignore, type(e).__name__, e), 'calls': []})
    return hits


def kc_show(a, k):
    return '(' + ', '.join([repr(x) for x in a] + ['%s=%r' % kv for kv in k.items()]) + ')'
