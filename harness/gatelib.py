"""Systematic interleaving of REAL processes at file-system-call granularity (C14).
Each participant is a store_child.py process whose file-system entry points are gated (store_child.Gate):
before every call on the shared archive it reports the call and blocks until the scheduler lets it go.
One execution follows one schedule (a sequence of process indices); `explore` enumerates schedules
depth-first by re-execution (stateless model checking), optionally with a preemption bound."""
import json
import os
import subprocess
import sys

import crashlib as cl

PY = sys.executable
STEP_TIMEOUT = 90      # seconds a process may take between two reports before it counts as blocked


class Proc:
    def __init__(self, spec, cwd, base, sql_commit=True):
        r_out, w_out = os.pipe()     # child -> scheduler
        r_in, w_in = os.pipe()       # scheduler -> child
        spec = dict(spec)
        spec['gate'] = {'base': base, 'out': w_out, 'in': r_in, 'sql_commit': sql_commit}
        self.p = subprocess.Popen([PY, cl.CHILD, json.dumps(spec)], cwd=cwd, env=cl.child_env(), pass_fds=(w_out, r_in),
                                  stdout=subprocess.DEVNULL, stderr=subprocess.PIPE)
        os.close(w_out)
        os.close(r_in)
        self.rfd = r_out
        self.buf = b''
        self.wr = os.fdopen(w_in, 'w', buffering=1)
        self.at = None        # the call it is waiting to perform
        self.result = None
        self.finished = False

    def advance(self):
        """read the next report: a gate or the final result"""
        ln = self._readline()
        if ln == 'HANG':
            self.finished = True
            self.result = {'ok': False, 'error': 'no report from the process for %d s at %r (blocked?)' % (STEP_TIMEOUT, self.at)}
            return
        if not ln:
            self.finished = True
            err = ''
            try:
                err = self.p.stderr.read().decode()[-400:]
            except Exception:
                pass
            self.result = {'ok': False, 'error': 'process died: %s' % err}
            return
        m = json.loads(ln)
        if 'gate' in m:
            self.at = m['gate']
        else:
            self.finished = True
            self.result = m['done']
            self.at = None

    def _readline(self):
        import select
        while b'\n' not in self.buf:
            r, _, _ = select.select([self.rfd], [], [], STEP_TIMEOUT)
            if not r:
                return 'HANG'
            chunk = os.read(self.rfd, 65536)
            if not chunk:
                return ''
            self.buf += chunk
        ln, _, self.buf = self.buf.partition(b'\n')
        return ln.decode() + '\n'

    def go(self):
        self.wr.write('go\n')
        self.wr.flush()
        self.advance()

    def close(self):
        try:
            self.wr.close()
        except Exception:
            pass
        try:
            os.close(self.rfd)
        except Exception:
            pass
        try:
            self.p.kill()
        except Exception:
            pass
        try:
            self.p.wait(timeout=10)
        except Exception:
            pass
        try:
            self.p.stderr.close()
        except Exception:
            pass


def execute(specs, cwd, base, prefix, sql_commit=True, max_steps=400):
    """run the processes under schedule `prefix`, then continue with the lowest-numbered process that
    can move (staying with the running one first: no extra preemptions).
    Returns (schedule actually followed, per-step enabled sets, step labels, results)"""
    procs = [Proc(s, cwd, base, sql_commit) for s in specs]
    try:
        for p in procs:
            p.advance()           # every process stops at its 'start' gate
        sched, enabled_at, labels = [], [], []
        last = None
        while True:
            enabled = [i for i, p in enumerate(procs) if not p.finished]
            if not enabled or len(sched) >= max_steps:
                break
            if len(sched) < len(prefix) and prefix[len(sched)] in enabled:
                i = prefix[len(sched)]
            elif last in enabled:
                i = last
            else:
                i = enabled[0]
            enabled_at.append(enabled)
            labels.append('%d:%s' % (i, procs[i].at))
            sched.append(i)
            procs[i].go()
            last = i
        return sched, enabled_at, labels, [p.result for p in procs]
    finally:
        for p in procs:
            p.close()


def preemptions(sched, enabled_at):
    n = 0
    for j in range(1, len(sched)):
        if sched[j] != sched[j - 1] and sched[j - 1] in enabled_at[j]:
            n += 1
    return n


def explore(run, bound=None, limit=None):
    """depth-first enumeration of schedules. `run(prefix)` -> (sched, enabled_at, labels, payload).
    Yields (sched, labels, payload) for every distinct complete schedule (within the preemption bound)."""
    stack = [[]]
    seen = 0
    while stack:
        prefix = stack.pop()
        sched, enabled_at, labels, payload = run(prefix)
        seen += 1
        yield sched, labels, payload
        if limit is not None and seen >= limit:
            return
        # alternatives at every step at or after the end of the prefix
        for j in range(len(sched) - 1, len(prefix) - 1, -1):
            for alt in enabled_at[j]:
                if alt != sched[j]:
                    cand = sched[:j] + [alt]
                    if bound is not None:
                        # preemptions in cand: count using enabled sets known so far
                        if preemptions(cand, enabled_at[:j + 1]) > bound:
                            continue
                    stack.append(cand)
