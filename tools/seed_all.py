#!/usr/bin/env python3
"""(re-)evaluate seeded changes and record the outcome in their meta.json.
usage: seed_all.py [--confirm] [seed ids ...]   (default: every directory under seeded/)
Never run while another check is running: every evaluation applies a patch to /repo and undoes it."""
import json
import os
import sys
import time

sys.path.insert(0, os.path.dirname(os.path.abspath(__file__)))
import seed_eval as se

VERIF = os.path.dirname(os.path.dirname(os.path.abspath(__file__)))


def main():
    args = [a for a in sys.argv[1:] if not a.startswith('--')]
    reconfirm = '--confirm' in sys.argv
    ids = args or sorted(os.listdir(os.path.join(VERIF, 'seeded')))
    summary = []
    for sid in ids:
        d = os.path.join(VERIF, 'seeded', sid)
        mp = os.path.join(d, 'meta.json')
        if not os.path.exists(mp):
            continue
        meta = json.load(open(mp))
        if reconfirm or not (meta.get('confirmed') or {}).get('result', {}).get('confirmed'):
            res = se.confirm(d)
            meta['confirmed'] = {'how': 'tools/seed_eval.py in a scratch worktree of /repo: demo.py exits 0 without the patch, non-zero with it; 46 tests pass with the patch',
                                 'result': res}
            json.dump(meta, open(mp, 'w'), indent=1)
            if not res.get('confirmed'):
                summary.append((sid, 'NOT CONFIRMED', res))
                print(sid, 'NOT CONFIRMED', json.dumps(res)[:600], flush=True)
                continue
        prop = meta.get('property') or sid.split('_')[0]
        checks = meta.get('evaluate_with') or [prop]
        out = se.run_checks(d, checks)
        if 'error' in out:
            summary.append((sid, 'ERROR', out))
            print(sid, 'ERROR', out, flush=True)
            continue
        meta['checks_latest'] = {c: {'caught': v['caught'], 'no_failing_input': v['no_input'] and not any(
            l.startswith('VIOLATION') and 'no-failing-input-found' not in l for l in v['lines']),
            'first_line': (v['lines'] or [''])[0][:300], 'wall_s': v['wall_s']} for c, v in out.items()}
        meta['evaluated_at'] = time.strftime('%Y-%m-%d %H:%M:%S')
        meta.pop('checks_round1', None)
        json.dump(meta, open(mp, 'w'), indent=1)
        caught = any(v['caught'] for v in out.values())
        summary.append((sid, 'caught' if caught else 'MISSED', None))
        print(sid, 'caught' if caught else 'MISSED', {c: v['lines'][:2] for c, v in out.items()}, flush=True)
    print('\n== %d evaluated, %d missed, %d unconfirmed' % (len(summary), len([s for s in summary if s[1] == 'MISSED']), len([s for s in summary if s[1] == 'NOT CONFIRMED'])))


if __name__ == '__main__':
    main()
