#!/bin/bash
# run every registered quick check on the current tree with several seeds; report alarms
cd "$(dirname "$0")/.."
seeds="${@:-20260930 1 2}"
props=$(python3 -c "import json; print(' '.join(c['property_id'] for c in json.load(open('MANIFEST.json'))['checks']))")
bad=0
for sd in $seeds; do
  for p in $props; do
    out=$(VERIF_SEED=$sd ./check $p --tier quick 2>&1); rc=$?
    if [ $rc -ne 0 ] || echo "$out" | grep -q "^VIOLATION"; then echo "ALARM seed=$sd $p rc=$rc"; echo "$out" | cut -c1-300 | head -4; bad=1; fi
  done
done
[ $bad = 0 ] && echo "all quiet"
