#!/bin/bash
# apply one seeded change to /repo, run one check, undo.  usage: try_seed.sh <seed id> [property] [tier]
sid=$1; p=${2:-${sid%%_*}}; tier=${3:-quick}
cd "$(dirname "$0")/.."
git -C /repo apply "$PWD/seeded/$sid/patch.diff" || exit 2
./check $p --tier $tier 2>&1 | grep -v "^KNOWN" | cut -c1-${COLS:-260} | head -${LINES_MAX:-4}
git -C /repo checkout -- .
