#!/usr/bin/env python3
"""Evaluate seeded changes: (1) confirm in a scratch worktree that the change passes the test-suite
and that its demonstration fails with it / passes without it; (2) apply it to /repo, run the
registered checks, undo it.  Usage: seed_eval.py <seed_dir> [check ids...]"""
import json
import os
import shutil
import subprocess
import sys
import time

REPO = '/repo'
VERIF = os.environ.get('VERIF_DIR', '/verif')


def sh(cmd, cwd=None, env=None, timeout=1800):
    e = dict(os.environ)
    if env:
        e.update(env)
    p = subprocess.run(cmd, shell=True, cwd=cwd, env=e, stdout=subprocess.PIPE, stderr=subprocess.STDOUT, timeout=timeout)
    return p.returncode, p.stdout.decode(errors='replace')


def confirm(seed_dir, wt='/tmp/seedcheck'):
    patch = os.path.join(seed_dir, 'patch.diff')
    demo = os.path.join(seed_dir, 'demo.py')
    sh('git -C %s worktree remove --force %s' % (REPO, wt))
    rc, out = sh('git -C %s worktree add -q --detach %s HEAD' % (REPO, wt))
    res = {}
    try:
        env = {'PYTHONPATH': wt, 'PYTHONDONTWRITEBYTECODE': '1'}
        rc0, o0 = sh('/venv/bin/python %s' % demo, cwd=wt, env=env, timeout=600)
        res['demo_without'] = rc0
        rc, out = sh('git apply %s' % patch, cwd=wt)
        res['applies'] = rc == 0
        if rc != 0:
            res['apply_log'] = out[-500:]
            return res
        rc1, o1 = sh('/venv/bin/python %s' % demo, cwd=wt, env=env, timeout=600)
        res['demo_with'] = rc1
        res['demo_with_tail'] = o1[-400:]
        rc, out = sh('/venv/bin/python -m pytest -q -p no:cacheprovider --timeout=900 --continue-on-collection-errors klepto/tests 2>&1 | tail -3',
                     cwd=wt, env=env, timeout=1800)
        res['tests'] = out.strip().split('\n')[-1]
        res['tests_ok'] = ' 46 passed' in out or out.strip().startswith('46 passed') or '46 passed' in out
    finally:
        sh('git -C %s worktree remove --force %s' % (REPO, wt))
    res['confirmed'] = bool(res.get('applies') and res.get('demo_without') == 0 and res.get('demo_with') not in (0, None) and res.get('tests_ok'))
    return res


def run_checks(seed_dir, checks, tier='quick'):
    patch = os.path.join(seed_dir, 'patch.diff')
    rc, out = sh('git -C %s status --porcelain --untracked-files=no' % REPO)
    if out.strip():
        raise SystemExit('/repo has uncommitted changes: ' + out)
    rc, out = sh('git -C %s apply %s' % (REPO, patch))
    if rc != 0:
        return {'error': 'patch does not apply to /repo: ' + out[-300:]}
    res = {}
    try:
        for c in checks:
            t0 = time.time()
            rc, out = sh('./check %s --tier %s' % (c, tier), cwd=VERIF, timeout=3600)
            lines = [l for l in out.split('\n') if l.startswith('VIOLATION') or l.startswith('#') or l.startswith('KNOWN')]
            res[c] = {'exit': rc, 'caught': rc != 0 and any(l.startswith('VIOLATION') for l in lines),
                      'no_input': any('no-failing-input-found' in l for l in lines if l.startswith('VIOLATION')),
                      'lines': lines[:6], 'wall_s': round(time.time() - t0, 1)}
    finally:
        sh('git -C %s checkout -- .' % REPO)
    return res


if __name__ == '__main__':
    seed_dir = os.path.abspath(sys.argv[1])
    checks = sys.argv[2:]
    meta = json.load(open(os.path.join(seed_dir, 'meta.json')))
    out = {'seed': os.path.basename(seed_dir), 'meta': meta}
    out['confirm'] = confirm(seed_dir)
    if out['confirm'].get('confirmed') and checks:
        out['checks'] = run_checks(seed_dir, checks)
    print(json.dumps(out, indent=1))
