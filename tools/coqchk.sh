#!/bin/bash
# independent re-check of every compiled property file and everything it depends on; prints the axioms of the whole context
cd "$(dirname "$0")/../coq" || exit 2
mods=$(ls Props/C*.v | sed 's#Props/\(C[0-9]*\)\.v#Klepto.\1#')
timeout 3000 coqchk -silent -o -Q Base Klepto -Q Cache Klepto -Q Keys Klepto -Q Store Klepto -Q Props Klepto $mods | tee ../coqchk_summary.txt
grep -q "Axioms: <none>" ../coqchk_summary.txt
