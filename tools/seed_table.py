#!/usr/bin/env python3
"""print the markdown table of seeded changes (seeded/*/meta.json) for DESIGN.md"""
import glob
import json
import os

rows = []
for d in sorted(glob.glob(os.path.join(os.path.dirname(__file__), '..', 'seeded', '*', 'meta.json'))):
    m = json.load(open(d))
    sid = os.path.basename(os.path.dirname(d))
    checks = m.get('checks_latest') or m.get('checks_round1') or {}
    res = []
    for c, v in sorted(checks.items()):
        if v.get('caught'):
            res.append('%s: caught%s' % (c, ' (correspondence/proof only: no-failing-input-found)' if (v.get('no_failing_input') or v.get('no_input')) else ' with a failing input'))
        else:
            res.append('%s: MISSED' % c)
    rows.append('| %s | %s | %s |' % (sid, m.get('summary', '').replace('|', '/').replace('\n', ' ')[:230], '; '.join(res) or 'not evaluated'))
print('| seeded change | what it does | result of the registered quick check(s) |')
print('|---|---|---|')
print('\n'.join(rows))
